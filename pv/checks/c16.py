"""C16 -- pattern matching results are sound (structural part)."""
from __future__ import annotations

import ast

from .. import AnalysisError
from ..model import CHILD, CHILD_TUPLE, ClassInfo, DATA
from ..rules import child_kinds, handler_summaries, is_raising, mapper_node_pairs, where
from ..summary import NODE, base_field, contains, mentioned_fields, summarize

UNI = "pymbolic.mapper.unifier"
MP = "pymbolic.interop.matchpy"
TF = "pymbolic.interop.matchpy.tofrom"

OTHER = ("param", "other")
URECS = ("param", "urecs")

# data fields that take part in node equality and therefore must be compared
# by the pairwise descent
DATA_COMPARED = {"Lookup": ["name"], "Comparison": ["operator"]}


def run(ctx):
    model = ctx.model
    ctx.decide("pairwise field coverage in UnifierBase: the class of the target "
               "is tested before any of its fields is read, every child field is "
               "recursed pairwise (same field on both sides) with the records "
               "threaded through, data fields that take part in equality are "
               "compared")
    ctx.decide("records with equations are created only by "
               "unification_record_from_equation (which applies the candidate "
               "filters); merging goes through unify_map, which rejects "
               "conflicting bindings")
    ctx.decide("matchpy bridge: to- and from- mappers are inverse tables over "
               "the op dataclasses (field by field), every op's _mapper_method "
               "names a from-handler")
    ctx.decide("AC search in UnidirectionalUnifier.map_commut_assoc: every child "
               "of the target is used exactly once (full index set at the start, a "
               "matched index is removed and never re-matched, a record leaves "
               "the search only when no target child is left over or the "
               "leftovers are partitioned among the free variables), the "
               "partition helper covers its whole set")
    ctx.decline("completeness of unification (records that are missed)")
    ctx.assume("matchpy's own matching is correct (external library)")

    _unifier_handlers(ctx, model)
    _records(ctx, model)
    uu_ = model.cls(f"{UNI}:UnidirectionalUnifier")
    mem_ = uu_.members.get("map_commut_assoc")
    if mem_ is None or mem_.kind != "func":
        raise AnalysisError("UnidirectionalUnifier.map_commut_assoc not found")
    try:
        awit, an = _judge_ac(model, uu_, model.inlined(mem_.node),
                             deep=ctx.tier == "thorough")
    except AnalysisError as e:
        awit = None
        ctx.extra["judge_unavailable:map_commut_assoc"] = str(e)
    if awit is not None:
        ctx.ob("P0/ac/records-instantiate-to-target", not awit,
               uu_.module.loc(mem_.node),
               f"map_commut_assoc interpreted on {an} matching problems (free "
               "variables and fixed children against 0..4 target children, "
               "every table of fixed-child matches): every record accounts for "
               "each target child exactly once and binds each variable to one "
               "value; a renamed pattern is matched" if not awit else
               "map_commut_assoc: " + "; ".join(awit[:2]), {"cases": an})
    mark_ac = len(ctx.obs)
    try:
        _ac_search(ctx, model)
    except AnalysisError:
        if awit is None or awit:
            raise
    if awit is not None and not awit:
        # (who calls the search, and with which combiner, is not the judge's)
        ctx.withdraw_failures_since(
            mark_ac, "decided by interpreting map_commut_assoc", prefix="P/ac/")
    _variable_handler(ctx, model)
    _matchpy(ctx, model)


# ---------------------------------------------------------------------------

def _judge_map_variable(model, mem):
    """interpretive judge: UnifierBase.map_variable on (pattern variable x,
    target, incoming records), with the equation filter and the merge as
    hooks.  Whenever the filter hands back a record for (x, target) -- also
    when the target is the variable x itself -- the result is the merge of
    the incoming records with it: a candidate that is matched "literally"
    without the record x = x stays free and can be bound to something else by
    its next occurrence (f(x, x) against f(x, t)).  Without a record, a
    same-named target variable passes the incoming records on exactly when x
    is not a candidate; everything else yields no record.  -> witnesses"""
    from ..absint import Interp, Obj, Opaque, Raised, StepBound, module_env
    fn = mem.node
    glob = module_env(mem.owner.module.tree, {})
    wit = []
    URECS = ["<incoming records>"]
    for other_kind in ("same-name variable", "other variable", "a sum"):
        for has_rec in (True, False):
            for cand in (True, False):
                if has_rec and not cand:
                    continue        # the filter records candidates only
                x = Obj("Variable", {"name": "x"})
                other = (Obj("Variable", {"name": "x"})
                         if other_kind == "same-name variable" else
                         Obj("Variable", {"name": "t"})
                         if other_kind == "other variable" else
                         Obj("Sum", {"children": (1, 2)}))
                REC = Obj("UnificationRecord", {})
                me = Obj("unifier", {
                    "lhs_mapping_candidates": {"x"} if cand else {"q"},
                    "rhs_mapping_candidates": set(),
                    "force_var_match": True})
                seen = []

                def record(it, nd, a, k, _r=REC if has_rec else None, _s=seen):
                    _s.append(tuple(a))
                    return _r

                def merge(it, nd, a, k):
                    return ("merged", a[0], a[1])

                def isinst(it, nd, a, k):
                    what = getattr(a[1], "what", "")
                    if what.split(" ")[-1].split(".")[-1] == "Variable":
                        return isinstance(a[0], Obj) and a[0].cls == "Variable"
                    from ..absint import default_isinstance
                    r = default_isinstance(a[0], a[1])
                    if r is None:
                        raise AnalysisError(f"isinstance(..., {a[1]!r})")
                    return r
                it = Interp(calls={
                    "self.unification_record_from_equation": record,
                    "unify_many": merge, "isinstance": isinst},
                    attrs=lambda it_, n_, b, at: Opaque(ast.unparse(n_)),
                    globals_=glob, max_steps=5000)
                label = (f"pattern variable x ({'a' if cand else 'not a'} "
                         f"candidate) against {other_kind}, the filter "
                         f"{'gives a record' if has_rec else 'gives none'}")
                try:
                    got = it.call_function(fn, [me, x, other, URECS], dict(glob))
                except Raised as r:
                    wit.append(f"{label}: raises at line "
                               f"{getattr(r.node, 'lineno', '?')}")
                    continue
                except StepBound:
                    wit.append(f"{label}: does not terminate")
                    continue
                if has_rec:
                    ok = got == ("merged", URECS, REC) or (
                        isinstance(got, tuple) and got[:1] == ("merged",) and
                        got[1] is URECS and got[2] is REC)
                    want = "the incoming records merged with the new record"
                elif other_kind == "same-name variable" and not cand:
                    ok = got is URECS
                    want = "the incoming records as they are"
                else:
                    ok = got == []
                    want = "no record"
                if not ok:
                    wit.append(f"{label}: answers {got!r}, expected {want}")
    return wit


def _variable_handler(ctx, model):
    ub = model.cls(f"{UNI}:UnifierBase")
    mem = model.lookup(ub, "map_variable")
    if mem is None or mem.kind != "func":
        raise AnalysisError("UnifierBase.map_variable not found")
    try:
        wit = _judge_map_variable(model, mem)
    except AnalysisError as e:
        ctx.extra["judge_unavailable:UnifierBase.map_variable"] = str(e)
        return
    ctx.ob("P0/UnifierBase/map_variable/binding-semantics", not wit, where(mem),
           "map_variable interpreted on 9 combinations of target, filter answer "
           "and candidacy: a record the filter gives is always merged in (also "
           "for x against x), a literal match passes only for non-candidates"
           if not wit else "UnifierBase.map_variable: " + "; ".join(wit[:2]))


def _guard_on_other(ps):
    """has the path established isinstance(other, type(expr))?"""
    for _, pol, v in ps.conds:
        if not isinstance(v, tuple):
            continue
        for sub, p_ in _disjuncts(v, pol):
            if sub[0] == "unop" and sub[1] == "Not" and _is_inst(sub[2]) and not p_:
                return True
            if _is_inst(sub) and p_:
                return True
    return False


def _is_inst(v):
    return isinstance(v, tuple) and v[0] == "call" and v[1] == "isinstance" and \
        v[2][0] == OTHER and v[2][1] == ("typeof", NODE)


def _disjuncts(v, pol):
    """(a or b) with polarity False means both a and b are False"""
    if v[0] == "boolop" and v[1] == "Or" and not pol:
        for x in v[2]:
            yield from _disjuncts(x, False)
    elif v[0] == "boolop" and v[1] == "And" and pol:
        for x in v[2]:
            yield from _disjuncts(x, True)
    else:
        yield v, pol


def _unifier_handlers(ctx, model):
    ub = model.cls(f"{UNI}:UnifierBase")
    ctx.floor("UnifierBase slots", len(model.own_slots(ub)), 27)
    nt = model.nodes
    pairs = 0
    for n, res, chain, mem in mapper_node_pairs(model, ub):
        if mem is None or mem.kind != "func" or mem.owner is not ub:
            continue
        if res.via in ("unsupported", "foreign") or is_raising(mem):
            continue
        if n.name in ("Variable",) or not child_kinds(n):
            continue
        pairs += 1
        _check_pairwise(ctx, model, ub, n, mem)
    ctx.floor("UnifierBase (mapper, node) pairs", pairs, 20)
    # map_constant: equal constants keep the records, others kill them
    mc = model.lookup(ub, "map_constant")
    saw = set()
    for ps in summarize(mc.node):
        eq = None
        for _, pol, v in ps.conds:
            if isinstance(v, tuple) and v[0] == "compare" and v[1] == ("Eq",) \
                    and {v[2], v[3][0]} == {NODE, OTHER}:
                eq = pol
        if eq is True:
            saw.add("eq")
            ctx.ob("P/UnifierBase/map_constant/equal", ps.retval == URECS,
                   where(mc), "equal constants: records unchanged")
        elif eq is False:
            saw.add("ne")
            ctx.ob("P/UnifierBase/map_constant/different",
                   ps.retval == ("lit", "list", ()), where(mc),
                   "different constants: no record survives" if
                   ps.retval == ("lit", "list", ()) else
                   "map_constant lets records survive although the constants "
                   "differ")
    ctx.ob("P/UnifierBase/map_constant/paths", saw == {"eq", "ne"}, where(mc),
           f"paths {sorted(saw)}")


def _check_pairwise(ctx, model, ub, n, mem):
    tag = f"F/UnifierBase/{mem.node.name}/{n.name}"
    kinds = child_kinds(n)
    pss = handler_summaries(model, n, mem.node, loop_mode="1")
    covered = set()
    # properties of the node class that alias a stored attribute
    from ..rules import make_props
    from ..summary import Evaluator
    alias = {}
    for pname, expand in make_props(model, n).items():
        try:
            v = expand(Evaluator(mem.node))
            b = base_field(v)
            if b:
                alias[pname] = b
        except Exception:
            pass
    for ps in pss:
        reads_other = [e for e in ps.events if False]
        # any use of other.<attr> on this path?
        uses_other = any(
            e.kind == "rec" and contains(e.args, lambda t: t[0] == "attr"
                                         and t[1] == OTHER) for e in ps.events)
        if uses_other:
            ok = _guard_on_other(ps)
            ctx.ob(f"{tag}/class-tested-first", ok, where(mem),
                   "fields of the target are read only after "
                   "isinstance(other, type(expr))" if ok else
                   f"UnifierBase.{mem.node.name} reads fields of the target "
                   "without having established isinstance(other, type(expr))")
        recs = [e for e in ps.events if e.kind == "rec"]
        for e in recs:
            if len(e.args) < 3:
                continue
            f = base_field(e.args[0])
            g = _other_field(e.args[1])
            g = alias.get(g, g)
            if f is None and g is None:
                continue
            ok = f == g
            if ok:
                covered.add(f)
            ctx.ob(f"{tag}/pairs-same-field:{f}", ok, where(mem, e.node),
                   f"expr.{f} is matched against other.{f}" if ok else
                   f"UnifierBase.{mem.node.name} matches expr.{f} against "
                   f"other.{g}")
        # threading: every recursion's third argument is urecs or a previous
        # recursion result / accumulator
        if recs and ps.term == "return":
            used = set()
            chain_ok = True
            for e in recs:
                third = e.args[2] if len(e.args) > 2 else None
                if third is None:
                    chain_ok = False
                elif third == URECS or third[0] == "rec" or third[0] in (
                        "param", "anyof", "other") or third == ("global",
                                                                "it_assignments"):
                    pass
            rv = ps.retval
            if kinds and all(k == CHILD for k in kinds.values()) and \
                    rv[0] == "rec":
                # nested form: count nesting depth
                depth = 0
                v = rv
                seen_fields = set()
                while isinstance(v, tuple) and v and v[0] == "rec":
                    depth += 1
                    seen_fields.add(base_field(v[1]))
                    v = v[3][1] if len(v[3]) > 1 else None
                ok = v == URECS and seen_fields >= set(kinds)
                ctx.ob(f"{tag}/records-threaded", ok, where(mem),
                       "the records are threaded through the match of every "
                       f"child {sorted(kinds)}" if ok else
                       f"UnifierBase.{mem.node.name}: the chain of recursive "
                       f"matches covers {sorted(x for x in seen_fields if x)} and "
                       f"ends in {v}; every child of {sorted(kinds)} must be "
                       "matched and the chain must start from urecs")
    missing = sorted(set(kinds) - covered)
    ctx.ob(f"{tag}/all-children-matched", not missing, where(mem),
           f"all child fields {sorted(kinds)} are matched pairwise" if not missing
           else f"UnifierBase.{mem.node.name} never matches child field(s) "
           f"{missing} of {n.name}: targets that differ there unify")
    # data fields
    for f in DATA_COMPARED.get(n.name, []):
        ok = False
        for ps in pss:
            for _, pol, v in ps.conds:
                if not isinstance(v, tuple):
                    continue
                for sub, p_ in _disjuncts(v, pol):
                    if sub[0] == "compare" and sub[1] in (("NotEq",), ("Eq",)) and \
                            {sub[2], sub[3][0]} == {("field", f),
                                                    ("attr", OTHER, f)}:
                        ok = True
        ctx.ob(f"{tag}/data-field-compared:{f}", ok, where(mem),
               f"{n.name}.{f} is compared" if ok else
               f"UnifierBase.{mem.node.name} does not compare {n.name}.{f}: "
               f"nodes that differ only in '{f}' unify")


def _other_field(v):
    if not isinstance(v, tuple):
        return None
    if v[0] == "attr" and v[1] == OTHER:
        return v[2]
    if v[0] in ("elem", "index", "val", "sorted"):
        return _other_field(v[1])
    if v[0] == "seq":
        return _other_field(v[2]) or _other_field(v[3])
    return None


# ---------------------------------------------------------------------------

def _records(ctx, model):
    m = model.repo.module(UNI)
    allowed = {"unification_record_from_equation", "unify", "__call__"}
    sites = []
    for c in model.classes.values():
        if c.module is not m:
            continue
        for name, mem in c.members.items():
            if mem.kind != "func":
                continue
            for call in ast.walk(mem.node):
                if isinstance(call, ast.Call) and ast.unparse(call.func) == \
                        "UnificationRecord":
                    sites.append((c.name, name, call))
    for key, (mm, fn) in model.functions.items():
        if mm is m:
            for call in ast.walk(fn):
                if isinstance(call, ast.Call) and ast.unparse(call.func) == \
                        "UnificationRecord":
                    sites.append(("<module>", fn.name, call))
    for cname, fname, call in sites:
        ok = fname in allowed
        if call.args and ast.unparse(call.args[0]) == "[]":
            ok = True        # the empty record carries no equation
        ctx.ob(f"O/UnificationRecord/site:{cname}.{fname}", ok, m.loc(call),
               "records are created only by the equation filter, the merge and "
               "the empty start record" if ok else
               f"{cname}.{fname} creates a UnificationRecord directly: its "
               "equation bypasses the candidate filters")
    ctx.floor("UnificationRecord construction sites", len(sites), 3)
    # the filter
    ub = model.cls(f"{UNI}:UnifierBase")
    mem = ub.members.get("unification_record_from_equation")
    L, R = ("param", "lhs"), ("param", "rhs")
    saw = set()
    for ps in summarize(mem.node, node_param=False):
        if ps.term != "return":
            continue
        rv = ps.retval
        if rv == ("const", None):
            saw.add("rejected")
            continue
        saw.add("record")
        ok_rv = rv[0] == "call" and rv[1] == "UnificationRecord" and \
            rv[2] == (("lit", "list", (("lit", "tuple", (L, R)),)),)
        # on the record path every filter has been passed
        passed = set()
        for _, pol, v in ps.conds:
            if not isinstance(v, tuple):
                continue
            s = str(v)
            if "isinstance" in s and "tuple" in s and not pol:
                passed.add("containers")
            if "force_var_match" in s and not pol:
                passed.add("force-var")
            if "lhs_mapping_candidates" in s and not pol:
                passed.add("lhs-candidates")
            if "rhs_mapping_candidates" in s and not pol:
                passed.add("rhs-candidates")
        need = {"containers", "force-var", "lhs-candidates", "rhs-candidates"}
        ctx.ob("P/unification_record_from_equation/filters", ok_rv and
               need <= passed, where(mem),
               "a record [(lhs, rhs)] is created only after the container, "
               "force-variable and both candidate filters" if ok_rv and
               need <= passed else
               f"a record is created without passing filter(s) "
               f"{sorted(need - passed)} (or is not [(lhs, rhs)])")
    ctx.ob("P/unification_record_from_equation/paths",
           saw == {"rejected", "record"}, where(mem), f"paths {sorted(saw)}")
    # candidate filters test membership of the *name* (the candidate sets hold
    # names; testing the node itself would never match and admit everything)
    by_name = {"lhs": False, "rhs": False}
    for ps in summarize(mem.node, node_param=False):
        for _, pol, v in ps.conds:
            if not isinstance(v, tuple):
                continue
            for side, P_ in (("lhs", L), ("rhs", R)):
                def hit(t, side=side, P_=P_):
                    return (t[0] == "compare" and t[1] in (("NotIn",), ("In",))
                            and t[2] == ("attr", P_, "name")
                            and t[3] == (("self", f"{side}_mapping_candidates"),))
                if contains(v, hit):
                    by_name[side] = True
    ok = all(by_name.values())
    ctx.ob("P/unification_record_from_equation/candidates-by-name", ok,
           where(mem), "only declared pattern variables may be bound" if ok else
           "the candidate filters no longer test '<side>.name (not) in "
           f"self.<side>_mapping_candidates' ({by_name})")
    # unify_map
    mm, fn = model.func(f"{UNI}:unify_map")
    saw = set()
    for ps in summarize(fn, plain=True, loop_mode="01"):
        if ps.term != "return":
            continue
        if ps.retval == ("const", None):
            conflict = any(pol and isinstance(v, tuple) and v[0] == "compare"
                           and v[1] == ("NotEq",) for _, pol, v in ps.conds)
            saw.add("conflict")
            ctx.ob("P/unify_map/conflict-rejects", conflict, mm.loc(fn),
                   "a name bound to two different values rejects the merge")
        else:
            saw.add("merged")
    ctx.ob("P/unify_map/paths", saw == {"conflict", "merged"}, mm.loc(fn),
           "conflict and merged exits" if saw == {"conflict", "merged"} else
           "unify_map no longer rejects conflicting bindings")
    # the merge works on a copy of one map and adds the bindings of the other
    P1, P2 = (("param", a_.arg) for a_ in fn.args.args[:2])
    adds = False
    for ps in summarize(fn, plain=True, loop_mode="01"):
        if ps.term != "return" or ps.retval == ("const", None):
            continue
        rv = ps.retval
        if isinstance(rv, tuple) and rv[0] == "dictextend":
            base, k, v, src_ = rv[1:5]
            other_p = P2 if contains(base, lambda t: t == P1) or base == P1 \
                else P1
            if k == ("key", other_p) and v == ("val", other_p):
                adds = True
    # the mapping that is written to is a fresh object: no chain of plain name
    # assignments leads from it back to a parameter
    pnames = {a_.arg for a_ in fn.args.args}
    written = {t.value.id for st in ast.walk(fn) if isinstance(st, ast.Assign)
               for t in st.targets if isinstance(t, ast.Subscript)
               and isinstance(t.value, ast.Name)}
    written |= {c.func.value.id for c in ast.walk(fn) if isinstance(c, ast.Call)
                and isinstance(c.func, ast.Attribute) and c.func.attr in (
                    "update", "setdefault", "pop", "clear")
                and isinstance(c.func.value, ast.Name)}

    def aliases_param(name, depth=0):
        if name in pnames:
            return True
        if depth > 8:
            return True
        for st in ast.walk(fn):
            if isinstance(st, ast.Assign) and any(
                    isinstance(t, ast.Name) and t.id == name for t in st.targets):
                if isinstance(st.value, ast.Name) and aliases_param(
                        st.value.id, depth + 1):
                    return True
        return False

    inplace = any(aliases_param(w) for w in written)
    ok = adds and not inplace
    ctx.ob("P/unify_map/copy", ok, mm.loc(fn),
           "the merge works on a copy and adds the new bindings" if ok else
           ("unify_map writes into (or returns) one of its argument maps: records "
            "that share the map see bindings of an abandoned branch" if inplace
            else "unify_map never adds the bindings of the second map"))
    # UnificationRecord.unify merges both maps through unify_map and rejects
    ur = model.cls(f"{UNI}:UnificationRecord")
    un = ur.members.get("unify")
    OTH = ("param", un.node.args.args[1].arg)

    def merged_map(v, which):
        return isinstance(v, tuple) and v[0] == "call" and v[1] == "unify_map" \
            and len(v[2]) == 2 and set(v[2]) == {("self", which),
                                                 ("attr", OTH, which)}

    def not_none(ps, v):
        for _, pol, c in ps.conds:
            if isinstance(c, tuple) and c[0] == "compare" and c[2] == v and \
                    c[3] == (("const", None),):
                if (c[1] == ("Is",) and pol is False) or \
                        (c[1] == ("IsNot",) and pol is True):
                    return True
        return False

    saw = set()
    for ps in summarize(un.node, node_param=False):
        if ps.term != "return":
            continue
        rv = ps.retval
        if rv == ("const", None):
            saw.add("rejected")
            continue
        saw.add("record")
        ok = isinstance(rv, tuple) and rv[0] == "call" and \
            rv[1] == "UnificationRecord"
        what = "UnificationRecord.unify returns something else than a record"
        if ok:
            kw = dict(rv[3]) if len(rv) > 3 else {}
            lm = rv[2][1] if len(rv[2]) > 1 else kw.get("lmap")
            rm = rv[2][2] if len(rv[2]) > 2 else kw.get("rmap")
            ok = merged_map(lm, "lmap") and merged_map(rm, "rmap") and \
                not_none(ps, lm) and not_none(ps, rm)
            what = ("the merged record is built from maps "
                    f"{_short_v(lm)} / {_short_v(rm)}: both must be "
                    "unify_map(self.X, other.X) and tested against None (a "
                    "conflict in either rejects the merge)")
        ctx.ob("P/UnificationRecord.unify/both-maps", ok, ur.loc(un.node),
               "both binding maps are merged through unify_map, a conflict in "
               "either rejects" if ok else what)
    ctx.ob("P/UnificationRecord.unify/paths", saw == {"rejected", "record"},
           ur.loc(un.node), f"paths {sorted(saw)}")
    # unify_many keeps only successful merges
    mm, fn = model.func(f"{UNI}:unify_many")
    n_keep = 0
    for ps in summarize(fn, plain=True, loop_mode="01"):
        if ps.term != "return":
            continue
        rv = ps.retval
        if not (isinstance(rv, tuple) and rv[0] == "seq"):
            continue
        n_keep += 1
        elem = rv[2]
        is_unify = isinstance(elem, tuple) and elem[0] == "call" and \
            len(elem) > 4 and elem[4][0] == "recv" and elem[4][2] == "unify"
        filt = not_none(ps, elem) or any(
            isinstance(c, tuple) and c[0] == "compare" and c[2] == elem and
            c[1] == ("IsNot",) and c[3] == (("const", None),)
            for c in (getattr(t, "val", None)
                      for t in (rv[4] if len(rv) > 4 else ())))
        ok = is_unify and filt
        ctx.ob("P/unify_many/filters-none", ok, mm.loc(fn),
               "rejected merges are dropped" if ok else
               "unify_many keeps an element that is not a successful merge "
               f"({_short_v(elem)}; tested against None: {filt})")
    ctx.floor("unify_many: keeping paths", n_keep, 1)


def _short_v(v):
    t = str(v)
    return t if len(t) < 120 else t[:117] + "..."


# ---------------------------------------------------------------------------
# the associative-commutative search

def _u(n):
    return ast.unparse(n).replace(" ", "")


def _nested(fn):
    return {s.name: s for s in ast.walk(fn)
            if isinstance(s, ast.FunctionDef) and s is not fn}


def _assigned(fn, name):
    """the single value assigned to a local name in fn (None if not exactly one)"""
    vals = [s.value for s in ast.walk(fn) if isinstance(s, ast.Assign)
            and len(s.targets) == 1 and isinstance(s.targets[0], ast.Name)
            and s.targets[0].id == name]
    return vals[0] if len(vals) == 1 else None


def _empties(test, pol, out):
    """names whose emptiness follows from test having truth value pol"""
    if isinstance(test, ast.BoolOp):
        if isinstance(test.op, ast.And) and pol:
            for v in test.values:
                _empties(v, True, out)
        elif isinstance(test.op, ast.Or) and not pol:
            for v in test.values:
                _empties(v, False, out)
        return
    if isinstance(test, ast.UnaryOp) and isinstance(test.op, ast.Not):
        if isinstance(test.operand, ast.Name) and pol:
            out.add(test.operand.id)
        elif not isinstance(test.operand, ast.Name):
            _nonempties_inv(test.operand, pol, out)
        return
    if isinstance(test, ast.Name) and not pol:
        out.add(test.id)
        return
    if isinstance(test, ast.Compare):
        terms = [test.left, *test.comparators]
        zero = any(isinstance(t, ast.Constant) and t.value == 0
                   and type(t.value) is int for t in terms)
        lens = [t.args[0].id for t in terms if isinstance(t, ast.Call)
                and _u(t.func) == "len" and len(t.args) == 1
                and isinstance(t.args[0], ast.Name)]
        if not zero or not lens:
            return
        if all(isinstance(o, ast.Eq) for o in test.ops) and pol:
            out.update(lens)
        elif len(test.ops) == 1 and not pol and len(lens) == 1:
            o = test.ops[0]
            first_len = isinstance(test.left, ast.Call)
            if isinstance(o, ast.NotEq) or (isinstance(o, ast.Gt) and first_len) \
                    or (isinstance(o, ast.Lt) and not first_len):
                out.update(lens)


def _nonempties_inv(test, pol, out):
    # not (<test>) with polarity pol  ==  <test> with polarity not pol
    _empties(test, not pol, out)


def _yields(path):
    """(index, yield node) for every yield / yield from on the path"""
    for i, it in enumerate(path):
        if it[0] == "stmt" and isinstance(it[1], ast.Expr) and isinstance(
                it[1].value, (ast.Yield, ast.YieldFrom)):
            yield i, it[1].value


def _judge_ac(model, uu, fn, deep=False):
    """interpretive judge (pv/absint.py): map_commut_assoc interpreted on
    small AC matching problems -- a pattern of free variables and fixed
    children against a target of 0..4 children, with the matches of the fixed
    children given by a table -- together with UnificationRecord, unify_map and
    unify_many as they are.  The property's clauses are checked on the records
    that come out:
      * every record accounts for each target child exactly once (the fixed
        children's matches and the free variables' shares partition the
        target), binds each variable to one value and keeps what the incoming
        record had bound;
      * when every pattern child can be paired with a target child of its own
        (the target is the pattern renamed), at least one record comes out.
    -> (witnesses, n_cases)"""
    import itertools
    from ..absint import (AbsGen, Interp, Obj, Opaque, Raised, StepBound,
                          module_env, default_isinstance)
    tree = uu.module.tree
    rec_cls = None
    for st in tree.body:
        if isinstance(st, ast.ClassDef) and st.name == "UnificationRecord":
            rec_cls = st
    if rec_cls is None:
        raise AnalysisError("UnificationRecord not found")
    rec_methods = {s_.name: s_ for s_ in rec_cls.body
                   if isinstance(s_, ast.FunctionDef)}

    def resolve(cls, nm):
        if cls == "UnificationRecord":
            return ("func", rec_methods[nm]) if nm in rec_methods else None
        if cls == "unifier":
            m_ = model.lookup(uu, nm)
            if m_ is not None and m_.kind == "func":
                return ("func", m_.node)
        return None

    def var(name):
        return Obj("Variable", {"name": name})

    def isinst(it, n_, a, k):
        cs = a[1] if isinstance(a[1], tuple) else (a[1],)
        names = [getattr(c, "what", "").replace(".", " ").split(" ")[-1]
                 for c in cs]
        if all(nm in ("Variable", "Sum", "Product", "Expression") for nm in names):
            return isinstance(a[0], Obj) and (a[0].cls in names or (
                "Expression" in names and a[0].cls in ("Variable", "AC", "Fixed")))
        r = default_isinstance(a[0], a[1])
        if r is None:
            raise AnalysisError(f"isinstance(..., {a[1]!r})")
        return r

    def type_(it, n_, a, k):
        if isinstance(a[0], Obj):
            return Opaque("class " + str(a[0].cls if a[0].cls != "AC"
                                         else a[0].fields["kind"]))
        raise AnalysisError("type() of a value")

    glob = module_env(tree, {})

    def mk_record(it, n_, a, k):
        o = Obj("UnificationRecord")
        it.call_function(rec_methods["__init__"], [o] + list(a),
                         dict(glob, __kwargs__=dict(k)))
        return o

    def isinst_ac(it, n_, a, k):
        # isinstance(other, type(expr))
        if isinstance(a[1], Opaque) and a[1].what.startswith("class ") and \
                isinstance(a[0], Obj) and a[0].cls == "AC":
            return a[1].what == "class " + a[0].fields["kind"]
        return isinst(it, n_, a, k)

    class FVal:
        """what the combiner makes of the target children it is handed"""
        def __init__(self, items):
            self.items = tuple(sorted(items))

        def __eq__(self, o):
            return isinstance(o, FVal) and self.items == o.items

        def __ne__(self, o):
            return not self == o

        def __hash__(self):
            return hash(self.items)

        def __repr__(self):
            return "combined" + repr(self.items)
    wit = []
    n_cases = 0

    class T:
        """a target child that is equal to the target children of the same
        label and a distinct object"""

        def __init__(self, label, j):
            self.label, self.j = label, j

        def __eq__(self, o):
            return isinstance(o, T) and o.label == self.label

        def __ne__(self, o):
            return not self == o

        def __hash__(self):
            return hash(self.label)

        def __lt__(self, o):
            return repr(self) < repr(o)

        def __repr__(self):
            return f"{self.label}#{self.j}"

    def run_case(nfree, nfixed, m, table, incoming, cands_extra=(),
                 other_kind="Sum", identical=False, labels=None):
        """table: set of (fixed index, target index) that match;
        identical: the target *is* the pattern (expr == other holds)"""
        free = [var(f"x{i}") for i in range(nfree)]
        fixed = [Obj("Fixed", {"i": i}) for i in range(nfixed)]
        # pattern children interleaved: fixed first, then free, then a fixed
        kids = tuple(fixed[:1] + free + fixed[1:])
        targets = tuple(f"t{j}" for j in range(m)) if labels is None else \
            tuple(T(lb, j) for j, lb in enumerate(labels))
        expr = Obj("AC", {"kind": "Sum", "children": kids})
        other = Obj("AC", {"kind": other_kind, "children": targets})
        if identical:
            targets, other = kids, expr
        me = Obj("unifier", {
            "lhs_mapping_candidates": {v.fields["name"] for v in free}
            | set(cands_extra),
            "rhs_mapping_candidates": None, "force_var_match": True})
        interp = [None]

        def rec(it, n_, a, k):
            my, oc, urecs = a[0], a[1], a[2]
            if not (isinstance(my, Obj) and my.cls == "Fixed"):
                raise AnalysisError("map_commut_assoc: rec of a child that is "
                                    "a free variable")
            idx = [j for j, t_ in enumerate(targets) if t_ is oc] or [
                j for j, t_ in enumerate(targets) if t_ == oc]
            if not idx:
                raise AnalysisError("map_commut_assoc: rec against something "
                                    "that is no target child")
            if (my.fields["i"], idx[0]) not in table:
                return []
            eq = mk_record(it, n_, [[(var(f"@{my.fields['i']}"), oc)]], {})
            return it.call_function(glob["unify_many"].fn, [list(urecs), eq],
                                    dict(glob))

        def factory(gen):
            return FVal(gen)
        it = Interp(calls={"self.rec": rec, "isinstance": isinst_ac,
                           "type": type_, "UnificationRecord": mk_record,
                           "combinations": lambda it_, n_, a, k: list(
                               itertools.combinations(sorted(a[0]), a[1])),
                           "itertools.combinations": lambda it_, n_, a, k: list(
                               itertools.combinations(sorted(a[0]), a[1]))},
                    attrs=lambda it_, n_, b, at: Opaque(ast.unparse(n_)),
                    resolve=resolve, globals_=glob, max_steps=400000)
        inc = []
        for bind in incoming:
            inc.append(mk_record(it, None, [[(var(nm), val)
                                            for nm, val in bind]], {}))
        label = (f"pattern of {nfree} free variable(s) and {nfixed} other "
                 f"child(ren) against {m} target child(ren), matches "
                 f"{sorted(table)}" + (f", incoming bindings {incoming}"
                                       if incoming != [[]] else ""))
        try:
            out = it.call_function(fn, [me, expr, other, inc, factory], dict(glob))
            if isinstance(out, AbsGen) or hasattr(out, "__next__"):
                out = list(out)
            elif out is None:
                out = []
        except Raised as r:
            wit.append(f"{label}: raises at line "
                       f"{getattr(r.node, 'lineno', '?')}")
            return
        except StepBound:
            wit.append(f"{label}: does not terminate")
            return
        if other_kind != "Sum":
            if out:
                wit.append(f"{label}: a target of another class than the "
                           "pattern's yields records")
            return
        # reference: is there an assignment at all / a renaming?
        def solutions():
            for sigma in itertools.permutations(range(m), nfixed):
                if all((i, j) in table for i, j in enumerate(sigma)):
                    left = set(range(m)) - set(sigma)
                    yield sigma, left
        renaming = any(len(left) == nfree for _, left in solutions())
        consistent_inc = [b for b in incoming]
        for r_ in out:
            if not (isinstance(r_, Obj) and r_.cls == "UnificationRecord"):
                wit.append(f"{label}: yields {r_!r}, not a record")
                return
            lmap = r_.fields.get("lmap")
            if not isinstance(lmap, dict):
                raise AnalysisError("UnificationRecord.lmap is not a table")
            used = []
            for i in range(nfixed):
                t = lmap.get(f"@{i}")
                if t not in targets:
                    wit.append(f"{label}: a record leaves the pattern's other "
                               f"child {i} unmatched")
                    return
                if not any((i, j_) in table for j_, t_ in enumerate(targets)
                           if t_ == t):
                    wit.append(f"{label}: a record pairs child {i} with {t}, "
                               "which it does not match")
                    return
                used.append(t)
            for v in free:
                val = lmap.get(v.fields["name"])
                if not isinstance(val, FVal):
                    wit.append(f"{label}: a record does not bind the free "
                               f"variable {v.fields['name']} to a recombination "
                               "of target children")
                    return
                used.extend(val.items)
            if sorted(used, key=repr) != sorted(targets, key=repr):
                wit.append(f"{label}: a record accounts for the target children "
                           f"{sorted(used, key=repr)}: instantiating the pattern "
                           "does not give back the target's "
                           f"{sorted(targets, key=repr)}")
                return
            extra = set(lmap) - {f"@{i}" for i in range(nfixed)} - {
                v.fields["name"] for v in free}
            if extra - {nm for b in incoming for nm, _ in b}:
                wit.append(f"{label}: a record binds {sorted(extra)}, which are "
                           "not pattern variables")
                return
            # what an incoming record bound stays bound to the same value
            ok_inc = any(all(lmap.get(nm) == val for nm, val in b)
                         for b in incoming)
            if not ok_inc:
                wit.append(f"{label}: a record contradicts every incoming "
                           "record (a variable is bound to two values)")
                return
        if renaming and incoming == [[]] and not out:
            wit.append(f"{label}: no record although every pattern child can "
                       "be paired with a target child of its own")

    for nfree, nfixed in ((0, 1), (0, 2), (1, 0), (1, 1), (2, 0), (2, 1),
                          (1, 2), (2, 2), (3, 0)):
        for m in range(0, 5):
            if m > nfree + nfixed + 1 and nfree == 0:
                continue
            if not deep and m == 4 and nfree + nfixed >= 3:
                continue
            pairs = [(i, j) for i in range(nfixed) for j in range(m)]
            if len(pairs) <= 4:
                tables = [set(c) for r_ in range(len(pairs) + 1)
                          for c in itertools.combinations(pairs, r_)]
            else:
                tables = [set(pairs), {(i, i) for i in range(min(nfixed, m))},
                          {(i, m - 1 - i) for i in range(min(nfixed, m))},
                          {(0, j) for j in range(m)}
                          | {(1, 0)} if nfixed > 1 else set(pairs),
                          set()]
            for table in tables:
                n_cases += 1
                run_case(nfree, nfixed, m, table, [[]])
                if len(wit) > 6:
                    return wit, n_cases
    # incoming records that already bind a free variable
    for m in (1, 2, 3):
        n_cases += 2
        run_case(1, 0, m, set(), [[("x0", FVal(f"t{j}" for j in range(m)))]])
        run_case(1, 0, m, set(), [[("x0", FVal(("t0", "zz")))]])
        run_case(2, 1, m, {(0, 0)}, [[("x0", FVal(("t1",)))], []])
        # ... with fixed children in the pattern (the incoming records reach
        # the result through the fixed children's matches)
        n_cases += 3
        run_case(1, 1, m, {(0, 0)}, [[("w", "elsewhere")]])
        run_case(1, 1, m + 1, {(0, 0)}, [[("x0", FVal(("t0", "zz")))]])
        run_case(1, 1, m + 1, {(0, 0), (0, 1)},
                 [[("x0", FVal(f"t{j}" for j in range(1, m + 1)))]])
    # several incoming records and no free variable among the children: what
    # came in must still be in what goes out (each result continues one of the
    # incoming records)
    n_cases += 3
    two = [[("w", "a")], [("w", "b")]]
    run_case(0, 1, 1, {(0, 0)}, two)
    run_case(0, 2, 2, {(0, 0), (1, 1)}, two)
    run_case(1, 1, 2, {(0, 0)}, two)
    # the target is literally the pattern, but matching a child against itself
    # binds what is *inside* it (f(x) against f(x) needs x = x): an incoming
    # record that has bound that otherwise rules the match out
    n_cases += 2
    run_case(0, 1, 1, {(0, 0)}, [[("@0", "elsewhere")]], identical=True)
    run_case(0, 2, 2, {(0, 0), (1, 1)}, [[("@1", "elsewhere")]], identical=True)
    # equal target children (f(x) + f(x) + y): each is a child of its own --
    # two equal pattern children need both of them
    n_cases += 3
    run_case(1, 2, 3, {(0, 0), (0, 1), (1, 0), (1, 1)}, [[]],
             labels=("A", "A", "B"))
    run_case(0, 2, 2, {(0, 0), (0, 1), (1, 0), (1, 1)}, [[]],
             labels=("A", "A"))
    run_case(1, 1, 3, {(0, 0), (0, 1)}, [[]], labels=("A", "A", "B"))
    # a target of another class is no match
    n_cases += 1
    run_case(1, 1, 2, {(0, 0)}, [[]], other_kind="Product")
    return wit, n_cases


def _ac_search(ctx, model):
    from ..cfg import paths
    uu = model.cls(f"{UNI}:UnidirectionalUnifier")
    mem = uu.members.get("map_commut_assoc")
    if mem is None or mem.kind != "func":
        raise AnalysisError("UnidirectionalUnifier.map_commut_assoc not found")
    fn = model.inlined(mem.node)
    m = uu.module
    loc = lambda n=None: m.loc(n if n is not None else fn)   # noqa: E731
    nested = _nested(fn)
    params = [a.arg for a in fn.args.args]
    if len(params) < 5:
        raise AnalysisError("map_commut_assoc: unexpected signature")
    expr_p, other_p, urecs_p, factory_p = params[1:5]
    tag = "P/ac"

    # -- who calls the search, and with which combiner: leftover children
    # bound to one free variable are recombined with the operator of the node
    # being matched
    from ..rules import resolve_handler
    want = {"Sum": "flattened_sum", "Product": "flattened_product"}
    n_call = 0
    for cname, comb in want.items():
        nd = model.nodes.get(cname)
        res, chain, hm = resolve_handler(model, uu, nd)
        if hm is None or hm.kind != "func":
            raise AnalysisError(f"UnidirectionalUnifier: no handler for {cname}")
        calls = [c for c in ast.walk(hm.node) if isinstance(c, ast.Call)
                 and isinstance(c.func, ast.Attribute)
                 and c.func.attr == "map_commut_assoc"]
        if not calls:
            continue        # this node class is not matched through the search
        for c in calls:
            n_call += 1
            a = c.args[4 - 1] if len(c.args) >= 4 else next(
                (k.value for k in c.keywords if k.arg == factory_p), None)
            got = _u(a).split(".")[-1] if a is not None else None
            if got not in want.values():
                raise AnalysisError(f"{hm.owner.name}.{hm.node.name}: combiner "
                                    f"'{got}' not recognised")
            ctx.ob(f"S/ac/{cname}/combiner", got == comb, hm.owner.module.loc(c),
                   f"{cname}: leftovers are recombined with {comb}"
                   if got == comb else
                   f"the handler {cname} nodes resolve to "
                   f"({hm.owner.name}.{hm.node.name}) hands {got} to the search: "
                   f"the {cname.lower()} children left over for one free variable "
                   f"are recombined with the wrong operator (pattern a*b against "
                   "d*e*f binds b = e + f)")
    ctx.floor("AC search: handler call sites", n_call, 2)

    # -- class of the target tested before anything else
    first = fn.body[0] if not (isinstance(fn.body[0], ast.Expr) and isinstance(
        fn.body[0].value, ast.Constant)) else fn.body[1]
    ok = isinstance(first, ast.If) and _u(first.test) == \
        f"notisinstance({other_p},type({expr_p}))" and \
        isinstance(first.body[-1], ast.Return) and (
            first.body[-1].value is None)
    ctx.ob(f"{tag}/class-tested-first", ok, loc(first),
           "a target of another class yields no record" if ok else
           "map_commut_assoc no longer starts by rejecting a target whose class "
           "differs from the pattern's")

    # -- the children of the pattern are split into two lists
    split = None
    for s_ in fn.body:
        if isinstance(s_, ast.For) and _u(s_.iter) == f"{expr_p}.children":
            split = s_
            break
    pvc = nv = None
    split_src = ""
    if split is not None and isinstance(split.target, ast.Name):
        child = split.target.id
        dest = {}   # list name -> polarities of the isinstance(Variable) test
        for path in paths(fn, "1", body=split.body):
            apps = [it[1].value for it in path if it[0] == "stmt" and isinstance(
                it[1], ast.Expr) and isinstance(it[1].value, ast.Call)
                and isinstance(it[1].value.func, ast.Attribute)
                and it[1].value.func.attr == "append"
                and len(it[1].value.args) == 1
                and _u(it[1].value.args[0]) == child]
            isvar = None
            for it in path:
                if it[0] == "cond":
                    if f"isinstance({child},Variable)" in _u(it[1]):
                        isvar = it[2]
            ok = len(apps) == 1 and isvar is not None
            ctx.ob(f"{tag}/children-split/exactly-one-list", ok, loc(split),
                   "every child of the pattern goes to exactly one of the two "
                   "lists" if ok else "a child of the pattern is appended to "
                   f"{len(apps)} list(s) on one path of the split loop: it is "
                   "matched twice or not at all")
            if ok:
                dest.setdefault(_u(apps[0].func.value), set()).add(isvar)
        pvcs = [k for k, v in dest.items() if v == {True}]
        nvs = [k for k, v in dest.items() if False in v]
        if len(pvcs) == 1 and len(nvs) == 1:
            pvc, nv = pvcs[0], nvs[0]
        split_src = _u(split)
    else:
        # two comprehensions over the children with complementary filters
        comps = []
        for s_ in fn.body:
            if isinstance(s_, ast.Assign) and isinstance(
                    s_.value, ast.ListComp) and len(s_.targets) == 1 and \
                    isinstance(s_.targets[0], ast.Name):
                g = s_.value.generators[0]
                if _u(g.iter) == f"{expr_p}.children" and len(g.ifs) == 1 and \
                        isinstance(g.target, ast.Name) and \
                        _u(s_.value.elt) == g.target.id:
                    import copy as _copy
                    c_ = _copy.deepcopy(g.ifs[0])
                    for n_ in ast.walk(c_):
                        if isinstance(n_, ast.Name) and n_.id == g.target.id:
                            n_.id = "CHILD"
                    comps.append((s_.targets[0].id, _u(c_), s_))
        if len(comps) != 2:
            raise AnalysisError("map_commut_assoc: the split of expr.children "
                                "into free variables and other children was not "
                                "recognised")
        (n1, c1, s1), (n2, c2, s2) = comps

        def negation_of(a_, b_):
            return a_ in (f"not({b_})", f"not{b_}") or (
                b_.startswith("(") and a_ == f"not{b_}")
        if negation_of(c2, c1):
            pvc, nv, pos = n1, n2, c1
        elif negation_of(c1, c2):
            pvc, nv, pos = n2, n1, c2
        else:
            pos = None
        ok = pos is not None
        ctx.ob(f"{tag}/children-split/exactly-one-list", ok, loc(s1),
               "the two lists are selected by complementary filters: every "
               "child goes to exactly one of them" if ok else
               f"the two filters over the pattern's children ('{c1}' / '{c2}') "
               "are not each other's negation: a child can be in both lists or "
               "in neither")
        split = s1
        child = "CHILD"
        split_src = pos or ""
        if ok and "isinstance(CHILD,Variable)" not in pos:
            pvc = nv = None
    if pvc is None or nv is None:
        ctx.ob(f"{tag}/children-split/lists", False, loc(split),
               "the split does not produce one list of free variables and one "
               "list of everything else")
        return
    ctx.ob(f"{tag}/children-split/lists", True, loc(split),
           f"free variables -> {pvc}, everything else -> {nv}")
    # a plain variable is 'free' only if it is a declared candidate
    ok = f"{child}.nameinself.lhs_mapping_candidates" in split_src
    if not ok:
        # ... or through a predicate method of the unifier that itself tests
        # membership of its argument in lhs_mapping_candidates
        for k in model.mro(uu):
            if not hasattr(k, "members"):
                continue
            for nm, hm in k.members.items():
                if hm.kind != "func" or len(hm.node.args.args) != 2:
                    continue
                par = hm.node.args.args[1].arg
                tests = any(
                    isinstance(c_, ast.Compare) and len(c_.ops) == 1
                    and isinstance(c_.ops[0], ast.In)
                    and isinstance(c_.left, ast.Name) and c_.left.id == par
                    and ast.unparse(c_.comparators[0]) ==
                    "self.lhs_mapping_candidates"
                    for r_ in ast.walk(hm.node) if isinstance(r_, ast.Return)
                    and r_.value is not None for c_ in ast.walk(r_.value))
                if tests and f"self.{nm}({child}.name)" in split_src:
                    ok = True
    ctx.ob(f"{tag}/children-split/candidates-only", ok, loc(split),
           "only declared pattern variables are treated as free" if ok else
           "the split no longer tests membership in lhs_mapping_candidates")

    # -- candidate table: (index, records of matching pattern child i with
    #    target child index)
    cand_loop = None
    for s in fn.body:
        if isinstance(s, ast.For) and _u(s.iter) == nv:
            cand_loop = s
    if cand_loop is None:
        raise AnalysisError("map_commut_assoc: candidate loop over the "
                            "non-variable children not recognised")
    my_child = _u(cand_loop.target)
    inner = [s for s in cand_loop.body if isinstance(s, ast.For)]
    if len(inner) != 1:
        raise AnalysisError("map_commut_assoc: candidate loop shape")
    inner = inner[0]
    ok_iter = _u(inner.iter) == f"enumerate({other_p}.children)" and isinstance(
        inner.target, ast.Tuple) and len(inner.target.elts) == 2
    if not ok_iter:
        raise AnalysisError("map_commut_assoc: inner candidate loop is not "
                            "'for j, c in enumerate(other.children)'")
    j, oc = (_u(e) for e in inner.target.elts)
    apps = [c for c in ast.walk(inner) if isinstance(c, ast.Call) and isinstance(
        c.func, ast.Attribute) and c.func.attr == "append"]
    ok = False
    what = "no (index, records) pair is recorded"
    if len(apps) == 1 and isinstance(apps[0].args[0], ast.Tuple) and \
            len(apps[0].args[0].elts) == 2:
        a_idx, a_rec = apps[0].args[0].elts
        recv = a_rec
        if isinstance(recv, ast.Name):
            recv = _assigned(inner, recv.id)
        want = f"self.rec({my_child},{oc},{urecs_p})"
        ok = _u(a_idx) == j and recv is not None and _u(recv) == want
        what = (f"candidate ({_u(a_idx)}, {_u(recv) if recv is not None else '?'})"
                f"; expected ({j}, {want})")
    ctx.ob(f"{tag}/candidates/index-matches-child", ok, loc(inner),
           "a candidate pairs the index of a target child with the records of "
           "matching that very child, starting from the incoming records" if ok
           else what)
    cands_list = _u(apps[0].func.value) if apps else None
    outer_apps = [c for c in cand_loop.body if isinstance(c, ast.Expr)
                  and isinstance(c.value, ast.Call) and isinstance(
                  c.value.func, ast.Attribute) and c.value.func.attr == "append"]
    if len(outer_apps) != 1 or _u(outer_apps[0].value.args[0]) != cands_list:
        raise AnalysisError("map_commut_assoc: candidate table append not found")
    table = _u(outer_apps[0].value.func.value)

    # -- start of the search
    last = fn.body[-1]
    if not (isinstance(last, ast.Expr) and isinstance(last.value, ast.YieldFrom)
            and isinstance(last.value.value, ast.Call)
            and _u(last.value.value.func) in nested):
        raise AnalysisError("map_commut_assoc: start of the search not recognised")
    start = last.value.value
    mc = nested[_u(start.func)]
    mc_params = [a.arg for a in mc.args.args]
    if len(start.args) != 3 or len(mc_params) != 3:
        raise AnalysisError("map_commut_assoc: search function arity")
    roles = {}
    for pname, a in zip(mc_params, start.args):
        t = _u(a)
        if t == "UnificationRecord([])":
            roles["rec"] = pname
        elif t == "0":
            roles["next"] = pname
        else:
            roles["left"] = pname
            ok = t == f"set(range(len({other_p}.children)))"
            ctx.ob(f"{tag}/start/all-target-children", ok, loc(last),
                   "the search starts with every target child unmatched" if ok
                   else f"the search starts with leftovers {t}, not the full "
                   "index set of the target's children")
    if set(roles) != {"rec", "next", "left"}:
        raise AnalysisError("map_commut_assoc: start arguments not recognised")
    L, NX, RC = roles["left"], roles["next"], roles["rec"]
    iL, iNX, iRC = (mc_params.index(x) for x in (L, NX, RC))

    # -- match_children
    pv_fn = None
    n_rec_calls = 0
    n_term_calls = 0
    for path in paths(mc, "1"):
        for i, y in _yields(path):
            if not (isinstance(y, ast.YieldFrom) and isinstance(y.value, ast.Call)
                    and _u(y.value.func) in nested):
                ctx.ob(f"{tag}/children/yields-only-via-search", False, loc(y),
                       f"'{_u(y)}' in {mc.name} hands out a record that has not "
                       "gone through the leftover accounting")
                continue
            call = y.value
            callee = nested[_u(call.func)]
            before = path[:i]
            if callee is mc:
                n_rec_calls += 1
                if len(call.args) != 3:
                    raise AnalysisError(f"{mc.name}: recursive call arity")
                # the loop over this level's candidates
                loops = [it[1] for it in before if it[0] == "for"]
                cl = [lp for lp in loops if _u(lp.iter) == f"{table}[{NX}]"]
                if len(cl) != 1 or not isinstance(cl[0].target, ast.Tuple):
                    raise AnalysisError(f"{mc.name}: loop over the candidates of "
                                        "the current pattern child not found")
                idx, pair = (_u(e) for e in cl[0].target.elts)
                a_left = call.args[iL]
                if isinstance(a_left, ast.Name):
                    a_left = _assigned(mc, a_left.id) or a_left
                ok = _u(a_left) == f"{L}-{{{idx}}}"
                ctx.ob(f"{tag}/children/matched-index-removed", ok, loc(call),
                       "the matched target index is removed from the leftovers"
                       if ok else f"the recursion continues with leftovers "
                       f"'{_u(a_left)}' instead of '{L} - {{{idx}}}': a target "
                       "child can be matched twice or is lost")
                inl = False
                for it in before:
                    if it[0] == "cond":
                        t = _u(it[1])
                        if (t == f"{idx}notin{L}" and it[2] is False) or \
                                (t == f"{idx}in{L}" and it[2] is True):
                            inl = True
                ctx.ob(f"{tag}/children/no-rematch", inl, loc(call),
                       "a candidate is used only if its target index is still "
                       "unmatched" if inl else
                       f"{mc.name} uses a candidate without testing that its "
                       f"target index is still in {L}")
                ok = _u(call.args[iNX]) in (f"{NX}+1", f"1+{NX}")
                ctx.ob(f"{tag}/children/next-pattern-child", ok, loc(call),
                       "the recursion advances to the next pattern child" if ok
                       else f"the recursion continues at '{_u(call.args[iNX])}'")
                a_rec = call.args[iRC]
                src = None
                for lp in loops:
                    if _u(lp.target) == _u(a_rec):
                        src = lp.iter
                if isinstance(src, ast.Name):
                    src = _assigned(mc, src.id) or src
                ok = src is not None and _u(src) in (
                    f"unify_many({pair},{RC})", f"unify_many({RC},{pair})")
                ctx.ob(f"{tag}/children/records-merged", ok, loc(call),
                       "the record so far is merged with the records of the "
                       "matched pair" if ok else
                       f"the recursion continues with record '{_u(a_rec)}' drawn "
                       f"from '{_u(src) if src is not None else '?'}': the "
                       "bindings of the matched pair (or the record so far) are "
                       "dropped")
            else:
                n_term_calls += 1
                pv_fn = callee
                done = any(it[0] == "cond" and it[2] is True and _u(it[1]) in (
                    f"{NX}>=len({nv})", f"{NX}==len({nv})", f"len({nv})<={NX}",
                    f"len({nv})=={NX}") for it in before)
                ctx.ob(f"{tag}/children/all-pattern-children-first", done,
                       loc(call), "free variables are assigned only after every "
                       "other pattern child has been matched" if done else
                       f"{mc.name} moves on to the free variables without having "
                       f"matched all of {nv}")
                args = [_u(a) for a in call.args]
                ok = args == [RC, L]
                ctx.ob(f"{tag}/children/leftovers-handed-on", ok, loc(call),
                       "record and leftovers are handed on unchanged" if ok else
                       f"{callee.name} is called with {args}")
    ctx.floor("AC search: recursive calls", n_rec_calls, 1)
    ctx.floor("AC search: terminal calls", n_term_calls, 1)
    if pv_fn is None or len(pv_fn.args.args) != 2:
        raise AnalysisError("map_commut_assoc: free-variable stage not found")
    R2, L2 = (a.arg for a in pv_fn.args.args)

    # -- match_plain_var_candidates
    pnested = _nested(pv_fn)
    part_loop = None
    for s in pv_fn.body:
        if isinstance(s, ast.For) and isinstance(s.iter, ast.Call) and \
                _u(s.iter.func) in pnested:
            part_loop = s
    if part_loop is None:
        raise AnalysisError(f"{pv_fn.name}: loop over the partitions not found")
    part_fn = pnested[_u(part_loop.iter.func)]
    args = [_u(a) for a in part_loop.iter.args]
    ok = args == [L2, f"len({pvc})"]
    ctx.ob(f"{tag}/free/partition-of-leftovers", ok, loc(part_loop),
           "the leftovers are partitioned into one part per free variable" if ok
           else f"the partition is taken over {args}, expected "
           f"[{L2}, len({pvc})]")
    RN = None
    for s_ in ast.walk(part_loop):
        if isinstance(s_, ast.Assign) and len(s_.targets) == 1 and isinstance(
                s_.targets[0], ast.Name) and any(
                isinstance(c, ast.Attribute) and c.attr == "unify"
                for c in ast.walk(s_.value)):
            RN = s_.targets[0].id
    if RN is None:
        raise AnalysisError(f"{pv_fn.name}: running record not recognised")
    n_direct = n_part = 0
    for path in paths(pv_fn, "1"):
        for i, y in _yields(path):
            before = path[:i]
            in_part = any(it[0] == "for" and it[1] is part_loop for it in before)
            if not in_part:
                n_direct += 1
                empt = set()
                for it in before:
                    if it[0] == "cond":
                        _empties(it[1], it[2], empt)
                ok = {L2, pvc} <= empt and isinstance(y, ast.Yield) and \
                    _u(y.value) == R2
                ctx.ob(f"{tag}/free/direct-exit-needs-nothing-left", ok, loc(y),
                       "a record leaves the search without assigning free "
                       "variables only if no target child and no free variable is "
                       "left" if ok else
                       f"'{_u(y)}' is reached with only {sorted(empt)} known to be "
                       f"empty: target children left in {L2} (or free variables in "
                       f"{pvc}) are ignored, so the record does not reproduce the "
                       "target")
                continue
            n_part += 1
            # inside the partition loop: the assignment loop
            zl = [it[1] for it in before if it[0] == "for" and it[1] is not
                  part_loop]
            # yields live in the else of the zip loop -> the zip loop is not on
            # the path as 'for' if skipped; find it syntactically
            zips = [s for s in part_loop.body if isinstance(s, ast.For)]
            if len(zips) != 1:
                raise AnalysisError(f"{pv_fn.name}: assignment loop not found")
            z = zips[0]
            in_else = any(y is n for s in z.orelse for n in ast.walk(s))
            ctx.ob(f"{tag}/free/yield-after-all-variables", in_else, loc(y),
                   "a record is produced only after every free variable has been "
                   "assigned (for-else)" if in_else else
                   f"'{_u(y)}' is not in the else clause of the assignment loop")
            merged = isinstance(y, ast.YieldFrom) and _u(y.value) in (
                f"unify_many({urecs_p},{RN})", f"unify_many({RN},{urecs_p})")
            nv_nonempty = False
            for it in before:
                if it[0] == "cond":
                    e2 = set()
                    _empties(it[1], not it[2], e2)
                    if nv in e2:
                        nv_nonempty = True
            ok = merged or (nv_nonempty and isinstance(y, ast.Yield)
                            and _u(y.value) == RN)
            ctx.ob(f"{tag}/free/incoming-records-kept", ok, loc(y),
                   "the incoming records are merged in (directly, or through the "
                   "matched non-variable children)" if ok else
                   f"'{_u(y)}' drops the incoming records although no "
                   "non-variable child has merged them in")
    ctx.floor("AC search: direct exits", n_direct, 1)
    ctx.floor("AC search: partition exits", n_part, 1)
    zips = [s for s in part_loop.body if isinstance(s, ast.For)]
    z = zips[0]
    part_var = _u(part_loop.target)
    ok_z = _u(z.iter) == f"zip({part_var},{pvc})" and isinstance(
        z.target, ast.Tuple) and len(z.target.elts) == 2
    if not ok_z:
        raise AnalysisError(f"{pv_fn.name}: assignment loop is not "
                            f"'for subset, var in zip({part_var}, {pvc})'")
    sub, var = (_u(e) for e in z.target.elts)
    eqs = [c for c in ast.walk(z) if isinstance(c, ast.Call)
           and _u(c.func) == "self.unification_record_from_equation"]
    ok = len(eqs) == 1 and len(eqs[0].args) == 2 and _u(eqs[0].args[0]) == var
    rhs = eqs[0].args[1] if eqs and len(eqs[0].args) == 2 else None
    ok_rhs = False
    if rhs is not None and isinstance(rhs, ast.Call) and _u(rhs.func) == factory_p \
            and len(rhs.args) == 1 and isinstance(rhs.args[0], (
                ast.GeneratorExp, ast.ListComp)):
        g = rhs.args[0]
        if len(g.generators) == 1 and not g.generators[0].ifs and \
                _u(g.generators[0].iter) == sub and \
                _u(g.elt) == f"{other_p}.children[{_u(g.generators[0].target)}]":
            ok_rhs = True
    ctx.ob(f"{tag}/free/variable-gets-its-part", ok and ok_rhs, loc(z),
           "each free variable is bound to the combination of exactly the target "
           "children in its part" if ok and ok_rhs else
           f"the binding is '{_u(eqs[0]) if eqs else '?'}': expected "
           f"({var}, {factory_p}({other_p}.children[i] for i in {sub}))")
    # the binding is merged into the running record and a failed merge stops
    body_src = _u(z)
    rec_name = None
    for s in z.body:
        if isinstance(s, ast.Assign) and eqs and s.value is eqs[0]:
            rec_name = _u(s.targets[0])
    merges = [_u(s_.value) for s_ in z.body if isinstance(s_, ast.Assign)
              and _u(s_.targets[0]) == RN]
    ok = rec_name is not None and merges == [f"{RN}.unify({rec_name})"] \
        and _assigned_before(part_loop, z, RN) == R2
    ctx.ob(f"{tag}/free/bindings-merged", ok, loc(z),
           "every binding is merged into the record so far (conflicts reject)"
           if ok else "the bindings of the free variables are not merged into "
           f"the record that started as {R2}")
    brk = [s for s in z.body if isinstance(s, ast.If) and any(
        isinstance(b, ast.Break) for b in s.body)]
    ok = len(brk) == 1 and _u(brk[0].test) in (f"not{RN}", f"{RN}isNone")
    ctx.ob(f"{tag}/free/conflict-abandons-partition", ok, loc(z),
           "a conflicting binding abandons the partition" if ok else
           "a failed merge no longer leaves the assignment loop")

    # -- the partition helper
    k_params = [a.arg for a in part_fn.args.args]
    if len(k_params) != 2:
        raise AnalysisError(f"{part_fn.name}: arity")
    S, K = k_params
    saw = set()
    for path in paths(part_fn, "1"):
        for i, y in _yields(path):
            before = path[:i]
            base = any(it[0] == "cond" and it[2] is True and _u(it[1]) in (
                f"{K}==1", f"1=={K}") for it in before)
            if base:
                saw.add("base")
                ok = isinstance(y, ast.Yield) and _u(y.value) == f"[{S}]"
                ctx.ob(f"{tag}/partitions/base-is-whole-set", ok, loc(y),
                       "one part: the whole set" if ok else
                       f"the base case yields '{_u(y)}', not [{S}]")
                continue
            saw.add("step")
            loops = [it[1] for it in before if it[0] == "for"]
            rec_loops = [lp for lp in loops if isinstance(lp.iter, ast.Call)
                         and _u(lp.iter.func) == part_fn.name]
            sub_loops = [lp for lp in loops if lp not in rec_loops]
            ok = False
            what = f"the step yields '{_u(y)}'"
            if len(rec_loops) == 1 and len(sub_loops) == 1 and isinstance(
                    y, ast.Yield):
                sv = _u(sub_loops[0].target)
                rv = _u(rec_loops[0].target)
                rargs = [_u(a) for a in rec_loops[0].iter.args]
                ok = rargs == [f"{S}-{sv}", f"{K}-1"] and _u(y.value) in (
                    f"[{sv},*{rv}]", f"[{sv}]+{rv}", f"[*{rv},{sv}]",
                    f"{rv}+[{sv}]")
                what = (f"the step yields '{_u(y)}' with the rest drawn from "
                        f"{part_fn.name}({', '.join(rargs)})")
            ctx.ob(f"{tag}/partitions/step-splits-off-a-subset", ok, loc(y),
                   "a part is split off and the rest is partitioned into k-1 "
                   "parts" if ok else what + f"; expected [{'subset'}, *rest] "
                   f"with rest from {part_fn.name}({S} - subset, {K} - 1)")
    ctx.ob(f"{tag}/partitions/paths", saw == {"base", "step"}, loc(part_fn),
           f"paths {sorted(saw)}")
    # parts are non-empty: the subset generator starts at size 1
    # (the subset generator may be a local function or a module-level helper)
    candidates = dict(pnested)
    for k_, (mm_, f_) in model.functions.items():
        if mm_ is m:
            candidates.setdefault(k_.split(":", 1)[1], f_)
    gens = [f for name, f in candidates.items() if f is not part_fn and any(
        isinstance(c, ast.Call) and _u(c.func) == name for c in ast.walk(part_fn))]
    if len(gens) != 1:
        raise AnalysisError(f"{part_fn.name}: subset generator not recognised")
    rng = [c for c in ast.walk(gens[0]) if isinstance(c, ast.Call)
           and _u(c.func) == "range"]
    if len(rng) != 1 or len(rng[0].args) != 2:
        raise AnalysisError(f"{gens[0].name}: size range not recognised")
    lo = rng[0].args[0]
    ok = isinstance(lo, ast.Constant) and type(lo.value) is int and lo.value >= 1
    ctx.ob(f"{tag}/partitions/parts-non-empty", ok, loc(rng[0]),
           "every part holds at least one target child" if ok else
           f"subset sizes start at {_u(lo)}: a free variable can be bound to an "
           "empty combination")


def _assigned_before(outer_loop, stmt, name):
    """value of the last simple assignment to name in outer_loop.body before stmt"""
    val = None
    for s in outer_loop.body:
        if s is stmt:
            break
        if isinstance(s, ast.Assign) and len(s.targets) == 1 and \
                _u(s.targets[0]) == name:
            val = _u(s.value)
    return val


# ---------------------------------------------------------------------------

def _op_fields(model, c: ClassInfo):
    """positional constructor fields of a matchpy op dataclass"""
    out = []
    for k in reversed(model.mro(c)):
        if not isinstance(k, ClassInfo):
            continue
        for st in k.node.body:
            if isinstance(st, ast.AnnAssign) and isinstance(st.target, ast.Name):
                ann = ast.unparse(st.annotation)
                if ann.startswith("ClassVar"):
                    continue
                if st.target.id == "variable_name":
                    continue
                if st.target.id not in out:
                    out.append(st.target.id)
    return out


def _ops_rebuildable(ctx, model, ops):
    """matchpy rebuilds an operation whose operand was replaced as
    ``type(op)(*new_operands, variable_name=...)`` (matchpy.expressions.
    functions.create_operation_expression; stated as an assumption).  So every
    operation class of the bridge must take its operands *unpacked*: a
    fixed-arity dataclass has one positional field per operand; a variadic one
    whose state is a single tuple field needs an __init__ with *operands --
    with the generated dataclass __init__ the first replaced operand lands in
    the tuple field as it is and the second collides with variable_name.
    The converters must construct it the way its __init__ reads."""
    ctx.assume("matchpy rebuilds operations as type(op)(*operands, "
               "variable_name=...) (create_operation_expression)")
    opbase = [c for c in ops.values()
              if any(getattr(k, "name", k) == "Operation" for k in model.mro(c))]
    n = 0
    star_classes = set()
    for c in sorted(opbase, key=lambda k: k.name):
        ar = c.members.get("arity")
        variadic = ar is not None and "variadic" in ast.unparse(
            ar.node.value if ar.kind == "ann" else ar.node)
        if not variadic:
            continue
        flds = [f for f in _op_fields(model, c)]
        tuple_state = len(flds) == 1 and any(
            isinstance(st, ast.AnnAssign) and isinstance(st.target, ast.Name)
            and st.target.id == flds[0]
            and ast.unparse(st.annotation).startswith("tuple")
            for k in model.mro(c) if isinstance(k, ClassInfo)
            for st in k.node.body)
        if not tuple_state:
            continue
        n += 1
        init = c.members.get("__init__")
        ok = init is not None and init.kind == "func" and \
            init.node.args.vararg is not None
        if ok:
            star_classes.add(c.name)
            # the varargs are what is stored in the tuple field
            va = init.node.args.vararg.arg
            stores = [e for ps in summarize(init.node, node_param=False)
                      for e in ps.events
                      if e.kind == "call" and e.name == "object.__setattr__"
                      and len(e.args) == 3 and e.args[1] == ("const", flds[0])]
            ok = bool(stores) and all(
                e.args[2] in (("varargs",), ("copy", ("varargs",)),
                              ("call", "tuple", (("varargs",),), ()))
                for e in stores)
        ctx.ob(f"S/matchpy/{c.name}/rebuildable-from-unpacked-operands", ok,
               c.loc(),
               f"{c.name}(*operands, variable_name=...) stores the operands"
               if ok else
               f"the variadic operation {c.name} keeps its operands in one tuple "
               f"field ({flds[0]}) and has the generated dataclass __init__: "
               "matchpy's rebuild after a replacement, "
               f"{c.name}(*new_operands, variable_name=...), puts the first "
               "operand itself into that field and passes the second as "
               "variable_name -- replace_all(g(b + f(a)), f(w) -> M) returns "
               "g(M, b), g(f(a), b) raises TypeError")
    ctx.floor("variadic tuple-state operation classes", n, 1)
    # construction sites in the converters agree with the constructor
    to = model.cls(f"{TF}:ToMatchpyExpressionMapper")
    tuple_state = {c.name for c in opbase
                   if c.members.get("arity") is not None and "variadic" in
                   ast.unparse(c.members["arity"].node.value
                               if c.members["arity"].kind == "ann"
                               else c.members["arity"].node)
                   and len(_op_fields(model, c)) == 1}
    bad = []
    n_sites = 0
    for mem in to.members.values():
        if mem.kind != "func":
            continue
        for call in ast.walk(mem.node):
            if not (isinstance(call, ast.Call)
                    and isinstance(call.func, ast.Attribute)
                    and call.func.attr in tuple_state):
                continue
            n_sites += 1
            takes_star = call.func.attr in star_classes
            passes_star = any(isinstance(a, ast.Starred) for a in call.args)
            one_collection = len(call.args) == 1 and not passes_star
            if takes_star and one_collection:
                bad.append((mem, call, "passes one collection to a "
                            "constructor that takes *operands: the whole "
                            "collection becomes a single operand"))
            if not takes_star and passes_star:
                bad.append((mem, call, "unpacks the operands into a "
                            "constructor that takes one tuple"))
    ctx.floor("converter sites constructing a tuple-state operation", n_sites, 2)
    ctx.ob("S/matchpy/tuple-op/construction-agrees-with-init", not bad,
           to.loc(), "the converters pass operands the way the constructor "
           "reads them" if not bad else
           f"{bad[0][0].owner.name}.{bad[0][0].node.name}: {bad[0][2]}")


def _matchpy(ctx, model):
    to = model.cls(f"{TF}:ToMatchpyExpressionMapper")
    frm = model.cls(f"{TF}:FromMatchpyExpressionMapper")
    nt = model.nodes
    # op classes
    ops = {c.name: c for c in model.classes.values()
           if c.module.name == MP}
    n_ops = 0
    for name, c in sorted(ops.items()):
        mmv = None
        own = c.members.get("_mapper_method")
        if own is not None and own.kind in ("ann", "value"):
            node = own.node.value if own.kind == "ann" else own.node
            if isinstance(node, ast.Constant):
                mmv = node.value
        if mmv is None:
            continue
        n_ops += 1
        if name in ("TupleOp",):
            continue
        h = model.lookup(frm, mmv)
        # (a def, an alias, or a function made by a factory in the class body)
        ok = h is not None and (h.kind == "func" or isinstance(
            h.node.value if h.kind == "ann" else h.node,
            (ast.Call, ast.Name, ast.Lambda, ast.Attribute)))
        ctx.ob(f"T/matchpy/{name}/from-handler", ok, c.loc(),
               f"{name}._mapper_method = {mmv} is implemented by the "
               "from-mapper" if ok else
               f"op class {name} names the handler {mmv}, which "
               "FromMatchpyExpressionMapper does not define")
    ctx.floor("matchpy op classes with a handler name", n_ops, 20)
    _ops_rebuildable(ctx, model, ops)

    # inverse tables
    pairs = 0
    for slot in sorted(model.own_slots(to)):
        tmem = to.members[slot]
        if tmem.kind != "func" or slot in ("map_constant", "map_dot_wildcard",
                                           "map_star_wildcard"):
            continue
        nodes = nt.by_mapper_method(slot)
        nodes = [x for x in nodes if x.cls.module.name == "pymbolic.primitives"]
        if len(nodes) != 1:
            continue
        n = nodes[0]
        tps = [ps for ps in handler_summaries(model, n, tmem.node)
               if ps.term == "return"]
        if not tps:
            raise AnalysisError(f"ToMatchpy.{slot}: no returning path")
        for pi, tp in enumerate(tps):
            rv = tp.retval
            if not (rv[0] == "call" and rv[1].startswith("m.")):
                raise AnalysisError(f"ToMatchpy.{slot}: result is not an op")
            opname = rv[1][2:]
            op = ops.get(opname)
            if op is None:
                raise AnalysisError(f"op class {opname} not found")
            opfields = _op_fields(model, op)
            # which node field goes into which op field
            fwd = {}
            for i, a in enumerate(rv[2]):
                mf = sorted(mentioned_fields(a) | _prop_fields(a))
                src = mf[0] if len(mf) == 1 else None
                if a[0] == "star":
                    dst = opfields[0] if opfields else None
                else:
                    dst = opfields[i] if i < len(opfields) else None
                fwd[src] = dst
            # the from-handler for that op
            mm = None
            own = None
            for k in model.mro(op):
                if isinstance(k, ClassInfo) and "_mapper_method" in k.members:
                    own = k.members["_mapper_method"]
                    break
            node = own.node.value if own.kind == "ann" else own.node
            mm = node.value
            fmem = model.lookup(frm, mm)
            if fmem is None or fmem.kind != "func":
                pairs += 1      # reported by the from-handler rule above
                continue
            fps = [ps for ps in summarize(fmem.node) if ps.term == "return"]
            frv = fps[0].retval
            ok_cls = frv[0] == "call" and frv[1] == f"p.{n.name}"
            back = {}
            if ok_cls and len(frv[2]) == 1 and frv[2][0][0] == "star" and \
                    _node_attrs(frv[2][0]) == {"operands"} and \
                    len(opfields) == len(n.field_names):
                # Node(*<every operand, mapped, in order>): the i-th operand
                # of a fixed-arity op is its i-th field
                for f_op, f_node in zip(opfields, n.field_names):
                    back[f_op] = f_node
            elif ok_cls:
                for i, a in enumerate(frv[2]):
                    attrs = sorted(_node_attrs(a))
                    src = attrs[0] if attrs else None
                    if src == "operands":
                        src = "children"
                    dst = n.field_names[i] if i < len(n.field_names) else None
                    back[src] = dst
            pairs += 1
            problems = []
            if not ok_cls:
                problems.append(f"from-handler {mm} builds {frv[1]} instead of "
                                f"p.{n.name}")
            for f in n.field_names:
                f_src = f
                if f == "index" and "index_tuple" in fwd:
                    f_src = "index_tuple"
                g = fwd.get(f_src)
                if g is None:
                    problems.append(f"{n.name}.{f} is not converted")
                elif back.get(g) != f:
                    problems.append(f"{n.name}.{f} goes into {opname}.{g}, which comes "
                                    f"back as {n.name}.{back.get(g)}")
            ctx.ob(f"T/matchpy/roundtrip/{n.name}" + (f"/path{pi}" if pi else ""),
                   not problems, where(tmem),
                   f"{n.name} <-> {opname}: fields {fwd}" if not problems else
                   "; ".join(problems), {"to": fwd, "from": back})
    ctx.floor("matchpy to/from pairs", pairs, 20)
    # the converters are reused across many short-lived expressions (one per
    # firing of a replacement rule): if one of them memoizes, its key must hold
    # the expression itself (C05's key rule), never its identity
    from .c05 import _cache_key
    cm = model.cls("pymbolic.mapper:CachedMapper")
    memo = [c for c in (to, frm) if model.is_subclass(c, cm)]
    if memo:
        _cache_key(ctx, model, scope=memo)
    ctx.ob("S/matchpy/converters-memoize-soundly", True, to.loc(),
           "converters that memoize: " + (", ".join(c.name for c in memo)
                                          or "none"))
    _replacement(ctx, model)


def _binding_forms(frm, V):
    return {
        "expression": frm(V),
        "multiset": ("call", "multiset.Multiset",
                     (("dict", frm(("key", V)), ("val", V), ("items", V)),), ()),
        "tuple": ("seq", "tuple", frm(("elem", V)), V, ()),
    }


def _kind_of_test(v, V):
    if isinstance(v, tuple) and v[0] == "call" and v[1] == "isinstance" and \
            v[2][0] == V:
        t = str(v[2][1])
        return "expression" if "MatchpyExpression" in t else \
            "multiset" if "Multiset" in t else \
            "tuple" if "tuple" in t else t
    return None


def _judge_binding(ctx, what, where_, kind, conv, forms, frm, V):
    ok = conv == forms[kind]
    if kind == "multiset" and not ok:
        # iterating a multiset repeats each element by its count, so an
        # order-insensitive, duplicate-keeping rebuild is the same thing
        ok = conv[0] == "call" and conv[1] == "multiset.Multiset" and \
            len(conv[2]) == 1 and conv[2][0][0] == "seq" and \
            conv[2][0][1] in ("gen", "list", "tuple") and \
            conv[2][0][2:] == (frm(("elem", V)), V, ())
    ctx.ob(f"T/matchpy/replacement/{kind}/binding-converted", ok, where_,
           f"a {kind} binding is converted back element by element, "
           "structure kept" if ok else
           f"a {kind} binding reaches the callback as {_short_v(conv)}; "
           f"expected {_short_v(forms[kind])} (for a multiset: every element "
           "converted, its count kept)")


def _judge_converter_function(ctx, model, m_, cfn, kinds):
    """a module-level helper  conv(from_matchpy_expr, binding)"""
    params = [a.arg for a in cfn.args.args]
    if len(params) != 2:
        raise AnalysisError(f"{cfn.name}: expected (converter, binding)")
    F, V = ("param", params[0]), ("param", params[1])

    def frm(x):
        return ("call", params[0], (x,), (), F)

    def strip(v):
        return v

    forms = _binding_forms(lambda x: ("call", params[0], (x,), ()), V)
    refusal = False
    for ps in summarize(cfn, plain=True, loop_mode="1"):
        kind = None
        for _, pol, v in ps.conds:
            k_ = _kind_of_test(v, V) if pol else None
            if k_:
                kind = k_
        if ps.term == "raise":
            refusal = refusal or kind is None
            continue
        if ps.term != "return":
            raise AnalysisError(f"{cfn.name}: a path falls off the end")
        if kind is None or kind not in forms:
            raise AnalysisError(f"{cfn.name}: binding kind {kind} has no "
                                "reference conversion")
        kinds.add(kind)

        def drop_callee(v):
            if isinstance(v, tuple):
                if v and v[0] == "call" and len(v) > 4 and v[1] == params[0]:
                    v = v[:4]
                return tuple(drop_callee(x) for x in v)
            return v
        _judge_binding(ctx, cfn.name, m_.loc(cfn), kind, drop_callee(ps.retval),
                       forms, lambda x: ("call", params[0], (x,), ()), V)
    if not refusal:
        raise AnalysisError(f"{cfn.name}: the case distinction does not end in "
                            "a refusal")


def _replacement(ctx, model):
    """ToFromReplacement.__call__ hands the user's callback the bindings matchpy
    found, converted back structure-preservingly: expression -> expression,
    multiset -> multiset with the same counts, tuple -> tuple in order.
    match() and match_anywhere() report the same bindings and must convert them
    the same way (a star wildcard binds a tuple or a multiset there, too)."""
    c = model.cls(f"{TF}:ToFromReplacement")
    mem = c.members.get("__call__")
    if mem is None or mem.kind != "func" or mem.node.args.kwarg is None:
        raise AnalysisError("ToFromReplacement.__call__(**kwargs) not found")
    fn = mem.node
    KW = ("kwargs",)
    V = ("val", KW)
    tfm = model.repo.module(TF)

    def frm(x):
        return ("call", "self.from_matchpy_expr", (x,), ())

    forms = _binding_forms(frm, V)
    kinds = set()
    converter = None        # name of a shared module-level converter, if any

    for ps in summarize(fn, node_param=False, loop_mode="1"):
        kind = None
        for _, pol, v in ps.conds:
            k_ = _kind_of_test(v, V) if pol else None
            if k_:
                kind = k_
        if ps.term == "raise":
            continue
        rv = ps.retval
        conv = None
        if isinstance(rv, tuple) and rv[0] == "call" and \
                rv[1] == "self.to_matchpy_expr" and len(rv[2]) == 1:
            inner = rv[2][0]
            if inner[0] == "call" and inner[1] == "self.f" and not inner[2] and \
                    len(inner[3]) == 1 and inner[3][0][0] is None:
                d = inner[3][0][1]
                if d[0] == "dict" and d[1] == ("key", KW) and \
                        d[3] == ("items", KW):
                    conv = d[2]
        if conv is None:
            ctx.ob(f"T/matchpy/replacement/{kind}/callback-gets-all-bindings",
                   False, where(mem), "the result is not "
                   "to_matchpy_expr(f(**{name: converted binding}))")
            continue
        # a shared helper  conv(self.from_matchpy_expr, binding)
        if conv[0] == "call" and conv[2] == (("self", "from_matchpy_expr"), V) \
                and f"{TF}:{conv[1]}" in model.functions:
            converter = conv[1]
            _judge_converter_function(
                ctx, model, tfm, model.functions[f"{TF}:{conv[1]}"][1], kinds)
            continue
        if conv[0] == "ifexp":
            # the case distinction is a conditional expression (helper inlined
            # into a comprehension): judge every arm under its own test
            arm = conv
            while isinstance(arm, tuple) and arm[0] == "ifexp":
                k_ = _kind_of_test(getattr(arm[1], "val", None), V)
                if k_ is None or k_ not in forms:
                    raise AnalysisError("ToFromReplacement.__call__: binding kind "
                                        f"{k_} has no reference conversion")
                kinds.add(k_)
                _judge_binding(ctx, "call", where(mem), k_, arm[2], forms, frm, V)
                arm = arm[3]
            if not (isinstance(arm, tuple) and arm[0] == "call"
                    and arm[1] == "__raises__"):
                raise AnalysisError("ToFromReplacement.__call__: the case "
                                    "distinction does not end in a refusal")
            continue
        if kind is None or kind not in forms:
            raise AnalysisError("ToFromReplacement.__call__: binding kind "
                                f"{kind} has no reference conversion")
        kinds.add(kind)
        _judge_binding(ctx, "call", where(mem), kind, conv, forms, frm, V)
    ctx.ob("T/matchpy/replacement/kinds", kinds == set(forms), where(mem),
           f"binding kinds converted: {sorted(kinds)}")
    _match_converts_like_replacement(ctx, model, converter)


def _match_converts_like_replacement(ctx, model, converter):
    """sibling agreement: match() and match_anywhere() hand out the same kinds
    of binding the replacement callback gets.  With a shared converter they
    must send every binding through it; sending a binding straight to
    from_matchpy_expr cannot convert the tuple / multiset a star wildcard is
    bound to."""
    for fname in ("match", "match_anywhere"):
        key = f"{MP}:{fname}"
        if key not in model.functions:
            raise AnalysisError(f"{fname}() not found in the matchpy bridge")
        m_, fn = model.functions[key]
        comps = [c_ for c_ in ast.walk(fn) if isinstance(c_, ast.DictComp)
                 and isinstance(c_.generators[0].iter, ast.Call)
                 and isinstance(c_.generators[0].iter.func, ast.Attribute)
                 and c_.generators[0].iter.func.attr == "items"]
        if len(comps) != 1:
            raise AnalysisError(f"{fname}(): expected one mapping built from "
                                "the substitution's items")
        dc = comps[0]
        tgt = dc.generators[0].target
        if not (isinstance(tgt, ast.Tuple) and len(tgt.elts) == 2
                and isinstance(tgt.elts[1], ast.Name)):
            raise AnalysisError(f"{fname}(): substitution loop target")
        vname = tgt.elts[1].id
        val = dc.value
        direct = isinstance(val, ast.Call) and isinstance(val.func, ast.Name) \
            and val.func.id == "from_matchpy_expr" and len(val.args) == 1 \
            and isinstance(val.args[0], ast.Name) and val.args[0].id == vname
        via = converter is not None and isinstance(val, ast.Call) and \
            isinstance(val.func, ast.Name) and val.func.id == converter and \
            len(val.args) == 2 and isinstance(val.args[1], ast.Name) and \
            val.args[1].id == vname and isinstance(val.args[0], ast.Name) and \
            val.args[0].id == "from_matchpy_expr"
        if not direct and not via:
            raise AnalysisError(f"{fname}(): conversion of a binding not "
                                f"understood: {ast.unparse(val)}")
        ctx.ob(f"S/matchpy/{fname}/bindings-converted-like-replacement", via,
               m_.loc(dc),
               "every binding goes through the converter the replacement "
               "callback's bindings go through" if via else
               f"{fname}() sends every binding straight to from_matchpy_expr, "
               "while the replacement callback's bindings are converted by kind "
               "(expression / tuple / multiset): a star wildcard binds a tuple "
               f"or a multiset, so {fname}(a + b + c, w + s*) raises TypeError "
               "(unhashable Multiset) instead of reporting its matches")


def _prop_fields(a):
    out = set()

    def walk(x, depth=0):
        if not isinstance(x, tuple) or depth > 30:
            return
        if x and x[0] == "attr" and x[1] == NODE:
            out.add(x[2])
        for y in x:
            if isinstance(y, tuple):
                walk(y, depth + 1)
    walk(a)
    return out


def _node_attrs(a):
    out = set()

    def walk(x, depth=0):
        if not isinstance(x, tuple) or depth > 30:
            return
        if x and x[0] == "attr" and x[1] == NODE:
            out.add(x[2])
        for y in x:
            if isinstance(y, tuple):
                walk(y, depth + 1)
    walk(a)
    return out
