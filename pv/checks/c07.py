"""C07 -- the parser reads the syntax it shares with Python the way Python does."""
from __future__ import annotations

import ast
import itertools

from .. import AnalysisError
from ..grammar import (ModelParseError, ModelParser, extract_parser_table, flatten,
                       show)
from ..oracles import (DENOT, SYMBOL_TO_NODE, NotShared, ast_ops,
                       py_prec_crosscheck, py_tree, slice_meaning)
from ..summary import NODE, facts_of, summarize

PARSER = "pymbolic.parser"
IAST = "pymbolic.interop.ast"

BIN = ["+", "-", "*", "/", "//", "%", "**", "<<", ">>", "&", "|", "^", "and",
       "or", "==", "!=", "<", "<=", ">", ">="]
PRE = ["-", "+", "~", "not "]
POST = ["(x)", "[x]", ".y", "(x, k=y)"]


def skeletons2():
    out = []
    for a, b in itertools.product(BIN, repeat=2):
        out.append((f"a {a} b {b} c", ("bin", a, "bin", b)))
    for u in PRE:
        for a in BIN:
            out.append((f"{u}a {a} b", ("pre", u.strip(), "bin", a)))
            out.append((f"a {a} {u}b", ("bin", a, "pre", u.strip())))
        for q in POST:
            out.append((f"{u}a{q}", ("pre", u.strip(), "post", q)))
        for u2 in PRE:
            out.append((f"{u}{u2}a", ("pre", u.strip(), "pre", u2.strip())))
    for a in BIN:
        for q in POST:
            out.append((f"a {a} b{q}", ("bin", a, "post", q)))
        # the three operand positions of the conditional expression
        out.append((f"a {a} b if c else d", ("bin", a, "if", "then")))
        out.append((f"a if b {a} c else d", ("bin", a, "if", "cond")))
        out.append((f"a if b else c {a} d", ("bin", a, "if", "else")))
    for u in PRE:
        out.append((f"{u}a if b else c", ("pre", u.strip(), "if", "then")))
        out.append((f"a if {u}b else c", ("pre", u.strip(), "if", "cond")))
        out.append((f"a if b else {u}c", ("pre", u.strip(), "if", "else")))
    out.append(("a if b else c if d else e", ("if", "else", "if", "")))
    out.append(("a if b if c else d else e", ("if", "cond", "if", "")))
    return out


def skeletons3():
    out = []
    ops = BIN[:17]
    for a, b, c in itertools.product(ops, repeat=3):
        out.append((f"a {a} b {b} c {c} d", ("bin", a, "bin", b, "bin", c)))
    for u in PRE:
        for a, b in itertools.product(ops, repeat=2):
            out.append((f"{u}a {a} b {b} c", ("pre", u.strip(), a, b)))
            out.append((f"a {a} {u}b {b} c", (a, "pre", u.strip(), b)))
            out.append((f"a {a} b {b} {u}c", (a, b, "pre", u.strip())))
    for a, b in itertools.product(ops, repeat=2):
        for q in POST[:3]:
            out.append((f"a {a} b{q} {b} c", (a, "post", q, b)))
    return out


def run(ctx):
    model = ctx.model
    ctx.decide("parser precedence/associativity/operand-order table against "
               "Python's grammar on all 2-operator (quick) / 3-operator "
               "(thorough) skeletons; lexer token priority; whole-input rule; "
               "argument lists; Python-AST importer operator maps")
    ctx.decline("evaluation equality itself (tree agreement + C02)")
    ctx.assume("a comparison chain a < b < c means (a < b) and (b < c) (language "
               "reference 6.10); evaluating the shared operand twice gives the "
               "same value because operands have no side effects")
    ctx.assume("reference grouping = ast.parse of the running interpreter "
               "(the interpreter pymbolic runs under), cross-checked against a "
               "frozen copy of the language-reference precedence table")

    # the parser builds its trees with the overloaded operators (unary minus
    # is -operand, sums and products are spliced by + and *): their rule
    # instances are premises of "the tree means what Python means"
    from .c03 import operator_rules
    operator_rules(ctx, model)
    py_prec_crosscheck()
    ptab = extract_parser_table(model)
    parser = ModelParser(ptab)
    ctx.floor("parser postfix branches", len(ptab.postfix), 21)
    loc = "pymbolic/parser.py"

    def compare(s, desc):
        try:
            ref = py_tree(s)
        except NotShared:
            return None
        key = f"T/pygrammar/{s}"
        try:
            got = parser.parse(s)
        except ModelParseError as e:
            ctx.ob(key, False, loc,
                   f"'{s}': Python parses it as {show(ref)} but the parser "
                   f"rejects it ({e})", {"skeleton": s})
            return False
        ok = slice_meaning(flatten(got)) == slice_meaning(flatten(ref))
        ctx.ob(key, ok, loc,
               f"'{s}' groups as in Python" if ok else
               f"'{s}': parser builds {show(got)}, Python groups it as "
               f"{show(ref)}", {"skeleton": s, "kind": list(desc)},
               nontrivial=True)
        return ok

    n = 0
    for s, desc in skeletons2():
        if compare(s, desc) is not None:
            n += 1
    ctx.floor("2-operator skeletons in the shared syntax", n, 500)
    extra = ["f(a, b)", "f(a, k=b, j=c)", "f()", "a[b, c]", "a[b:c]", "a[b:c:d]",
             "a[:]", "a[::b]", "a[b:, c]", "(a, b)", "(a,)", "((a))", "a.b.c",
             "a.b(c)[d]", "f(a)(b)", "-f(a)", "a[b][c]", "1 + 2*a", "1.5*a",
             "2**-1", "a**-b", "a**-b**c", "-a**-b", "(a + b)*c", "a*(b + c)",
             "not (a and b)", "(a or b) and c", "a if b else (c, d)",
             "f(a if b else c, d)", "a[b if c else d]", "1e3 + a", "1.e2*a",
             ".5*a", "10 // 3 % 2", "True and a", "False or a",
             "((a, b),)", "((a,),)", "((),)", "((a, b), c)", "(c, (a, b))",
             "f(((a, b),))", "(a, b,)", "((a, b,),)",
             # literal operands of prefix operators bind like any other operand
             "-2**2", "-2**a", "a - -2**2", "-1.5**a", "b**-2**2", "~2**a",
             "-2*a", "-2[a]", "+3**a", "not 1 == a",
             # a trailing comma closes a list before ')' and before ']'
             "o[a,]", "o[a, b,]", "o[a,][b]", "f(a,)", "f(a, b,)", "(a,)",
             "o[(a,)]", "o[a, (b,)]",
             # names that start with a keyword or a named constant
             "Trueish + 1", "Falsey * a", "a.Truex", "f(Truex=1)", "android",
             "iffy if elsewhere else order", "nothing and not_"]
    for s in extra:
        compare(s, ("extra",))
    ctx.extra["skeletons_quick"] = n + len(extra)

    if ctx.tier == "thorough":
        # 3-operator skeletons: a failure is reported on its own only if it is
        # not explained by a failing 2-operator sub-skeleton
        two_fail = {o.key for o in ctx.obs if not o.ok}
        n3 = bad3 = new3 = 0
        for s, desc in skeletons3():
            try:
                ref = py_tree(s)
            except NotShared:
                continue
            n3 += 1
            try:
                got = parser.parse(s)
                ok = flatten(got) == flatten(ref)
            except ModelParseError:
                ok, got = False, None
            if not ok:
                bad3 += 1
                if not _explained(s, parser, two_fail):
                    new3 += 1
                    ctx.ob(f"T/pygrammar3/{s}", False, loc,
                           f"'{s}': parser builds {show(got)}, Python groups it "
                           f"as {show(ref)} (not explained by any 2-operator "
                           "finding)", {"skeleton": s})
        ctx.ob("T/pygrammar3/enumeration", True, loc,
               f"{n3} three-operator skeletons; {bad3} disagree, all but {new3} "
               "explained by 2-operator findings", {"cases": n3, "bad": bad3})
        ctx.extra["skeletons_thorough"] = n3

    _check_lexer(ctx, ptab, parser)
    _check_whole_input(ctx, model)
    owner_, fn_ = model.require_method(f"{PARSER}:Parser", "parse_arglist")
    try:
        wit, n_ = _judge_arglist(model, model.inlined(fn_), owner_.module.tree,
                                 *((10, 6) if ctx.tier == "thorough" else (8, 4)))
    except AnalysisError as e:
        wit = None
        ctx.extra["judge_unavailable:parse_arglist"] = str(e)
    if wit is not None:
        ctx.ob("P0/parse_arglist/token-language", not wit,
               owner_.module.loc(fn_),
               f"parse_arglist interpreted on {n_} token strings: accepts "
               "exactly Python's argument lists (one optional trailing comma, "
               "no positional after keyword), returns (positional, keyword) in "
               "order and stops after ')'" if not wit else
               "parse_arglist: " + "; ".join(wit[:3]),
               {"token_strings": n_, "witnesses": wit[:8]})
    mark = len(ctx.obs)
    try:
        _check_arglist(ctx, model)
        _arglist_trailing_comma(ctx, model)
    except AnalysisError:
        if wit is None or wit:
            raise
    if wit is not None and not wit:
        ctx.withdraw_failures_since(
            mark, "decided by interpreting parse_arglist on token strings")
    check_importer(ctx, model, "C07", parser)


def _explained(s, parser, two_fail):
    """does some adjacent operator pair of s, taken alone, already fail?"""
    toks = s.split()
    # operands are single letters a..d possibly with prefix/postfix glued on
    idx = [i for i, t in enumerate(toks) if t in BIN]
    for i, j in zip(idx, idx[1:]):
        sub = " ".join(toks[max(0, i - 1):j + 2])
        # rename operands to a, b, c
        names = iter("abc")
        parts = []
        for t in sub.split():
            if t in BIN:
                parts.append(t)
            else:
                core = next(names)
                pre = ""
                tt = t
                for u in ("not", "-", "+", "~"):
                    if tt.startswith(u) and len(tt) > len(u):
                        pre = u + (" " if u == "not" else "")
                        tt = tt[len(u):]
                post = tt[1:]
                parts.append(pre + core + post)
        cand = " ".join(parts)
        if f"T/pygrammar/{cand}" in two_fail:
            return True
    # prefix forms "not a ..." are split as separate tokens
    if s.startswith("not ") or " not " in s:
        return any("not" in k for k in two_fail)
    return False


# ---------------------------------------------------------------------------

def _check_lexer(ctx, ptab, parser):
    loc = "pymbolic/parser.py"
    lexer = parser.lexer
    ops = ast_ops()
    symbols = {}
    for k, sym in ops["binop"].items():
        if sym in SYMBOL_TO_NODE or sym == "-":
            symbols[sym] = SYMBOL_TO_NODE.get(sym, "Sum")
    for sym in ("==", "!=", "<", "<=", ">", ">="):
        symbols[sym] = "Comparison"
    symbols["and"] = "LogicalAnd"
    symbols["or"] = "LogicalOr"
    for sym, want in sorted(symbols.items()):
        try:
            toks = lexer.lex(sym)
        except ModelParseError as e:
            toks = [("error", str(e))]
        cls = None
        if len(toks) == 1:
            for br in ptab.postfix:
                if toks[0][0] in br.tags:
                    cls = br.cls
        ok = len(toks) == 1 and cls == want
        ctx.ob(f"T/lexer/symbol:{sym}", ok, loc,
               f"'{sym}' is one token ({toks[0][0]}) -> {cls}" if ok else
               f"'{sym}' lexes to {[t for t, _ in toks]} (branch builds {cls}); "
               f"Python reads it as one {want} operator -- a shorter token "
               "precedes a longer one in lex_table or the tag is routed to the "
               "wrong branch", {"tokens": [t for t, _ in toks]})
    # comparison operator strings agree with the symbols
    for tag, opstr in ptab.comp_table.items():
        toks = lexer.lex(opstr)
        ok = len(toks) == 1 and toks[0][0] == tag
        ctx.ob(f"T/lexer/comp-table:{opstr}", ok, loc,
               f"_COMP_TABLE[{tag}] = '{opstr}'" if ok else
               f"_COMP_TABLE maps tag {tag} to '{opstr}', but '{opstr}' lexes to "
               f"{[t for t, _ in toks]}")
    # literals and keywords
    cases = {"10": ["int"], "1.5": ["float"], "1e3": ["float"], "1.5e-3": ["float"],
             ".5": ["float"], "1.": ["float"], "1.5j": ["imaginary"],
             "android": ["identifier"], "order": ["identifier"],
             "nothing": ["identifier"], "iffy": ["identifier"],
             "elsewhere": ["identifier"], "and": ["and"], "or": ["or"],
             "not": ["not"], "if": ["if"], "else": ["else"],
             "a_1": ["identifier"], "True": ["True"], "False": ["False"],
             "a.b": ["identifier", "dot", "identifier"],
             "a**b": ["identifier", "exp", "identifier"],
             "a//b": ["identifier", "floordiv", "identifier"],
             "a<<b": ["identifier", "leftshift", "identifier"],
             "a>=b": ["identifier", "greaterequal", "identifier"],
             "f(k=1)": ["identifier", "openpar", "identifier", "assign", "int",
                        "closepar"]}
    for s, want in cases.items():
        try:
            got = [t for t, _ in lexer.lex(s)]
        except ModelParseError as e:
            got = ["error:" + str(e)]
        ctx.ob(f"T/lexer/literal:{s}", got == want, loc,
               f"'{s}' -> {got}" if got == want else
               f"'{s}' lexes to {got}, expected {want} (rule order in lex_table)")
    # every word token (keyword or named constant) ends at a word boundary: a
    # name that merely starts with the word is one identifier
    import re as _re
    n_words = 0
    for tag, rule in ptab.lex:
        if rule[0] != "re":
            continue
        m_ = _re.fullmatch(r"([A-Za-z_]+)(\\b)?", rule[1])
        if not m_:
            continue
        word = m_.group(1)
        n_words += 1
        for name in (word + "ish", word + "_1", word + "x"):
            try:
                got = [t for t, _ in lexer.lex(name)]
            except ModelParseError as e:
                got = ["error:" + str(e)]
            ctx.ob(f"T/lexer/word-boundary:{word}", got == ["identifier"], loc,
                   f"'{name}' is one identifier" if got == ["identifier"] else
                   f"'{name}' lexes to {got}: the rule for '{word}' does not end "
                   "at a word boundary, so names that start with it cannot be "
                   f"read (parse('{name}') fails with left-over input)")
    ctx.floor("word tokens in the lexer table", n_words, 7)


def _check_whole_input(ctx, model):
    _check_parser_stateless(ctx, model)
    owner, fn = model.require_method(f"{PARSER}:Parser", "__call__")
    loc = owner.module.loc(fn)
    pss = summarize(fn, node_param=False)
    ok = True
    saw_return = False
    for ps in pss:
        raising = ps.term == "raise" or any(
            e.name in ("pstate.raise_parse_error", "pstate.expected")
            for e in ps.events)
        if raising:
            continue
        # the property speaks of strings: what happens to an argument that is
        # not a string is not its business
        src_param = ("param", fn.args.args[1].arg)
        if any(isinstance(v, tuple) and v[0] == "call" and v[1] == "isinstance"
               and v[2][0] == src_param and v[2][1] == ("global", "str")
               and not pol for v, pol in (
                   f for _, pol0, v0 in ps.conds if isinstance(v0, tuple)
                   for f in facts_of(v0, pol0))):
            continue
        if ps.term != "return":
            ok = False
            continue
        saw_return = True
        at_end = False
        for _, pol, v in ps.conds:
            if isinstance(v, tuple):
                vv, pp = v, pol
                while vv[0] == "unop" and vv[1] == "Not":
                    vv, pp = vv[2], not pp
                if vv[0] == "call" and vv[1] == "pstate.is_at_end" and pp:
                    at_end = True
        if not at_end:
            ok = False
        # the result is the parse of the whole token list
        if not (ps.retval[0] == "call" and ps.retval[1] == "self.parse_expression"):
            ok = False
    ctx.ob("P/Parser.__call__/whole-input", ok and saw_return, loc,
           "returns only when the token stream is exhausted, else raises" if ok
           and saw_return else
           "Parser.__call__ can return a result although input is left over "
           "(the return is not dominated by the is_at_end() test)")
    # whitespace is the only tag filtered out
    # (every filter on the token stream compares the tag with _whitespace)
    filters = []
    for n in ast.walk(fn):
        if isinstance(n, (ast.ListComp, ast.GeneratorExp)):
            for g in n.generators:
                filters.extend(g.ifs)
    ok = bool(filters)
    for t in filters:
        good = isinstance(t, ast.Compare) and len(t.ops) == 1 and isinstance(
            t.ops[0], (ast.IsNot, ast.NotEq)) and isinstance(
            t.comparators[0], ast.Name) and t.comparators[0].id == "_whitespace"
        ok = ok and good
    if not filters:
        # an explicit loop that skips tokens: not a shape the rule reads
        raise AnalysisError("Parser.__call__: token filter not found")
    ctx.ob("P/Parser.__call__/only-whitespace-dropped", ok, loc,
           "only whitespace tokens are dropped" if ok else
           "the token filter in Parser.__call__ drops more than whitespace")


def _check_parser_stateless(ctx, model):
    """The module-level `parse` is one Parser instance serving every call, and
    the statement quantifies over every string after every history of earlier
    strings (accepted or rejected).  A parsing method that writes an attribute
    of the parser therefore must restore it on *every* way out, the exceptional
    ones included (a parse error leaves through a raise): the write has to sit
    in, or directly in front of, a try statement whose finally clause writes
    the attribute back."""
    pc = model.cls(f"{PARSER}:Parser")
    n_methods = 0
    for c in [pc] + model.subclasses(pc):
        for name, mem in c.members.items():
            if mem.kind != "func" or name == "__init__":
                continue
            n_methods += 1
            fn = mem.node
            writes = []
            for n in ast.walk(fn):
                tgts = []
                if isinstance(n, ast.Assign):
                    tgts = n.targets
                elif isinstance(n, (ast.AugAssign, ast.AnnAssign)):
                    tgts = [n.target]
                for t in tgts:
                    for x in ast.walk(t):
                        if isinstance(x, ast.Attribute) and isinstance(
                                x.value, ast.Name) and x.value.id == "self" \
                                and isinstance(x.ctx, ast.Store):
                            writes.append((n, x.attr))
            if not writes:
                continue
            tries = [t for t in ast.walk(fn) if isinstance(t, ast.Try)
                     and t.finalbody]

            def restored(stmt, attr):
                for t in tries:
                    fin = {x.attr for fs in t.finalbody for x in ast.walk(fs)
                           if isinstance(x, ast.Attribute) and isinstance(
                               x.value, ast.Name) and x.value.id == "self"
                           and isinstance(x.ctx, ast.Store)}
                    if attr not in fin:
                        continue
                    if any(stmt is x for fs in t.finalbody for x in ast.walk(fs)):
                        return True
                    if any(stmt is x for bs in t.body for x in ast.walk(bs)):
                        return True
                    # the statement right in front of the try
                    par = c.module.parent(t)
                    for fld in ("body", "orelse", "finalbody"):
                        blk = getattr(par, fld, None)
                        if isinstance(blk, list) and t in blk:
                            i = blk.index(t)
                            if i > 0 and blk[i - 1] is stmt:
                                return True
                return False
            bad = sorted({a for st, a in writes if not restored(st, a)})
            ctx.ob(f"O/parser/{c.name}.{name}/no-state-kept-between-parses",
                   not bad, c.module.loc(fn),
                   f"{c.name}.{name} writes self.{', self.'.join(bad)} and does "
                   "not restore it in a finally clause: a parse that ends in an "
                   "error (or any other exception) leaves the value behind in "
                   "the shared parser object, and later strings are read "
                   "differently from the same string in a fresh process" if bad
                   else f"{c.name}.{name} restores what it writes on every exit")
    ctx.floor("parser methods scanned for state", n_methods, 6)


def _judge_arglist(model, fn, tree, max_len, full_len=4):
    """interpretive judge (pv/absint.py): parse_arglist interpreted on every
    token string up to max_len over {identifier, '=', other operand, ',', ')'}
    against Python's argument list
        ')'  |  arg (',' arg)* [','] ')'      arg: identifier '=' expr | expr
    (no positional argument after a keyword argument), with parse_expression
    standing for 'one operand, parsed below comma level'.  -> (witnesses, n)"""
    import itertools
    from ..absint import Interp, Opaque, Raised, StepBound, module_env

    class PErr(Exception):
        pass

    class Crash(Exception):
        pass
    tags = {}
    for st in tree.body:
        if isinstance(st, ast.Assign) and len(st.targets) == 1 and \
                isinstance(st.targets[0], ast.Name) and \
                isinstance(st.value, ast.Call) and \
                ast.unparse(st.value.func) in ("intern", "sys.intern") and \
                st.value.args and isinstance(st.value.args[0], ast.Constant):
            tags[st.targets[0].id] = "tag:" + st.value.args[0].value
    need = {"_comma", "_closepar", "_identifier", "_assign"}
    if not need <= set(tags):
        raise AnalysisError("parse_arglist: token tags not found")
    ID, EQ, OP, CM, CL = (tags["_identifier"], tags["_assign"], "tag:operand",
                          tags["_comma"], tags["_closepar"])

    class PState:
        def __init__(self, toks, index=0):
            self.toks, self.index = toks, index

        def copy(self):
            return PState(self.toks, self.index)

        def assign(self, o):
            self.index = o.index

        def next_tag(self, i=0):
            if self.index + i >= len(self.toks):
                raise Crash("IndexError: next_tag() past the end of the input")
            return self.toks[self.index + i]

        def next_str(self, i=0):
            self.next_tag(i)
            return f"s{self.index + i}"

        def next_str_and_advance(self):
            r = self.next_str()
            self.index += 1
            return r

        def advance(self):
            self.index += 1

        def is_at_end(self, i=0):
            return self.index + i >= len(self.toks)

        def is_next(self, tag, i=0):
            return self.index + i < len(self.toks) and \
                self.toks[self.index + i] is tag

        def raise_parse_error(self, msg):
            raise PErr(msg)

        def expected(self, what):
            raise PErr(what)

        def expect_not_end(self):
            if self.is_at_end():
                raise PErr("end")

        def expect(self, tag):
            if not self.is_next(tag):
                raise PErr("expected")

    class Mp:
        pass
    glob = module_env(tree, dict(tags))
    prec_comma = glob.get("_PREC_COMMA")

    def reference(toks):
        """-> (args, kwargs, consumed) or None"""
        i, args, kw = 0, [], {}
        if toks[:1] == [CL]:
            return (), {}, 1
        while True:
            if i >= len(toks):
                return "more"
            if i < len(toks) - 1 and toks[i] is ID and toks[i + 1] is EQ:
                if i + 2 >= len(toks):
                    return "more"
                if toks[i + 2] in (ID, OP):
                    kw[f"s{i}"] = ("e", i + 2)
                    i += 3
                else:
                    return None
            elif toks[i] in (ID, OP):
                if kw:
                    return None
                args.append(("e", i))
                i += 1
            else:
                return None
            if i >= len(toks):
                return "more"
            if toks[i] is CM:
                i += 1
            elif toks[i] is CL:
                return tuple(args), kw, i + 1
            else:
                return None
            if i < len(toks) and toks[i] is CL:
                return tuple(args), kw, i + 1
    wit = []
    n = 0
    for L in range(0, max_len + 1):
        for toks in itertools.product((ID, EQ, OP, CM, CL), repeat=L):
            toks = list(toks)
            if CL in toks[:-1]:
                continue        # (what follows the first ')' is not ours)
            if L > full_len and reference(toks[:L - 2]) != "more":
                continue        # (long strings: errors in the last two tokens)
            n += 1
            ps = PState(toks)
            mp = Mp()
            precs = []

            def parse_expression(p_, prec=0, _precs=precs):
                _precs.append(prec)
                if p_.is_at_end() or p_.toks[p_.index] not in (ID, OP):
                    raise PErr("operand expected")
                p_.index += 1
                return ("e", p_.index - 1)

            def attrs(it, node, base, attr, _mp=mp, _pe=parse_expression):
                if base is _mp and attr == "parse_expression":
                    return _pe
                if isinstance(base, PState):
                    return getattr(base, attr)
                return Opaque(ast.unparse(node))
            it = Interp(attrs=attrs, max_steps=4000, globals_=glob)
            show = " ".join(t[4:] for t in toks) or "(nothing)"
            want = reference(toks)
            if want == "more":
                want = None         # (the input ends inside the list)
            try:
                got = it.call_function(fn, [mp, ps], dict(glob))
            except PErr:
                got = None
            except Crash as e:
                wit.append(f"tokens '{show}': {e}")
                continue
            except Raised as r:
                wit.append(f"tokens '{show}': raises at line "
                           f"{getattr(r.node, 'lineno', '?')}")
                continue
            except StepBound:
                wit.append(f"tokens '{show}': does not terminate")
                continue
            if got is not None:
                if not (isinstance(got, tuple) and len(got) == 2
                        and isinstance(got[0], tuple)
                        and isinstance(got[1], dict)):
                    wit.append(f"tokens '{show}': returns {got!r}, not "
                               "(tuple of positional, dict of keyword)")
                    continue
                got = (got[0], got[1], ps.index)
                if any(p_ != prec_comma for p_ in precs):
                    wit.append(f"tokens '{show}': an argument is not parsed "
                               "at comma level")
                    continue
            if got != want:
                if want is None:
                    wit.append(f"tokens '{show}' accepted as {got[:2]} "
                               "(Python refuses this argument list)")
                elif got is None:
                    wit.append(f"tokens '{show}' refused (Python reads "
                               f"{len(want[0])} positional, {len(want[1])} "
                               "keyword arguments)")
                else:
                    wit.append(f"tokens '{show}': read as {got}, Python reads "
                               f"{want}")
    return wit, n


def _check_arglist(ctx, model):
    """path rule over one round of the argument loop: an argument is a keyword
    argument exactly when an identifier is followed by '='; its name is read
    before the two tokens are consumed; a positional argument after a keyword
    argument is refused; both kinds are parsed below comma level"""
    from ..summary import facts_of
    owner, fn = model.require_method(f"{PARSER}:Parser", "parse_arglist")
    loc = owner.module.loc(fn)
    P = ("param", fn.args.args[1].arg)
    pname = fn.args.args[1].arg
    VAL = ("call", "self.parse_expression", (P, ("global", "_PREC_COMMA")), ())

    def tag_fact(v, ahead, tagname):
        if not (isinstance(v, tuple) and v[0] == "compare"
                and v[1] in (("Is",), ("Eq",)) and v[3] == (("global", tagname),)):
            return False
        c = v[2]
        want_args = () if ahead == 0 else (("const", ahead),)
        return c[0] == "call" and c[1] == f"{pname}.next_tag" and \
            c[2] == want_args

    n_kw = n_pos = 0
    kw_ok = pos_ok = reject_ok = True
    list_name = dict_name = None
    for ps in summarize(fn, node_param=False, loop_mode="1"):
        facts = [f for _, pol, c in ps.conds if isinstance(c, tuple)
                 for f in facts_of(c, pol)]
        is_ident = any(p_ and tag_fact(v, 0, "_identifier") for v, p_ in facts)
        is_assign = any(p_ and tag_fact(v, 1, "_assign") for v, p_ in facts)
        evs = ps.events
        for i, e in enumerate(evs):
            if e.kind == "itemwrite" and e.value == VAL:
                n_kw += 1
                dict_name = e.name
                key = e.args[0]
                named = key[0] == "call" and key[1] == f"{pname}.next_str"
                # the name is read first, then exactly two tokens are consumed,
                # then the value is parsed
                idx_str = [j for j, x in enumerate(evs) if x.kind == "call"
                           and x.name == f"{pname}.next_str"]
                idx_val = [j for j, x in enumerate(evs) if x.kind == "selfcall"
                           and x.name == "parse_expression"]
                adv = 0
                if idx_str and idx_val:
                    adv = sum(1 for x in evs[idx_str[-1]:idx_val[-1]]
                              if x.kind == "call" and x.name == f"{pname}.advance")
                if not (is_ident and is_assign and named and adv == 2):
                    kw_ok = False
            if e.kind == "call" and e.name.endswith(".append") and \
                    e.args == (VAL,):
                n_pos += 1
                list_name = e.name[:-len(".append")]
                if is_ident and is_assign:
                    pos_ok = False
                # a positional argument is taken only when no keyword argument
                # has been seen (the dict is known to be empty on the path) or
                # after the refusal has been issued
                known_empty = any(not p_ and isinstance(v, tuple) and v[0] in (
                    "litdict", "dict", "dictextend") for v, p_ in facts)
                refused = any(x.kind == "call" and x.name ==
                              f"{pname}.raise_parse_error" and "keyword" in
                              str(x.args) for x in evs[:i])
                if not (known_empty or refused):
                    reject_ok = False
    ctx.ob("P/parse_arglist/keyword-detection", kw_ok and n_kw >= 1, loc,
           "name '=' value is a keyword argument" if kw_ok and n_kw else
           "keyword-argument detection (identifier followed by '=', name read "
           "before both tokens are consumed) changed")
    ctx.ob("P/parse_arglist/positional", pos_ok and n_pos >= 1, loc,
           "positional arguments are parsed below comma level, in order"
           if pos_ok and n_pos else "positional argument parsing changed")
    ctx.ob("P/parse_arglist/positional-after-keyword", reject_ok and n_pos >= 1,
           loc, "positional argument after a keyword argument is rejected"
           if reject_ok else
           "parse_arglist accepts a positional argument after a keyword "
           "argument (Python rejects it)")
    rets = [n for n in ast.walk(fn) if isinstance(n, ast.Return)]
    want = {f"(tuple({list_name}),{dict_name})"}
    ok = bool(rets) and all(ast.unparse(r.value).replace(" ", "") in want
                            for r in rets)
    ctx.ob("P/parse_arglist/result", ok, loc,
           "returns (tuple(args), kwargs)" if ok else
           "parse_arglist does not return (tuple(<positional>), <keyword>)")


def _judge_boolop(fn):
    """interpretive judge: map_BoolOp on 1..4 values; the result, with nested
    nodes of the same operator flattened (and/or are associative, including
    which operand is evaluated and returned), is the table's node over all
    mapped values in order.  -> witnesses"""
    from ..absint import Interp, Opaque, Raised
    wit = []
    for n in range(1, 5):
        vals = [("v", i) for i in range(n)]

        class Mp:
            pass
        mp = Mp()

        class Node:
            def __init__(self, children):
                self.children = tuple(children)

        def flat(x):
            if isinstance(x, Node):
                out = []
                for c in x.children:
                    out.extend(flat(c) if isinstance(c, Node) else [c])
                return out
            return [x]

        def attrs(it, node, base, attr):
            if base is mp and attr == "rec":
                return lambda v, *a, **k: ("m", v[1])
            if base is mp and attr == "bool_op_map":
                return {"OPTYPE": lambda children: Node(children)}
            if base == "NODE" and attr == "values":
                return list(vals)
            if base == "NODE" and attr == "op":
                return "OP"
            return Opaque(ast.unparse(node))
        it = Interp(calls={"type": lambda it_, n_, a, k: "OPTYPE"},
                    attrs=attrs, max_steps=5000)
        try:
            got = it.call_function(fn, [mp, "NODE"], {})
        except Raised as r:
            wit.append(f"{n} values: raises at line {r.node.lineno}")
            continue
        if not isinstance(got, Node) or flat(got) != [("m", i) for i in range(n)]:
            wit.append(f"{n} values: {got!r}")
    return wit


def _arglist_trailing_comma(ctx, model):
    """Python allows one comma after the last argument of a call.  Token-level
    path rule over a general round of the argument loop: some error-free way
    through it consumes a comma and then, with nothing parsed in between, ends
    the list at ')' -- within one round, or as the tail of one round (comma
    consumed last) followed by a round that sees ')' first."""
    from ..rules import loop_body_fn
    owner, fn = model.require_method(f"{PARSER}:Parser", "parse_arglist")
    loc = owner.module.loc(fn)
    pname = fn.args.args[1].arg
    loops = [st for st in fn.body if isinstance(st, (ast.While, ast.For))]
    if len(loops) != 1:
        raise AnalysisError("parse_arglist: argument loop not found")
    body = loop_body_fn(fn, loops[0])

    from ..summary import facts_of

    def tag_fact(v):
        """abstract `pstate.next_tag() is/== TAG` -> TAG"""
        if isinstance(v, tuple) and v and v[0] == "compare" and v[1] in (
                ("Is",), ("Eq",)) and isinstance(v[2], tuple) and \
                v[2][:3] == ("call", f"{pname}.next_tag", ()) and \
                v[3][0][0] == "global":
            return v[3][0][1]
        return None

    traces = []
    for ps in summarize(body, node_param=False, plain=True, loop_mode="1"):
        look = None
        trace = []
        error = False
        for it in ps.items:
            if it[0] == "cond":
                vals = [v for tn, pol, v in ps.conds if tn is it[1]]
                for v in vals:
                    if not isinstance(v, tuple):
                        continue
                    for f, fpol in facts_of(v, it[2]):
                        tg = tag_fact(f)
                        if tg and fpol:
                            look = tg
            elif it[0] == "stmt":
                for c in ast.walk(it[1]):
                    if not isinstance(c, ast.Call):
                        continue
                    f = ast.unparse(c.func)
                    if f == f"{pname}.raise_parse_error":
                        error = True
                    elif f == f"{pname}.expect" and c.args and isinstance(
                            c.args[0], ast.Name):
                        look = c.args[0].id
                    elif f == f"{pname}.advance":
                        trace.append(look or "?")
                        look = None
                    elif f.endswith("parse_expression"):
                        trace.append("EXPR")
                        look = None
        if ps.term == "raise" or error:
            continue
        traces.append((trace, ps.term))
    if not traces or not any(t == "return" for _, t in traces):
        raise AnalysisError("parse_arglist: no accepting way through a round")
    n_rounds = len(traces)
    single = any(term == "return" and len(tr) >= 2 and tr[-2:] ==
                 ["_comma", "_closepar"] for tr, term in traces)
    tail = any(term == "end" and tr and tr[-1] == "_comma" for tr, term in traces)
    head = any(term == "return" and tr == ["_closepar"] for tr, term in traces)
    ok = single or (tail and head)
    ctx.ob("P/parse_arglist/trailing-comma", ok, loc,
           "f(a,) is accepted: a comma may be followed by ')'" if ok else
           "no error-free way through the argument loop consumes a comma and "
           "then ends the list at ')': f(a,) and f(a, k=b,), which Python "
           "accepts, raise a ParseError", {"rounds": n_rounds})
    ctx.floor("argument-loop rounds analysed", n_rounds, 3)


# ---------------------------------------------------------------------------
# Python-AST importer
# ---------------------------------------------------------------------------

def _helper_semantics(model, m, name):
    """abstract result of a module-level helper like _add(x, y)"""
    key = f"{IAST}:{name}"
    if key not in model.functions:
        return None
    _, fn = model.functions[key]
    pss = [ps for ps in summarize(fn, plain=True) if ps.term == "return"]
    if len(pss) != 1:
        return None
    return [a.arg for a in fn.args.args], pss[0].retval


def _ctor_name(v):
    if v[0] == "call":
        return v[1].split(".")[-1]
    return None


def _judge_map_compare(pss, rec_attr):
    """True, or what is wrong.  Python: a op1 b op2 c == (a op1 b) and (b op2 c)."""
    TABLE = ("self", "comparison_op_map")
    OPS = ("attr", NODE, "ops")
    COMPS = ("attr", NODE, "comparators")
    if not pss:
        return "never returns"
    for ps in pss:
        rv = ps.retval
        # the single-operator form: fails (or mis-reads) every chain
        if _ctor_name(rv) == "Comparison":
            return ("builds one Comparison from the first operator and "
                    "comparator only: 'a < b < c' (two operators, two "
                    "comparators) is refused or truncated")
        if not (rv[0] == "ifexp" and len(rv) == 4):
            raise AnalysisError(f"map_Compare: result not understood: {rv}")
        cond = getattr(rv[1], "val", None)
        single, many = rv[2], rv[3]
        if not (isinstance(cond, tuple) and cond[0] == "compare"
                and cond[1] == ("Eq",) and cond[2][0] == "len"
                and cond[3] == (("const", 1),)
                and single == ("index", cond[2][1], 0)):
            raise AnalysisError("map_Compare: expected '<links>[0] if "
                                f"len(<links>) == 1 else ...', got {rv[1]}")
        links = cond[2][1]
        if _ctor_name(many) != "LogicalAnd":
            return (f"joins the links of a chain with {_ctor_name(many)}, "
                    "Python's meaning is their conjunction")
        arg = many[2][0] if len(many[2]) == 1 else None
        if not (isinstance(arg, tuple) and arg[0] == "seq"
                and arg[2:] == links[2:]) and arg != ("copy", links):
            return "does not join all links in order"
        if not (links[0] == "seq" and not links[4]):
            raise AnalysisError(f"map_Compare: links not understood: {links}")
        el, src = links[2], links[3]
        operands = [("rec", ("attr", NODE, "left"), True, ()),
                    ("seq", "list", ("rec", ("elem", COMPS), True, ()), COMPS, ())]
        O = ("binop", "Add", ("lit", "list", (operands[0],)), operands[1])
        TAIL = ("slice", O, ("const", 1), None)
        if src != ("zip", (O, OPS, TAIL)):
            return ("does not pair (operand i, operator i, operand i+1) over "
                    "[left] + comparators")
        want = ("call", el[1], (("elem", O),
                                ("index", TABLE, None, ("typeof", ("elem", OPS))),
                                ("elem", TAIL)), ())
        if _ctor_name(el) != "Comparison" or el != want:
            return ("a link is not Comparison(operand i, table[type(operator "
                    "i)], operand i+1)")
    return True


def _interp_map_compare(model, cls, fn):
    """interpretive judge (pv/absint.py): map_Compare on chains of 1..4
    operators.  Python:  a op1 b op2 c  ==  (a op1 b) and (b op2 c), each a
    Comparison(left, table[type(op)], right) over the mapped operands in order.
    -> witnesses"""
    from ..absint import Interp, Obj, Opaque, Raised, StepBound, module_env
    tbl = cls.members.get("comparison_op_map")
    val = getattr(tbl.node, "value", None) if tbl is not None else None
    if not isinstance(val, ast.Dict):
        raise AnalysisError("comparison_op_map is not a dict literal")
    table = {}
    for k, v in zip(val.keys, val.values):
        if not (isinstance(k, ast.Attribute) and isinstance(v, ast.Constant)):
            raise AnalysisError("comparison_op_map entry")
        table["T:" + k.attr] = v.value
    opnames = [k[2:] for k in table]
    if len(opnames) < 3:
        raise AnalysisError("comparison_op_map: too few operators")

    class Node:
        def __init__(self, kind, *a):
            self.kind, self.a = kind, a

        def __eq__(self, o):
            return isinstance(o, Node) and (self.kind, self.a) == (o.kind, o.a)

        def __hash__(self):
            return hash((self.kind, self.a))

        def __repr__(self):
            return f"{self.kind}{self.a!r}"

    def resolve(c, nm):
        if c == "ASTToPymbolic":
            mem = model.lookup(cls, nm)
            if mem is not None and mem.kind == "func":
                return ("func", mem.node)
        return None
    glob = module_env(cls.module.tree, {"p": Opaque("p"), "ast": Opaque("ast")})
    wit = []
    for n in range(1, 5):
        ops = [Obj("op", {"name": opnames[i % len(opnames)]}) for i in range(n)]
        left = Obj("operand", {"i": 0})
        comps = [Obj("operand", {"i": i + 1}) for i in range(n)]
        node = Obj("Compare", {"left": left, "ops": list(ops),
                               "comparators": list(comps)})
        me = Obj("ASTToPymbolic", {"comparison_op_map": dict(table)})
        order = []

        def rec(it, nd, a, k, _o=order):
            if not (isinstance(a[0], Obj) and a[0].cls == "operand"):
                raise AnalysisError("map_Compare: rec of something that is "
                                    "not an operand")
            _o.append(a[0].fields["i"])
            return ("m", a[0].fields["i"])

        def type_(it, nd, a, k):
            if isinstance(a[0], Obj) and a[0].cls == "op":
                return "T:" + a[0].fields["name"]
            if isinstance(a[0], Obj):
                return Opaque("class " + str(a[0].cls))
            raise AnalysisError("type() of a value")

        def attrs(it, nd, base, attr):
            if isinstance(base, Opaque) and base.what in ("p", "primitives") \
                    and attr in ("Comparison", "LogicalAnd", "LogicalOr"):
                return lambda *a, _k=attr: Node(_k, *[
                    tuple(x) if isinstance(x, list) else x for x in a])
            return Opaque(ast.unparse(nd))
        it = Interp(calls={"self.rec": rec, "type": type_}, attrs=attrs,
                    resolve=resolve, max_steps=20000, globals_=glob)
        chain = " ".join(f"v{i} {table['T:' + ops[i].fields['name']]}"
                         for i in range(n)) + f" v{n}"
        try:
            got = it.call_function(fn, [me, node], dict(glob))
        except (Raised, StepBound) as e:
            wit.append(f"'{chain}': {type(e).__name__} at line "
                       f"{getattr(getattr(e, 'node', None), 'lineno', '?')}")
            continue
        links = tuple(Node("Comparison", ("m", i),
                           table["T:" + ops[i].fields["name"]], ("m", i + 1))
                      for i in range(n))
        want = links[0] if n == 1 else Node("LogicalAnd", links)
        if got != want:
            wit.append(f"'{chain}' is imported as {got!r}, Python means "
                       f"{want!r}")
        elif sorted(set(order)) != list(range(n + 1)):
            wit.append(f"'{chain}': not every operand is mapped")
    # an operator the table does not have is refused, not mis-read
    node = Obj("Compare", {"left": Obj("operand", {"i": 0}),
                           "ops": [Obj("op", {"name": "NoSuchOp"})],
                           "comparators": [Obj("operand", {"i": 1})]})
    me = Obj("ASTToPymbolic", {"comparison_op_map": dict(table)})
    it = Interp(calls={"self.rec": lambda it_, nd, a, k: ("m", a[0].fields["i"]),
                       "type": lambda it_, nd, a, k: "T:" + a[0].fields["name"]
                       if isinstance(a[0], Obj) and a[0].cls == "op"
                       else Opaque("class")},
                attrs=lambda it_, nd, base, attr: Opaque(ast.unparse(nd)),
                resolve=resolve, max_steps=20000, globals_=glob)
    try:
        got = it.call_function(fn, [me, node], dict(glob))
        wit.append(f"an operator missing from the table is imported as {got!r}")
    except (Raised, StepBound):
        pass
    return wit


def check_importer(ctx, model, prop, parser=None):
    m = model.repo.module(IAST)
    cls = model.cls(f"{IAST}:ASTToPymbolic")
    nt = model.nodes
    ops = ast_ops()

    def table(name):
        mem = cls.members.get(name)
        if mem is None:
            raise AnalysisError(f"ASTToPymbolic.{name} not found")
        val = mem.node.value if isinstance(mem.node, ast.AnnAssign) else mem.node
        if not isinstance(val, ast.Dict):
            raise AnalysisError(f"ASTToPymbolic.{name} is not a dict literal")
        out = {}
        for k, v in zip(val.keys, val.values):
            if not (isinstance(k, ast.Attribute) and ast.unparse(k.value) == "ast"):
                raise AnalysisError(f"{name}: key {ast.unparse(k)}")
            out[k.attr] = v
        return out, cls.module.loc(val)

    # ---- binary operators -------------------------------------------------
    bt, loc = table("bin_op_map")
    # how is the table used?  op_constructor(self.rec(left), self.rec(right))
    owner, fn = model.require_method(f"{IAST}:ASTToPymbolic", "map_BinOp")
    order_ok = False
    n_ret = 0
    for ps in summarize(fn):
        if ps.term == "return":
            rv = ps.retval
            n_ret += 1
            if isinstance(rv, tuple) and rv[0] == "call" and rv[2] == (
                    ("rec", ("attr", NODE, "left"), True, ()),
                    ("rec", ("attr", NODE, "right"), True, ())):
                order_ok = True
                n_ret -= 1
    order_ok = order_ok and n_ret == 0
    ctx.ob("T/importer/map_BinOp/operand-order", order_ok, owner.module.loc(fn),
           "constructor(rec(left), rec(right))" if order_ok else
           "map_BinOp does not call the table entry with (rec(left), "
           "rec(right))")
    for k, v in sorted(bt.items()):
        sym = ops["binop"].get(k)
        key = f"T/importer/bin_op_map/{k}"
        want = "Sum" if sym in ("+", "-") else SYMBOL_TO_NODE.get(sym)
        if want is None:
            ctx.ob(key, False, loc, f"ast.{k} ('{sym}') has no pymbolic node")
            continue
        ok, why = _binary_entry_ok(model, nt, v, sym, want)
        ctx.ob(key, ok, loc,
               f"ast.{k} ('{sym}') -> {want}" if ok else
               f"bin_op_map[ast.{k}] ('{sym}'): {why}", {"entry": ast.unparse(v)})
    ctx.floor("bin_op_map entries", len(bt), 10)

    # ---- unary ------------------------------------------------------------------
    ut, loc = table("unary_op_map")
    for k, v in sorted(ut.items()):
        sym = ops["unop"].get(k)
        key = f"T/importer/unary_op_map/{k}"
        ok, why = _unary_entry_ok(model, nt, v, sym)
        ctx.ob(key, ok, loc, f"ast.{k} ('{sym}') ok" if ok else
               f"unary_op_map[ast.{k}] ('{sym}'): {why}",
               {"entry": ast.unparse(v)})
    ctx.floor("unary_op_map entries", len(ut), 3)
    # every unary operator goes through the table: a path of map_UnaryOp that
    # answers some other way ("not a < b" rewritten to "a >= b", "--x" to "x")
    # gives that form a meaning of its own (not (a < b < c) is not
    # a >= b >= c; not (nan < 1) is not nan >= 1)
    owner, fn = model.require_method(f"{IAST}:ASTToPymbolic", "map_UnaryOp")
    good = bad = 0
    for ps in summarize(fn):
        if ps.term != "return":
            continue
        rv = ps.retval
        if isinstance(rv, tuple) and rv[0] == "call" and rv[2] == (
                ("rec", ("attr", NODE, "operand"), True, ()),):
            good += 1
        else:
            bad += 1
    ctx.ob("T/importer/map_UnaryOp/applies-table", good > 0 and bad == 0,
           owner.module.loc(fn),
           "constructor(rec(operand)) on every path" if good and not bad else
           "map_UnaryOp has a path that does not answer with the table entry "
           "applied to rec(operand): that form of unary expression is read "
           "differently from the operator it is written with (e.g. 'not a < b "
           "< c' rewritten link by link is a >= b and b >= c, which is not "
           "the negation of the chain)")

    # ---- comparisons ---------------------------------------------------------------
    ct, loc = table("comparison_op_map")
    for k, v in sorted(ct.items()):
        sym = ops["cmpops"].get(k)
        ok = isinstance(v, ast.Constant) and v.value == sym
        ctx.ob(f"T/importer/comparison_op_map/{k}", ok, loc,
               f"ast.{k} -> '{sym}'" if ok else
               f"comparison_op_map[ast.{k}] is {ast.unparse(v)}, Python's "
               f"operator is '{sym}'")
    ctx.floor("comparison_op_map entries", len(ct), 6)

    # ---- coverage: every operator the text parser shares with Python ---------------
    if parser is not None:
        def accepted(skel):
            try:
                parser.parse(skel)
                return True
            except ModelParseError:
                return False
        bo_t, bo_loc = ({}, loc)
        if "bool_op_map" in cls.members:
            bo_t, bo_loc = table("bool_op_map")
        n_shared = 0
        for kind, tab, have, form in (
                ("binop", ops["binop"], bt, "a {} b"),
                ("unop", ops["unop"], ut, "{} a"),
                ("cmpops", ops["cmpops"], ct, "a {} b"),
                ("boolops", ops["boolops"], bo_t, "a {} b")):
            for k, sym in sorted(tab.items()):
                if not accepted(form.format(sym)):
                    continue        # not in the shared syntax
                n_shared += 1
                ok = k in have
                ctx.ob(f"T/importer/coverage/{k}", ok, cls.loc(),
                       f"'{sym}' (ast.{k}) is mapped" if ok else
                       f"the parser reads '{form.format(sym)}' but the importer "
                       f"has no entry for ast.{k}: it raises NotImplementedError "
                       "on Python's parse of the same string")
        ctx.floor("operators shared by parser and Python", n_shared, 20)
        # BoolOp(op, values) -> n-ary logical node over all mapped values
        for k, v in sorted(bo_t.items()):
            sym = ops["boolops"].get(k)
            want = SYMBOL_TO_NODE.get(sym)
            ok = isinstance(v, (ast.Attribute, ast.Name)) and \
                ast.unparse(v).split(".")[-1] == want
            ctx.ob(f"T/importer/bool_op_map/{k}", ok, bo_loc,
                   f"ast.{k} ('{sym}') -> {want}" if ok else
                   f"bool_op_map[ast.{k}] ('{sym}') is {ast.unparse(v)}, "
                   f"expected {want}")
        if bo_t:
            owner, fn = model.require_method(f"{IAST}:ASTToPymbolic", "map_BoolOp")
            ok = False
            for ps in summarize(fn):
                if ps.term != "return":
                    continue
                rv = ps.retval
                arg = rv[2][0] if rv[0] == "call" and len(rv[2]) == 1 else None
                ok = (rv[0] == "call" and len(rv) >= 5
                      and rv[4] == ("index", ("self", "bool_op_map"), None,
                                    ("typeof", ("attr", NODE, "op")))
                      and isinstance(arg, tuple) and arg[0] == "seq"
                      and arg[1] in ("tuple", "list")
                      and arg[2] == ("rec", ("elem", ("attr", NODE, "values")),
                                     True, ())
                      and arg[3] == ("attr", NODE, "values") and not arg[4])
            if not ok:
                try:
                    ok = not _judge_boolop(fn)
                except AnalysisError:
                    ok = False
            ctx.ob("T/importer/map_BoolOp", ok, owner.module.loc(fn),
                   "table[type(op)](tuple of all mapped values, in order)" if ok
                   else "map_BoolOp does not build the table's node over every "
                   "mapped value in order")

    # ---- structural handlers ---------------------------------------------------------
    def ret_of(name):
        owner, fn = model.require_method(f"{IAST}:ASTToPymbolic", name)
        return owner, fn, [ps for ps in summarize(fn) if ps.term == "return"]

    def rec_attr(a):
        return ("rec", ("attr", NODE, a), True, ())

    owner, fn, pss = ret_of("map_IfExp")
    ok = len(pss) == 1 and _ctor_name(pss[0].retval) == "If" and \
        pss[0].retval[2] == (rec_attr("test"), rec_attr("body"), rec_attr("orelse"))
    ctx.ob("T/importer/map_IfExp", ok, owner.module.loc(fn),
           "IfExp(test, body, orelse) -> If(condition, then, else_)" if ok else
           "map_IfExp does not build If(rec(test), rec(body), rec(orelse))")
    owner, fn, pss = ret_of("map_Compare")
    try:
        wit = _interp_map_compare(model, cls, fn)
    except AnalysisError as e:
        wit = None
        ctx.extra["judge_unavailable:map_Compare"] = str(e)
    if wit is not None:
        ctx.ob("P0/importer/map_Compare/chains", not wit, owner.module.loc(fn),
               "chains of 1..4 comparison operators are imported as the "
               "conjunction of their links, operands in order; an unknown "
               "operator is refused" if not wit else
               "map_Compare: " + "; ".join(wit[:3]))
    try:
        verdict = _judge_map_compare(pss, rec_attr)
    except AnalysisError:
        if wit is None or wit:
            raise
        verdict = True
    if wit is not None and not wit and verdict is not True:
        verdict = True      # (shape not recognised; the interpretation decides)
    ctx.ob("T/importer/map_Compare", verdict is True, owner.module.loc(fn),
           "each link Comparison(left, table[op], right) over the operands in "
           "order; a chain becomes the conjunction of its links"
           if verdict is True else f"map_Compare {verdict}")
    owner, fn, pss = ret_of("map_Attribute")
    ok = len(pss) == 1 and _ctor_name(pss[0].retval) == "Lookup" and \
        pss[0].retval[2] == (rec_attr("value"), ("attr", NODE, "attr"))
    ctx.ob("T/importer/map_Attribute", ok, owner.module.loc(fn),
           "Lookup(rec(value), attr)" if ok else
           "map_Attribute does not build Lookup(rec(value), attr)")
    owner, fn, pss = ret_of("map_Name")
    ok = len(pss) == 1 and _ctor_name(pss[0].retval) == "Variable" and \
        pss[0].retval[2] == (("attr", NODE, "id"),)
    ctx.ob("T/importer/map_Name", ok, owner.module.loc(fn),
           "Variable(id)" if ok else "map_Name does not build Variable(expr.id)")
    owner, fn, pss = ret_of("map_Call")
    kinds = set()
    ok = bool(pss)
    for ps in pss:
        rv = ps.retval
        nm = _ctor_name(rv)
        kinds.add(nm)
        args = rv[2]
        ok = ok and args[0] == rec_attr("func") and args[1][0] == "seq" \
            and args[1][2][0] == "rec" and args[1][3] == ("attr", NODE, "args") \
            and not args[1][4]
        if nm == "CallWithKwargs":
            kw = args[2] if len(args) > 2 else None
            ok = ok and kw is not None and kw[0] == "dict" and \
                kw[1] == ("attr", ("elem", ("attr", NODE, "keywords")), "arg") and \
                kw[2][0] == "rec" and kw[2][1] == (
                    "attr", ("elem", ("attr", NODE, "keywords")), "value")
    ok = ok and kinds == {"Call", "CallWithKwargs"}
    ctx.ob("T/importer/map_Call", ok, owner.module.loc(fn),
           "Call(func, args) / CallWithKwargs(func, args, {kw: value})" if ok else
           "map_Call does not build Call/CallWithKwargs from (func, args, "
           "keywords) in order")
    owner, fn, pss = ret_of("map_Tuple")
    ok = len(pss) == 1 and pss[0].retval[0] == "seq" and pss[0].retval[1] == "tuple" \
        and pss[0].retval[2][0] == "rec" and pss[0].retval[3] == ("attr", NODE,
                                                                    "elts")
    ctx.ob("T/importer/map_Tuple", ok, owner.module.loc(fn),
           "tuple of mapped elements" if ok else
           "map_Tuple does not map every element in order")
    owner, fn, pss = ret_of("map_Subscript")
    ok = bool(pss)
    for ps in pss:
        rv = ps.retval
        ok = ok and _ctor_name(rv) == "Subscript" and rv[2][0] == rec_attr("value")
    ctx.ob("T/importer/map_Subscript", ok, owner.module.loc(fn),
           "Subscript(rec(value), index)" if ok else
           "map_Subscript does not build Subscript(rec(value), <index>)")


def _node_of_value(model, m, v):
    """table value -> ("class", name) | ("helper", name) | ("built", (cls, shape))
    shape "tuple": cls((x, y)); "pair": cls(x, y)"""
    if isinstance(v, ast.Attribute) and ast.unparse(v.value) == "p":
        return ("class", v.attr)
    if isinstance(v, ast.Name):
        return ("helper", v.id)
    # lambda x, y: p.Cls((x, y))
    if isinstance(v, ast.Lambda) and len(v.args.args) == 2:
        b = _pair_builder(v.body, [a.arg for a in v.args.args], None)
        if b is not None:
            return ("built", b)
    # factory(p.Cls) where  def factory(c): def f(x, y): return c((x, y)); return f
    if isinstance(v, ast.Call) and isinstance(v.func, ast.Name) and \
            len(v.args) == 1 and not v.keywords and isinstance(
            v.args[0], ast.Attribute) and ast.unparse(v.args[0].value) == "p":
        key = f"{IAST}:{v.func.id}"
        if key in model.functions:
            _, fac = model.functions[key]
            inner = [st for st in fac.body if isinstance(st, ast.FunctionDef)]
            rets = [st for st in fac.body if isinstance(st, ast.Return)]
            if len(fac.args.args) == 1 and len(inner) == 1 and len(rets) == 1 \
                    and isinstance(rets[0].value, ast.Name) and \
                    rets[0].value.id == inner[0].name and \
                    len(inner[0].args.args) == 2:
                r = [st for st in inner[0].body if isinstance(st, ast.Return)]
                if len(r) == 1 and len(inner[0].body) == 1:
                    b = _pair_builder(r[0].value,
                                      [a.arg for a in inner[0].args.args],
                                      fac.args.args[0].arg)
                    if b is not None:
                        return ("built", (v.args[0].attr, b[1]))
    raise AnalysisError(f"importer operator table: entry {ast.unparse(v)} is of "
                        "a form the checker cannot read")


def _pair_builder(body, params, cls_param):
    """body is  C((x, y))  or  C(x, y)  with C = p.<Cls> (or the name cls_param)
    -> (class name or None, shape)"""
    if not (isinstance(body, ast.Call) and not body.keywords):
        return None
    f = body.func
    if cls_param is not None:
        if not (isinstance(f, ast.Name) and f.id == cls_param):
            return None
        cname = None
    else:
        if not (isinstance(f, ast.Attribute) and ast.unparse(f.value) == "p"):
            return None
        cname = f.attr
    a = body.args
    if len(a) == 1 and isinstance(a[0], ast.Tuple) and \
            [ast.unparse(e) for e in a[0].elts] == params:
        return (cname, "tuple")
    if len(a) == 2 and [ast.unparse(e) for e in a] == params:
        return (cname, "pair")
    return None


def _binary_entry_ok(model, nt, v, sym, want):
    kind, name = _node_of_value(model, None, v)
    x, y = ("param", "x"), ("param", "y")
    if kind == "class":
        if name != want:
            return False, f"maps to {name}, but '{sym}' denotes {want}"
        n = nt.get(name)
        if len(n.fields) != 2:
            return False, (f"{name} takes {len(n.fields)} field(s) "
                           f"{n.field_names} but the importer calls the table "
                           "entry with two operands (TypeError at run time)")
        return True, ""
    if kind == "helper":
        sem = _helper_semantics(model, None, name)
        if sem is None:
            raise AnalysisError(f"importer helper {name}: not analysable")
        params, rv = sem
        x, y = ("param", params[0]), ("param", params[1])
        if sym == "-":
            neg_y = [("call", "p.Product", (("lit", "tuple", (("const", -1), y)),),
                      ()),
                     ("unop", "USub", y)]
            ok = _ctor_name(rv) == "Sum" and rv[2] and rv[2][0][0] == "lit" and \
                len(rv[2][0][2]) == 2 and rv[2][0][2][0] == x and \
                rv[2][0][2][1] in neg_y
            return ok, "" if ok else f"helper {name} is not Sum((x, -y))"
        n = nt.get(want)
        if _ctor_name(rv) != want:
            return False, f"helper {name} builds {_ctor_name(rv)}, not {want}"
        if len(n.fields) == 1:
            ok = rv[2] == (("lit", "tuple", (x, y)),)
        else:
            ok = rv[2] == (x, y)
        return ok, "" if ok else (f"helper {name} does not pass its operands to "
                                  f"{want} in order")
    if kind == "built":
        cname, shape = name
        if cname != want:
            return False, f"builds {cname}, but '{sym}' denotes {want}"
        n = nt.get(want)
        ok = (shape == "tuple") == (len(n.fields) == 1)
        return ok, "" if ok else (f"{want} is built with the wrong argument "
                                  f"shape ({shape})")
    raise AnalysisError(f"importer table entry {name}: form not handled")


def _unary_entry_ok(model, nt, v, sym):
    kind, name = _node_of_value(model, None, v)
    want = {"~": "BitwiseNot", "not": "LogicalNot", "-": "NEG", "+": "POS"}[sym]
    if kind == "class":
        if name != want:
            return False, f"maps to {name}, but '{sym}' denotes {want}"
        return True, ""
    if kind == "helper":
        sem = _helper_semantics(model, None, name)
        if sem is None:
            raise AnalysisError(f"importer helper {name}: not analysable")
        params, rv = sem
        x = ("param", params[0])
        if rv == ("unop", "USub", x):
            got = "NEG"
        elif rv == x or rv == ("unop", "UAdd", x):
            got = "POS"
        elif _ctor_name(rv) in ("BitwiseNot", "LogicalNot") and rv[2] == (x,):
            got = _ctor_name(rv)
        elif rv == ("unop", "Invert", x):
            got = "BitwiseNot"
        else:
            got = f"<{rv}>"
        ok = got == want
        return ok, "" if ok else (f"helper {name} computes "
                                  f"{'arithmetic negation' if got == 'NEG' else got}"
                                  f", but '{sym}' denotes {want}")
    raise AnalysisError(f"importer table entry {name}: form not handled")
