"""C15 -- linear-form extraction and affine solving (refusal/guard structure)."""
from __future__ import annotations

import ast

from .. import AnalysisError
from ..rules import (check_attr_existence, handler_summaries, is_raising,
                     mapper_node_pairs, where)
from ..summary import NODE, contains, summarize

CO = "pymbolic.mapper.coefficient"
ALG = "pymbolic.algorithm"


# leaves of the affine fragment the property quantifies over (variables,
# subscripted variables, calls, look-ups); wildcards, function symbols and NaN
# nodes are outside it
AFFINE_LEAVES = {"Variable", "Subscript", "Call", "CallWithKwargs", "Lookup"}


def run(ctx):
    model = ctx.model
    ctx.decide("CoefficientCollector: every attribute a handler reads exists on "
               "every node class that reaches it; products with two "
               "variable-carrying factors, quotients by / powers of "
               "variable-carrying operands raise; node classes without a handler "
               "raise; sums accumulate every child")
    ctx.decide("solve_affine_equations_for: the integer division by the pivot is "
               "dominated by the uniqueness and |pivot| == 1 refusals; every "
               "floor division in gaussian_elimination is exact by construction "
               "(lcm by its own argument, row by a gcd over that row)")
    ctx.decline("correctness of the coefficients and of gaussian_elimination "
                "(numeric)")
    ctx.assume("stride dictionaries map 1 to the constant term (module "
               "convention)")

    cc = model.cls(f"{CO}:CoefficientCollector")
    dedupe = set()
    pairs = raising = 0
    for n, res, chain, mem in mapper_node_pairs(model, cc):
        if mem is None or mem.kind != "func":
            continue
        if res.via == "foreign":
            continue      # non-Expression objects: map_foreign rejects them
        if res.via == "unsupported" or is_raising(mem):
            raising += 1
            ok = is_raising(mem)
            ctx.ob(f"D4/CoefficientCollector/{n.name}", ok, where(mem),
                   f"{n.name} is refused (raises)" if ok else
                   f"CoefficientCollector silently maps {n.name} to None",
                   nontrivial=False)
            continue
        pairs += 1
        if n.name in AFFINE_LEAVES or n.child_fields:
            check_attr_existence(ctx, "X1", model, cc, n, mem, dedupe)
    ctx.floor("CoefficientCollector handled pairs", pairs, 8)
    ctx.floor("CoefficientCollector refused node classes", raising, 15)

    nt = model.nodes
    # map_sum: every child, every entry
    mem = model.lookup(cc, "map_sum")
    REC = ("rec", ("elem", ("field", "children")), True, ())
    saw = set()
    ok = True
    for ps in handler_summaries(model, nt.get("Sum"), mem.node):
        if ps.term != "return":
            continue
        rv = ps.retval
        if rv == ("litdict", (), ()):
            continue
        if not (rv[0] == "dict" and rv[1] == ("key", REC)
                and rv[3] == ("items", REC)):
            ok = False
            continue
        present = None
        for _, pol, v in ps.conds:
            if isinstance(v, tuple) and v[0] == "compare" and v[1] in (
                    ("In",), ("NotIn",)) and v[2] == ("key", REC):
                present = pol if v[1] == ("In",) else not pol
        val = rv[2]
        if present is True:
            saw.add("add")
            ok = ok and val[0] == "binop" and val[1] == "Add" and \
                ("val", REC) in (val[2], val[3])
        elif present is False:
            saw.add("new")
            ok = ok and val == ("val", REC)
        else:
            # e.g. result[var] = result.get(var, 0) + stride
            saw.update({"add", "new"})
            ok = ok and val[0] == "binop" and val[1] == "Add" and \
                ("val", REC) in (val[2], val[3])
    ok = ok and saw == {"add", "new"}
    ctx.ob("K/CoefficientCollector/map_sum", ok, where(mem),
           "every entry of every child's stride dict is accumulated" if ok else
           "CoefficientCollector.map_sum does not accumulate every child's "
           "coefficients (a repeated key must be added to, a new key stored)")

    # map_product: raise when a second factor carries variables
    mem = model.lookup(cc, "map_product")
    raises = [r for r in ast.walk(mem.node) if isinstance(r, ast.Raise)]
    ok = False
    for r in raises:
        par = mem.owner.module.parent(r)
        if isinstance(par, ast.If):
            t = ast.unparse(par.test).replace(" ", "").replace("(", "").replace(
                ")", "")
            outer = mem.owner.module.parent(par)
            guard = isinstance(outer, ast.If) and ast.unparse(
                outer.test).replace(" ", "") == "k!=1"
            if "idx_of_child_with_varsisnotNone" in t and \
                    "idx_of_child_with_vars!=i" in t and guard:
                ok = True
    ctx.ob("P/CoefficientCollector/map_product/nonlinear-raises", ok, where(mem),
           "a second factor with a non-constant key raises" if ok else
           "CoefficientCollector.map_product no longer raises when two different "
           "factors carry variables: a nonlinear product yields coefficients")
    src = ast.unparse(mem.node).replace(" ", "")
    ok = "children_coeffs=[self.rec(child)forchildinexpr.children]" in src and \
        "other_coeffs*=child_coeffs[1]" in src and "ifi!=idx_of_child_with_vars:" \
        in src
    ctx.ob("K/CoefficientCollector/map_product/all-factors", ok, where(mem),
           "all other factors are multiplied into the coefficient" if ok else
           "map_product does not multiply every other factor's constant into the "
           "coefficient")

    # quotient / power guards
    for slot, ncls, guarded in (("map_quotient", "Quotient", ["d_den"]),
                                ("map_power", "Power", ["d_exponent", "d_base"])):
        mem = model.lookup(cc, slot)
        n_raise = 0
        for ps in handler_summaries(model, nt.get(ncls), mem.node):
            if ps.term == "raise":
                n_raise += 1
        tests = [ast.unparse(i.test).replace(" ", "") for i in ast.walk(mem.node)
                 if isinstance(i, ast.If) and i.body and isinstance(i.body[0],
                                                                    ast.Raise)]
        ok = all(f"len({g})>1or1notin{g}" in tests for g in guarded)
        ctx.ob(f"P/CoefficientCollector/{slot}/nonlinear-raises", ok and
               n_raise >= len(guarded), where(mem),
               f"raises unless {guarded} are constants" if ok else
               f"CoefficientCollector.{slot} does not refuse when "
               f"{' / '.join(guarded)} carries a variable: non-affine input "
               "yields coefficients")
    mem = model.lookup(cc, "map_quotient")
    NUM = ("rec", ("field", "numerator"), True, ())
    DEN = ("rec", ("field", "denominator"), True, ())
    ok = False
    for ps in handler_summaries(model, nt.get("Quotient"), mem.node):
        if ps.term != "return":
            continue
        rv = ps.retval
        if rv[0] == "dictextend" and rv[1] == NUM and rv[2] == ("key", NUM) \
                and rv[4] in (("keys", NUM), ("items", NUM)):
            val = rv[3]
            den1 = ("index", DEN, 1)
            ok = (val[0] == "binop" and val[1] == "Mult" and val[3] == (
                "call", "Quotient", (("const", 1), den1), ())) or (
                val[0] == "binop" and val[1] == "Div" and val[3] == den1)
        elif rv[0] == "dict" and rv[3] in (("items", NUM),):
            val = rv[2]
            den1 = ("index", DEN, 1)
            ok = val[0] == "binop" and val[1] in ("Mult", "Div") and contains(
                val, lambda t: t == den1)
    ctx.ob("K/CoefficientCollector/map_quotient/scales-all", ok, where(mem),
           "every numerator coefficient is divided by the constant denominator"
           if ok else "map_quotient does not scale every numerator coefficient by "
           "1/denominator")

    # leaf rule: target selection
    mem = model.lookup(cc, "map_algebraic_leaf")
    saw = set()
    for ps in summarize(mem.node):
        if ps.term != "return":
            continue
        rv = ps.retval
        if rv == ("litdict", (NODE,), (("const", 1),)):
            saw.add("target")
        elif rv == ("litdict", (("const", 1),), (NODE,)):
            saw.add("constant")
    ctx.ob("P/CoefficientCollector/map_algebraic_leaf/exits",
           saw == {"target", "constant"}, where(mem),
           "a target leaf gets coefficient 1, any other leaf is a constant term"
           if saw == {"target", "constant"} else
           f"map_algebraic_leaf exits {sorted(saw)}")
    mem = model.lookup(cc, "map_constant")
    ok = all(ps.retval == ("litdict", (("const", 1),), (NODE,))
             for ps in summarize(mem.node))
    ctx.ob("P/CoefficientCollector/map_constant", ok, where(mem),
           "a constant is its own constant term")

    _solver(ctx, model)
    _exact_divisions(ctx, model)


def _exact_divisions(ctx, model):
    """fraction-free elimination: every floor division in gaussian_elimination
    must be exact by construction -- an lcm divided by one of its own arguments,
    or a row divided by a gcd that was taken over (at least) that row"""
    m, fn = model.func(f"{ALG}:gaussian_elimination")
    loc = m.loc(fn)
    defs = {}
    for st in ast.walk(fn):
        if isinstance(st, ast.Assign) and len(st.targets) == 1 and isinstance(
                st.targets[0], ast.Name):
            defs.setdefault(st.targets[0].id, []).append(st.value)
    n = 0
    for node in ast.walk(fn):
        num = den = None
        if isinstance(node, ast.BinOp) and isinstance(node.op, ast.FloorDiv):
            num, den = node.left, node.right
        elif isinstance(node, ast.AugAssign) and isinstance(node.op, ast.FloorDiv):
            num, den = node.target, node.value
        if num is None:
            continue
        n += 1
        nsrc, dsrc = ast.unparse(num), ast.unparse(den)
        ok = False
        why = ""
        if isinstance(num, ast.Name) and num.id in defs:
            # ell // x  with ell = lcm(..., x, ...)
            for d in defs[num.id]:
                if isinstance(d, ast.Call) and ast.unparse(d.func).endswith("lcm") \
                        and dsrc in [ast.unparse(a) for a in d.args]:
                    ok = True
            why = (f"'{nsrc} // {dsrc}': {nsrc} is not an lcm that has {dsrc} "
                   "among its arguments, so the division need not be exact")
        if isinstance(den, ast.Name) and den.id in defs and not ok:
            # row // g  with g = gcd over entries of that row
            for d in defs[den.id]:
                if isinstance(d, ast.Call) and "gcd" in ast.unparse(d.func):
                    inner = ast.unparse(d)
                    if f"in {nsrc}" in inner or nsrc in [
                            ast.unparse(a) for a in d.args]:
                        ok = True
            why = (f"'{nsrc} //= {dsrc}': {dsrc} is not a gcd taken over the "
                   f"entries of {nsrc}, so dividing {nsrc} by it silently floors "
                   "(a non-integral system is then 'solved' instead of refused)")
        ctx.ob(f"P/gaussian_elimination/exact-division:{nsrc}//{dsrc}", ok, loc,
               f"{nsrc} // {dsrc} is exact by construction" if ok else why)
    ctx.floor("floor divisions in gaussian_elimination", n, 4)


def _solver(ctx, model):
    m, fn = model.func(f"{ALG}:solve_affine_equations_for")
    loc = m.loc(fn)
    # the loop over unknowns
    loops = [lp for lp in ast.walk(fn) if isinstance(lp, ast.For)
             and "enumerate(unknowns)" in ast.unparse(lp.iter)]
    if len(loops) != 1:
        raise AnalysisError("solve_affine_equations_for: result loop not found")
    lp = loops[0]
    body = lp.body
    # statement order: uniqueness raise, |pivot| raise, then the divisions
    idx_unique = idx_unit = idx_div = None
    for i, st in enumerate(body):
        s = ast.unparse(st).replace(" ", "")
        if isinstance(st, ast.If) and st.body and isinstance(st.body[0], ast.Raise):
            t = ast.unparse(st.test).replace(" ", "")
            if t == "len(nonz_row)!=1":
                idx_unique = i
            elif t == "abs(mat[nonz_row,j])!=1":
                idx_unit = i
        if "//div" in s and idx_div is None:
            idx_div = i
    ok = None not in (idx_unique, idx_unit, idx_div) and \
        idx_unique < idx_unit < idx_div
    ctx.ob("P/solve_affine/refusals-dominate-division", ok, loc,
           "not-unique and |pivot| != 1 raise before any division by the pivot"
           if ok else
           "solve_affine_equations_for divides by the pivot without first "
           "refusing non-unique or non-unit pivots")
    # the key dispatch of the matrix assembly ends in a refusal
    chains = [i for i in ast.walk(fn) if isinstance(i, ast.If)
              and "unknowns_set" in ast.unparse(i.test)]
    ok = False
    for ch in chains:
        last = ch
        while len(last.orelse) == 1 and isinstance(last.orelse[0], ast.If):
            last = last.orelse[0]
        ok = ok or (bool(last.orelse) and isinstance(last.orelse[-1], ast.Raise))
    ctx.ob("P/solve_affine/unknown-key-raises", ok, loc,
           "a coefficient key that is neither unknown, parameter nor constant "
           "term raises" if ok else
           "the matrix assembly silently ignores coefficient keys it does not "
           "understand")
