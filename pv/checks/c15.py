"""C15 -- linear-form extraction and affine solving (refusal/guard structure)."""
from __future__ import annotations

import ast

from .. import AnalysisError
from ..rules import (guarded_reads, check_attr_existence, handler_summaries, is_raising,
                     mapper_node_pairs, where)
from ..summary import NODE, contains, summarize

CO = "pymbolic.mapper.coefficient"
ALG = "pymbolic.algorithm"


# leaves of the affine fragment the property quantifies over (variables,
# subscripted variables, calls, look-ups); wildcards, function symbols and NaN
# nodes are outside it
AFFINE_LEAVES = {"Variable", "Subscript", "Call", "CallWithKwargs", "Lookup"}


def run(ctx):
    model = ctx.model
    ctx.decide("CoefficientCollector: every attribute a handler reads exists on "
               "every node class that reaches it; products with two "
               "variable-carrying factors, quotients by / powers of "
               "variable-carrying operands raise; node classes without a handler "
               "raise; sums accumulate every child")
    ctx.decide("solve_affine_equations_for: the integer division by the pivot is "
               "dominated by the uniqueness and |pivot| == 1 refusals; every "
               "floor division in gaussian_elimination is exact by construction "
               "(lcm by its own argument, row by a gcd over that row)")
    ctx.decline("correctness of the coefficients and of gaussian_elimination "
                "(numeric)")
    ctx.assume("stride dictionaries map 1 to the constant term (module "
               "convention)")

    cc = model.cls(f"{CO}:CoefficientCollector")
    dedupe = set()
    pairs = raising = 0
    for n, res, chain, mem in mapper_node_pairs(model, cc):
        if mem is None or mem.kind != "func":
            continue
        if res.via == "foreign":
            continue      # non-Expression objects: map_foreign rejects them
        if res.via == "unsupported" or is_raising(mem):
            raising += 1
            ok = is_raising(mem)
            ctx.ob(f"D4/CoefficientCollector/{n.name}", ok, where(mem),
                   f"{n.name} is refused (raises)" if ok else
                   f"CoefficientCollector silently maps {n.name} to None",
                   nontrivial=False)
            continue
        pairs += 1
        if n.name in AFFINE_LEAVES or n.child_fields:
            check_attr_existence(ctx, "X1", model, cc, n, mem, dedupe)
        if n.child_fields and mem.node.name == "map_algebraic_leaf":
            _composite_leaf(ctx, model, n, mem)
    ctx.floor("CoefficientCollector handled pairs", pairs, 8)
    ctx.floor("CoefficientCollector refused node classes", raising, 15)

    nt = model.nodes
    # map_sum: every child, every entry
    mem = model.lookup(cc, "map_sum")
    REC = ("rec", ("elem", ("field", "children")), True, ())
    saw = set()
    ok = True
    for ps in handler_summaries(model, nt.get("Sum"), mem.node):
        if ps.term != "return":
            continue
        rv = ps.retval
        if rv == ("litdict", (), ()):
            continue
        if not (rv[0] == "dict" and rv[1] == ("key", REC)
                and rv[3] == ("items", REC)):
            ok = False
            continue
        present = None
        for _, pol, v in ps.conds:
            if isinstance(v, tuple) and v[0] == "compare" and v[1] in (
                    ("In",), ("NotIn",)) and v[2] == ("key", REC):
                present = pol if v[1] == ("In",) else not pol
        val = rv[2]
        if present is True:
            saw.add("add")
            ok = ok and val[0] == "binop" and val[1] == "Add" and \
                ("val", REC) in (val[2], val[3])
        elif present is False:
            saw.add("new")
            ok = ok and val == ("val", REC)
        else:
            # e.g. result[var] = result.get(var, 0) + stride
            saw.update({"add", "new"})
            ok = ok and val[0] == "binop" and val[1] == "Add" and \
                ("val", REC) in (val[2], val[3])
    ok = ok and saw == {"add", "new"}
    ctx.ob("K/CoefficientCollector/map_sum", ok, where(mem),
           "every entry of every child's stride dict is accumulated" if ok else
           "CoefficientCollector.map_sum does not accumulate every child's "
           "coefficients (a repeated key must be added to, a new key stored)")

    # map_product: roles found by data flow, then two facts
    mem = model.lookup(cc, "map_product")
    try:
        pwit = _judge_map_product(model, mem)
    except AnalysisError as e:
        pwit = None
        ctx.extra["judge_unavailable:CoefficientCollector.map_product"] = str(e)
    if pwit is not None:
        ctx.ob("P0/CoefficientCollector/map_product/semantics", not pwit,
               where(mem),
               "map_product interpreted on 1..4 factors with given coefficient "
               "tables: at most one factor may carry variables (else it "
               "raises), and the result is that factor's table scaled by the "
               "product of all the other factors' constants" if not pwit else
               "CoefficientCollector.map_product: " + "; ".join(pwit[:2]))
    mark_mp = len(ctx.obs)
    try:
        _map_product(ctx, model, mem)
    except AnalysisError:
        if pwit is None or pwit:
            raise
    if pwit is not None and not pwit:
        ctx.withdraw_failures_since(mark_mp, "decided by interpreting map_product")

    # quotient / power guards
    # (path rule: a result is returned only after the stride dict of the
    # denominator / exponent / base has been established to look like {1: k})
    from ..summary import facts_of
    for slot, ncls, guarded in (("map_quotient", "Quotient", ["denominator"]),
                                ("map_power", "Power", ["exponent", "base"])):
        mem = model.lookup(cc, slot)
        n_raise = n_ret = 0
        ok = True
        missing = set()
        for ps in handler_summaries(model, nt.get(ncls), mem.node):
            if ps.term == "raise":
                n_raise += 1
                continue
            if ps.term != "return":
                continue
            n_ret += 1
            facts = [f for _, pol, c in ps.conds if isinstance(c, tuple)
                     for f in facts_of(c, pol)]
            for fld in guarded:
                D = ("rec", ("field", fld), True, ())
                single = has_one = False
                for v, pol in facts:
                    if not (isinstance(v, tuple) and v[0] == "compare"
                            and len(v[1]) == 1):
                        continue
                    op, left, right = v[1][0], v[2], v[3][0]
                    if left == ("len", D) and right[0] == "const":
                        k = right[1]
                        if (op == "Gt" and k == 1 and not pol) or \
                                (op == "LtE" and k == 1 and pol) or \
                                (op == "Eq" and k == 1 and pol) or \
                                (op == "GtE" and k == 2 and not pol) or \
                                (op == "Lt" and k == 2 and pol):
                            single = True
                    if left == ("const", 1) and right == D:
                        if (op == "In" and pol) or (op == "NotIn" and not pol):
                            has_one = True
                if not (single and has_one):
                    ok = False
                    missing.add(fld)
        ctx.ob(f"P/CoefficientCollector/{slot}/nonlinear-raises", ok and
               n_raise >= 1 and n_ret >= 1, where(mem),
               f"raises unless the coefficients of {guarded} are constants" if ok
               else f"CoefficientCollector.{slot} does not refuse when "
               f"{' / '.join(sorted(missing) or guarded)} carries a variable: "
               "non-affine input yields coefficients")
    mem = model.lookup(cc, "map_quotient")
    NUM = ("rec", ("field", "numerator"), True, ())
    DEN = ("rec", ("field", "denominator"), True, ())
    ok = False
    for ps in handler_summaries(model, nt.get("Quotient"), mem.node):
        if ps.term != "return":
            continue
        rv = ps.retval
        if rv[0] == "dictextend" and rv[1] == NUM and rv[2] == ("key", NUM) \
                and rv[4] in (("keys", NUM), ("items", NUM)):
            val = rv[3]
            den1 = ("index", DEN, 1)
            ok = (val[0] == "binop" and val[1] == "Mult" and val[3] == (
                "call", "Quotient", (("const", 1), den1), ())) or (
                val[0] == "binop" and val[1] == "Div" and val[3] == den1)
        elif rv[0] == "dict" and rv[3] in (("items", NUM),):
            val = rv[2]
            den1 = ("index", DEN, 1)
            coeff = ("val", NUM)
            ok = (val[0] == "binop" and val[1] in ("Mult", "Div") and contains(
                val, lambda t: t == den1)) or (
                # one fraction  coefficient / denominator
                val[0] == "call" and val[1].split(".")[-1] in (
                    "Quotient", "quotient") and val[2] == (coeff, den1))
    ctx.ob("K/CoefficientCollector/map_quotient/scales-all", ok, where(mem),
           "every numerator coefficient is divided by the constant denominator"
           if ok else "map_quotient does not scale every numerator coefficient by "
           "1/denominator")

    # a handler that scales a child's coefficient dict in place and hands it on
    # relies on every rec() returning a dict nobody else holds: a look-aside
    # cache in the dispatch would hand the same (now scaled) dict out for the
    # next occurrence of that child
    mutating = []
    for name in model.slots(cc):
        hm = model.lookup(cc, name)
        if hm is None or hm.kind != "func" or not hm.node.args.args:
            continue
        me = hm.node.args.args[0].arg
        fresh = set()
        for st in ast.walk(hm.node):
            if isinstance(st, ast.Assign) and len(st.targets) == 1 and \
                    isinstance(st.targets[0], ast.Name) and isinstance(
                        st.value, ast.Call) and ast.unparse(st.value.func) in (
                        f"{me}.rec", me):
                fresh.add(st.targets[0].id)
        for st in ast.walk(hm.node):
            tg = st.targets if isinstance(st, (ast.Assign, ast.Delete)) else \
                [st.target] if isinstance(st, ast.AugAssign) else []
            for t in tg:
                if isinstance(t, ast.Subscript) and isinstance(t.value, ast.Name) \
                        and t.value.id in fresh:
                    mutating.append((hm, st))
            if isinstance(st, ast.Call) and isinstance(st.func, ast.Attribute) \
                    and isinstance(st.func.value, ast.Name) and \
                    st.func.value.id in fresh and st.func.attr in (
                        "update", "pop", "clear", "setdefault", "popitem"):
                mutating.append((hm, st))
    callm = model.lookup(cc, "__call__")
    recm = model.lookup(cc, "rec")
    cached = [m.owner.name for m in (callm, recm) if m is not None and any(
        isinstance(x, ast.Attribute) and "cache" in x.attr
        for x in ast.walk(m.node))]
    if mutating:
        hm, st = mutating[0]
        ctx.ob("O/CoefficientCollector/in-place-results-not-cached", not cached,
               hm.owner.module.loc(st),
               f"{hm.node.name} updates a child's coefficient dict in place; the "
               "dispatch keeps no look-aside table, so nobody else holds it"
               if not cached else
               f"CoefficientCollector.{hm.node.name} updates the dict returned by "
               f"rec() in place, and the dispatch ({', '.join(cached)}) keeps "
               "results in a look-aside cache: the cached coefficients of the "
               "numerator are scaled too, so x/2 + x collects x: 1/2 + 1/2")
    else:
        ctx.ob("O/CoefficientCollector/in-place-results-not-cached", True,
               cc.loc(), "no handler updates a child's result in place",
               nontrivial=False)

    # leaf rule: target selection
    mem = model.lookup(cc, "map_algebraic_leaf")
    saw = set()
    for ps in summarize(mem.node):
        if ps.term != "return":
            continue
        rv = ps.retval
        if rv == ("litdict", (NODE,), (("const", 1),)):
            saw.add("target")
        elif rv == ("litdict", (("const", 1),), (NODE,)):
            saw.add("constant")
    ctx.ob("P/CoefficientCollector/map_algebraic_leaf/exits",
           saw == {"target", "constant"}, where(mem),
           "a target leaf gets coefficient 1, any other leaf is a constant term"
           if saw == {"target", "constant"} else
           f"map_algebraic_leaf exits {sorted(saw)}")
    mem = model.lookup(cc, "map_constant")
    ok = all(ps.retval == ("litdict", (("const", 1),), (NODE,))
             for ps in summarize(mem.node))
    ctx.ob("P/CoefficientCollector/map_constant", ok, where(mem),
           "a constant is its own constant term")

    _solver(ctx, model)
    _exact_divisions(ctx, model)
    # "free of those variables" and "raises for input that is not affine" are
    # decided by what the dependency mapper reports for a composite leaf (the
    # collector asks it whether a call or subscript mentions a target; the
    # solver, whether a parameter hides an unknown): a variable it passes over
    # -- one that occurs only in a keyword argument -- ends up inside a
    # "constant".  C09's rule instances on DependencyMapper are premises here.
    from .c09 import DEP, _check_dep_coverage, _check_flag_table
    dm_ = model.cls(f"{DEP}:DependencyMapper")
    _check_flag_table(ctx, model, dm_)
    _check_dep_coverage(ctx, model, dm_)


def _composite_leaf(ctx, model, n, mem):
    """A node with children (a subscript, a call) that ends up in the leaf
    handler is sorted into "target" or "constant term" there.  As a constant
    term it may not mention a target -- `a[x]` with target x is not affine in
    x -- so the handler has to look at the node's children (directly or by
    handing the node to an analysis), or refuse the node.  Reading an
    attribute the class does not have is such a refusal (it is the recorded
    finding X1/...); sorting the node by a default value obtained without
    looking at it is not."""
    fn = model.inlined(mem.node)
    node_name = fn.args.args[1].arg if len(fn.args.args) > 1 else None
    if node_name is None:
        raise AnalysisError("map_algebraic_leaf: no node parameter")
    g = guarded_reads(fn)
    refuses = consults = False
    for a in ast.walk(fn):
        if isinstance(a, ast.Attribute) and isinstance(a.value, ast.Name) and \
                a.value.id == node_name and isinstance(a.ctx, ast.Load):
            if a.attr in n.child_fields:
                consults = True
            elif a.attr not in n.attrs and id(a) not in g:
                refuses = True
        if isinstance(a, ast.Call):
            fname = ast.unparse(a.func)
            if fname in ("getattr", "hasattr", "isinstance", "type", "id",
                         "repr", "str"):
                continue
            if any(isinstance(x, ast.Name) and x.id == node_name
                   for x in a.args):
                consults = True
    if is_raising(mem):
        refuses = True
    ok = refuses or consults
    ctx.ob(f"P/CoefficientCollector/map_algebraic_leaf/{n.name}/"
           "constant-term-free-of-targets", ok, where(mem),
           f"a {n.name} is " + ("refused" if refuses else "looked into") +
           " before it is sorted" if ok else
           f"with target names given, a {n.name} reaches map_algebraic_leaf and "
           f"is filed as a constant term without its {'/'.join(n.child_fields)} "
           "being looked at: CoefficientCollector(['x'])(a[x] + 2*x) returns "
           "{x: 2, 1: a[x]} -- a 'constant' that mentions the target, for an "
           "input that is not affine in x")


def _exact_divisions(ctx, model):
    """fraction-free elimination: every floor division in gaussian_elimination
    must be exact by construction -- an lcm divided by one of its own arguments,
    or a row divided by a gcd that was taken over (at least) that row"""
    m, fn = model.func(f"{ALG}:gaussian_elimination")
    loc = m.loc(fn)
    defs = {}
    for st in ast.walk(fn):
        if isinstance(st, ast.Assign) and len(st.targets) == 1 and isinstance(
                st.targets[0], ast.Name):
            defs.setdefault(st.targets[0].id, []).append(st.value)
    n = 0
    for node in ast.walk(fn):
        num = den = None
        if isinstance(node, ast.BinOp) and isinstance(node.op, ast.FloorDiv):
            num, den = node.left, node.right
        elif isinstance(node, ast.AugAssign) and isinstance(node.op, ast.FloorDiv):
            num, den = node.target, node.value
        if num is None:
            continue
        n += 1
        nsrc, dsrc = ast.unparse(num), ast.unparse(den)
        ok = False
        why = ""
        if isinstance(num, ast.Name) and num.id in defs:
            # ell // x  with ell = lcm(..., x, ...)
            for d in defs[num.id]:
                if isinstance(d, ast.Call) and ast.unparse(d.func).endswith("lcm") \
                        and dsrc in [ast.unparse(a) for a in d.args]:
                    ok = True
            why = (f"'{nsrc} // {dsrc}': {nsrc} is not an lcm that has {dsrc} "
                   "among its arguments, so the division need not be exact")
        if isinstance(den, ast.Name) and den.id in defs and not ok:
            # row // g  with g = gcd over entries of that row
            def expand(e, depth=0):
                """source of e with locals that have one definition replaced
                by it (the operands of the gcd may be gathered in a local)"""
                src_ = ast.unparse(e)
                if depth > 3:
                    return src_
                for nm_ in {x.id for x in ast.walk(e)
                            if isinstance(x, ast.Name)}:
                    if nm_ in defs and len(defs[nm_]) == 1 and nm_ != den.id:
                        src_ += " <- " + expand(defs[nm_][0], depth + 1)
                return src_
            n_gcd = n_other = 0
            for d in defs[den.id]:
                if isinstance(d, ast.Call) and "gcd" in ast.unparse(d.func):
                    inner = expand(d)
                    if f"in {nsrc}" in inner or nsrc in [
                            ast.unparse(a) for a in d.args]:
                        n_gcd += 1
                        continue
                if isinstance(d, ast.UnaryOp) and isinstance(d.op, ast.USub) \
                        and isinstance(d.operand, ast.Name) and \
                        d.operand.id == den.id:
                    continue    # -g: a gcd is determined up to a unit
                n_other += 1
            ok = n_gcd >= 1 and n_other == 0
            why = (f"'{nsrc} //= {dsrc}': {dsrc} is not a gcd taken over the "
                   f"entries of {nsrc}, so dividing {nsrc} by it silently floors "
                   "(a non-integral system is then 'solved' instead of refused)")
        ctx.ob(f"P/gaussian_elimination/exact-division:{nsrc}//{dsrc}", ok, loc,
               f"{nsrc} // {dsrc} is exact by construction" if ok else why)
    ctx.floor("floor divisions in gaussian_elimination", n, 4)


def _judge_map_product(model, mem):
    """interpretive judge (pv/absint.py).  -> witnesses"""
    import itertools
    from ..absint import Interp, Obj, Opaque, Poly, Raised, StepBound, module_env
    fn = mem.node
    cls = mem.owner

    def resolve(c, nm):
        if c == "collector":
            m_ = model.lookup(cls, nm)
            if m_ is not None and m_.kind == "func":
                return ("func", m_.node)
        return None
    glob = module_env(cls.module.tree, {})
    # coefficient tables of single factors: constant only / one variable / two
    # variables with a constant term / no constant term
    shapes = {
        "k": lambda i: {1: Poly.sym(f"k{i}")},
        "x": lambda i: {"x": Poly.sym(f"a{i}"), 1: Poly.sym(f"c{i}")},
        "xy": lambda i: {"x": Poly.sym(f"a{i}"), "y": Poly.sym(f"b{i}")},
        "y": lambda i: {"y": Poly.sym(f"b{i}")},
        # a factor with variables whose constant term is the number 0
        # (2*(x + 1 - 1)), and the constant factor 0
        "x0": lambda i: {"x": Poly.sym(f"a{i}"), 1: 0},
        "k0": lambda i: {1: 0},
    }
    wit = []
    n_cases = 0
    for n in range(1, 5):
        for combo in itertools.product(sorted(shapes), repeat=n):
            if n == 4 and sum(1 for c in combo if c not in ("k", "k0")) > 2:
                continue
            if n >= 3 and sum(1 for c in combo if c in ("x0", "k0")) > 1:
                continue
            n_cases += 1
            tables = [shapes[c](i) for i, c in enumerate(combo)]
            kids = tuple(Opaque(f"child{i}") for i in range(n))
            me = Obj("collector", {})
            node = Obj("Product", {"children": kids})

            def rec(it, n_, a, k, _t=tables):
                w = getattr(a[0], "what", "")
                if not w.startswith("child"):
                    raise AnalysisError("map_product: rec of something that is "
                                        "not a factor")
                return dict(_t[int(w[5:])])
            def generic(it_, n_, v):
                # coefficients are generic numbers: two that are not the same
                # polynomial are different numbers
                if v[0] == "compare" and isinstance(v[1], (ast.Eq, ast.NotEq)) \
                        and all(isinstance(x, (Poly, int)) and
                                not isinstance(x, bool) for x in v[2:]):
                    return isinstance(v[1], ast.NotEq)
                raise AnalysisError("map_product: test on a symbolic "
                                    f"coefficient: {ast.unparse(n_)}")
            it = Interp(calls={"self.rec": rec}, resolve=resolve, globals_=glob,
                        attrs=lambda it_, n_, b, at: Opaque(ast.unparse(n_)),
                        decide=generic, max_steps=40000)
            with_vars = [i for i, c in enumerate(combo)
                         if c not in ("k", "k0")]
            label = "factors with tables " + ", ".join(
                "{" + ", ".join(f"{k_}: ." for k_ in t) + "}" for t in tables)
            try:
                got = it.call_function(fn, [me, node], dict(glob))
            except Raised as r:
                # a refusal is a raise statement; a failing assert (gone under
                # -O) or a failed look-up further on is an accident
                got = "raises" if isinstance(r.node, ast.Raise) else \
                    f"fails with {r.exc or 'an error'} at line " \
                    f"{getattr(r.node, 'lineno', '?')}"
            except StepBound:
                wit.append(f"{label}: does not terminate")
                continue
            if len(with_vars) > 1:
                if "k0" in combo:
                    continue    # 0 * x * y: zero, refused or not
                if got != "raises":
                    wit.append(f"{label}: two factors carry variables (the "
                               "product is not affine) and the product is not "
                               "refused" + (f" ({got})" if isinstance(got, str)
                                            else ""))
                continue
            if isinstance(got, str):
                wit.append(f"{label}: {got} although at most one factor "
                           "carries variables")
                continue
            scale = Poly.const(1)
            for i, t in enumerate(tables):
                if i not in with_vars:
                    scale = scale * t[1]
            base = tables[with_vars[0]] if with_vars else {1: Poly.const(1)}
            want = {k_: scale * v for k_, v in base.items()}
            # (an entry whose coefficient is zero may be there or not)
            if not isinstance(got, dict) or any(
                    not isinstance(got.get(k_, 0), (Poly, int)) or
                    Poly.lift(got.get(k_, 0)) != Poly.lift(want.get(k_, 0))
                    for k_ in set(want) | set(got)):
                wit.append(f"{label}: result {got!r}, expected {want!r}")
    if n_cases < 50:
        raise AnalysisError("map_product: too few cases")
    return wit


def _map_product(ctx, model, mem):
    """CoefficientCollector.map_product:
    (A) while scanning the factors' coefficient dicts, meeting a non-constant
        key in a *second* factor raises (the product is not affine);
    (B) the constants of every other factor are multiplied into the result."""
    fn = model.inlined(mem.node)
    U = lambda n: ast.unparse(n).replace(" ", "")       # noqa: E731
    node_p = fn.args.args[1].arg
    # CC: the list of per-factor coefficient dicts
    CC = None
    for st in ast.walk(fn):
        if isinstance(st, ast.Assign) and isinstance(st.value, ast.ListComp) and \
                len(st.targets) == 1 and isinstance(st.targets[0], ast.Name):
            g = st.value.generators[0]
            if U(g.iter) == f"{node_p}.children" and \
                    U(st.value.elt) == f"self.rec({U(g.target)})" and not g.ifs:
                CC = st.targets[0].id
    if CC is None:
        raise AnalysisError("map_product: the list of factor coefficients was "
                            "not found")
    # aliases of CC created by inlining (parameter copies)
    cc_names = {CC}
    for _ in range(3):
        for st in ast.walk(fn):
            if isinstance(st, ast.Assign) and isinstance(st.value, ast.Name) and \
                    st.value.id in cc_names and isinstance(st.targets[0], ast.Name):
                cc_names.add(st.targets[0].id)
    loops = [lp for lp in ast.walk(fn) if isinstance(lp, ast.For)
             and isinstance(lp.iter, ast.Call) and U(lp.iter.func) == "enumerate"
             and lp.iter.args and U(lp.iter.args[0]) in cc_names
             and isinstance(lp.target, ast.Tuple)]
    if len(loops) < 2:
        raise AnalysisError("map_product: the two passes over the factors were "
                            "not found")

    def enclosing_tests(root, target):
        """conditions (test, polarity) of the Ifs between root and target"""
        out = []

        def walk(node, acc):
            if node is target:
                out.append(list(acc))
                return
            if isinstance(node, ast.If):
                for ch in node.body:
                    walk(ch, acc + [(node.test, True)])
                for ch in node.orelse:
                    walk(ch, acc + [(node.test, False)])
                return
            for ch in ast.iter_child_nodes(node):
                if isinstance(ch, (ast.stmt,)):
                    walk(ch, acc)
        walk(root, [])
        return out[0] if out else None

    def atoms(tests):
        """atomic (text, polarity) facts of a conjunction of tests"""
        res = set()

        def add(t, pol):
            if isinstance(t, ast.UnaryOp) and isinstance(t.op, ast.Not):
                add(t.operand, not pol)
            elif isinstance(t, ast.BoolOp) and ((isinstance(t.op, ast.And) and pol)
                                                or (isinstance(t.op, ast.Or)
                                                    and not pol)):
                for v in t.values:
                    add(v, pol)
            else:
                res.add((U(t), pol))
        for t, pol in tests:
            add(t, pol)
        return res

    # (A) the scanning pass: the loop that contains a raise
    scan = [lp for lp in loops if any(isinstance(r, ast.Raise)
                                      for r in ast.walk(lp))]
    okA = False
    R = None
    if scan:
        lp = scan[0]
        i = lp.target.elts[0].id
        # the remembered index: assigned from i inside the loop
        for st in ast.walk(lp):
            if isinstance(st, ast.Assign) and isinstance(st.value, ast.Name) and \
                    st.value.id == i and isinstance(st.targets[0], ast.Name):
                R = st.targets[0].id
        inner = [x for x in ast.walk(lp) if isinstance(x, ast.For) and x is not lp]
        k = inner[0].target.id if inner and isinstance(inner[0].target,
                                                       ast.Name) else None
        if R is not None and k is not None:
            for r in ast.walk(lp):
                if isinstance(r, ast.Raise):
                    facts = atoms(enclosing_tests(lp, r) or [])
                    nonconst = (f"{k}!=1", True) in facts or \
                        (f"{k}==1", False) in facts
                    seen = (f"{R}isnotNone", True) in facts or \
                        (f"{R}isNone", False) in facts
                    other = (f"{R}!={i}", True) in facts or \
                        (f"{i}!={R}", True) in facts or \
                        (f"{R}=={i}", False) in facts or (f"{i}=={R}", False) in facts
                    okA = okA or (nonconst and seen and other)
    ctx.ob("P/CoefficientCollector/map_product/nonlinear-raises", okA, where(mem),
           "a second factor with a non-constant key raises" if okA else
           "CoefficientCollector.map_product no longer raises when two different "
           "factors carry variables: a nonlinear product yields coefficients")
    # the name the scan's result is known by afterwards (inlined helper: the
    # returned value is copied into the caller's variable)
    r_names = {R} if R else set()
    for _ in range(3):
        for st in ast.walk(fn):
            if isinstance(st, ast.Assign) and isinstance(st.value, ast.Name) and \
                    st.value.id in r_names and isinstance(st.targets[0], ast.Name):
                r_names.add(st.targets[0].id)
    # (B) the multiplying pass
    okB = False
    for lp in loops:
        if lp in scan:
            continue
        i = lp.target.elts[0].id
        cdict = lp.target.elts[1].id if isinstance(lp.target.elts[1],
                                                   ast.Name) else None
        for st in ast.walk(lp):
            mult = None
            if isinstance(st, ast.AugAssign) and isinstance(st.op, ast.Mult):
                mult = st.value
            elif isinstance(st, ast.Assign) and isinstance(st.value, ast.BinOp) \
                    and isinstance(st.value.op, ast.Mult) and \
                    U(st.targets[0]) in (U(st.value.left), U(st.value.right)):
                mult = st.value.right if U(st.targets[0]) == U(st.value.left) \
                    else st.value.left
            if mult is None or U(mult) != f"{cdict}[1]":
                continue
            facts = atoms(enclosing_tests(lp, st) or [])
            if any(((f"{i}!={r}", True) in facts or (f"{r}!={i}", True) in facts
                    or (f"{i}=={r}", False) in facts or (f"{r}=={i}", False)
                    in facts) for r in r_names):
                okB = True
    ctx.ob("K/CoefficientCollector/map_product/all-factors", okB, where(mem),
           "all other factors are multiplied into the coefficient" if okB else
           "map_product does not multiply every other factor's constant into the "
           "coefficient")


def _matrix_names(fn):
    """names bound to  <np>.zeros(...)  in fn: the coefficient matrix (first)
    and the right-hand side (second), by order of creation"""
    out = []
    for st in fn.body:
        if isinstance(st, ast.Assign) and isinstance(st.value, ast.Call) and \
                ast.unparse(st.value.func).endswith("zeros") and isinstance(
                st.targets[0], ast.Name):
            out.append(st.targets[0].id)
    return out


def _solver_assembly(ctx, m, fn, loc):
    """both sides of an equation (and equal keys) contribute to the same cell
    of the matrices, so the assembly must *add* each contribution"""
    mats = set(_matrix_names(fn))
    if len(mats) != 2:
        raise AnalysisError("solve_affine_equations_for: the two zero-initialised "
                            "matrices were not found")
    # the loop that runs over the two sides of one equation
    side_loops = [lp_ for lp_ in ast.walk(fn) if isinstance(lp_, ast.For)
                  and isinstance(lp_.iter, (ast.List, ast.Tuple))
                  and len(lp_.iter.elts) == 2]
    if len(side_loops) != 1:
        raise AnalysisError("solve_affine_equations_for: the loop over the two "
                            "sides of an equation was not found")
    stores = []
    for st in ast.walk(side_loops[0]):
        if isinstance(st, (ast.Assign, ast.AugAssign)):
            tgts = st.targets if isinstance(st, ast.Assign) else [st.target]
            for t in tgts:
                if isinstance(t, ast.Subscript) and isinstance(
                        t.value, ast.Name) and t.value.id in mats:
                    stores.append((st, t))
    ctx.floor("matrix stores in the assembly loop", len(stores), 3)
    for st, t in stores:
        ok = isinstance(st, ast.AugAssign) and isinstance(st.op, ast.Add)
        kind = ast.unparse(t.value)
        ctx.ob(f"K/solve_affine/assembly-accumulates:{ast.unparse(t)}", ok,
               m.loc(st),
               "contributions are added to the cell" if ok else
               f"'{ast.unparse(st)}' overwrites the cell: when both sides of an "
               "equation (x + 1 == n + 2) contribute to the same entry of "
               f"{kind}, the first contribution is lost and the returned "
               "assignment does not satisfy the equation")


def _const_int(e):
    if isinstance(e, ast.UnaryOp) and isinstance(e.op, ast.USub):
        e = e.operand
    return isinstance(e, ast.Constant) and isinstance(e.value, int)


def _solver_composite_parameters(ctx, m, fn, loc):
    """The solver treats subscripts, calls and look-ups as parameters.  One
    that has an unknown *inside* (x = a[x], x + y = f(y)) makes the equation
    non-affine, and the 'solution' {x: a[x]} does not satisfy it identically.
    Necessary condition, in either of two forms: the coefficient collector is
    told the unknowns (it refuses such leaves itself), or some refusal of the
    solver is decided by a dependency query that looks inside composite
    leaves."""
    told = False
    descending = set()
    shallow = 0
    for st in ast.walk(fn):
        if isinstance(st, ast.Assign) and isinstance(st.value, ast.Call) and \
                len(st.targets) == 1 and isinstance(st.targets[0], ast.Name):
            f_ = ast.unparse(st.value.func).split(".")[-1]
            kws = {k.arg: ast.unparse(k.value) for k in st.value.keywords}
            if f_.endswith("DependencyMapper"):
                inside = kws.get("composite_leaves") == "False" or (
                    kws.get("include_subscripts") == "False" and
                    kws.get("include_lookups") == "False" and
                    kws.get("include_calls") in ("False", "'descend_args'"))
                if inside:
                    descending.add(st.targets[0].id)
                else:
                    shallow += 1
            if f_ == "CoefficientCollector" and (st.value.args or kws):
                told = True
    if not shallow and not descending:
        raise AnalysisError("solve_affine_equations_for: dependency mapper not "
                            "found")
    guarded = False
    for st in ast.walk(fn):
        if isinstance(st, ast.If) and any(isinstance(x, ast.Raise)
                                          for b in st.body for x in ast.walk(b)):
            if any(isinstance(c, ast.Call) and isinstance(c.func, ast.Name)
                   and c.func.id in descending for c in ast.walk(st.test)):
                guarded = True
    ok = told or guarded
    ctx.ob("P/solve_affine/composite-parameters-free-of-unknowns", ok, loc,
           "a composite parameter with an unknown inside is refused" if ok else
           "solve_affine_equations_for finds its parameters with composite "
           "leaves (a[x], f(x) are parameters) and never looks inside them: "
           "solve(['x'], [(x, a[x])]) answers {x: a[x]}, which does not satisfy "
           "the equation identically in the remaining parameters")


def _solver_refusals(ctx, m, fn, lp, loc):
    """necessary conditions for 'raises when an unknown is not uniquely
    determined' and 'accepted systems are satisfied': some refusal must look at
    the right-hand side (an inconsistent system x == 5, x == 6 differs from a
    consistent one only there), and some refusal must look beyond the current
    unknown's own column and pivot entry (two unknowns sharing one equation,
    x + y == n, have a single non-zero entry each in their columns)"""
    mats = _matrix_names(fn)
    if len(mats) != 2:
        raise AnalysisError("solve_affine_equations_for: matrices not found")
    MAT, RHS = mats
    # statements after the elimination call
    after = False
    tail = []
    for st in fn.body:
        if after:
            tail.append(st)
        if any(isinstance(c, ast.Call) and ast.unparse(c.func).endswith(
                "gaussian_elimination") for c in ast.walk(st)):
            after = True
    if not tail:
        raise AnalysisError("solve_affine_equations_for: elimination call not "
                            "found")
    jvar = None
    if isinstance(lp.target, ast.Tuple) and isinstance(lp.target.elts[0],
                                                        ast.Name):
        jvar = lp.target.elts[0].id

    def local_defs(name, scope):
        return [st.value for st in ast.walk(scope) if isinstance(st, ast.Assign)
                and any(name in {n_.id for n_ in ast.walk(t)
                                 if isinstance(n_, ast.Name)}
                        for t in st.targets)]

    def reads(test, scope, depth=0):
        """subscript reads of the two matrices a test depends on, through
        local names"""
        out = []
        for n_ in ast.walk(test):
            if isinstance(n_, ast.Subscript) and isinstance(n_.value, ast.Name) \
                    and n_.value.id in (MAT, RHS):
                out.append(n_)
            elif isinstance(n_, ast.Name) and n_.id in (MAT, RHS):
                # whole-matrix use (e.g. mat.any(axis=1)) counts as a wide read
                par_sub = False
                for s_ in ast.walk(test):
                    if isinstance(s_, ast.Subscript) and s_.value is n_:
                        par_sub = True
                if not par_sub:
                    out.append(n_)
            elif isinstance(n_, ast.Name) and depth < 4:
                for d in local_defs(n_.id, scope):
                    out.extend(reads(d, scope, depth + 1))
        return out

    guards = []
    for st in tail:
        for i_ in ast.walk(st):
            if isinstance(i_, ast.If) and any(isinstance(r, ast.Raise)
                                              for b in i_.body
                                              for r in ast.walk(b)):
                guards.append(i_.test)
            if isinstance(i_, ast.Assert):
                guards.append(i_.test)
    scope = ast.Module(body=tail, type_ignores=[])
    sees_rhs = False
    sees_rhs_row = False
    sees_beyond = False
    for t in guards:
        for r in reads(t, scope):
            name = r.value.id if isinstance(r, ast.Subscript) else r.id
            if name == RHS:
                sees_rhs = True
                # ... and a whole row of it: the columns before the last hold
                # the coefficients of the remaining parameters
                sl = r.slice if isinstance(r, ast.Subscript) else None
                elts = sl.elts if isinstance(sl, ast.Tuple) else [sl]
                one_col = sl is not None and len(elts) == 2 and _const_int(
                    elts[1])
                if not one_col:
                    sees_rhs_row = True
            if name == MAT:
                if not isinstance(r, ast.Subscript):
                    sees_beyond = True
                    continue
                sl = r.slice
                elts = sl.elts if isinstance(sl, ast.Tuple) else [sl]
                # own column  mat[:, j]  or own pivot  mat[row, j]
                own = len(elts) == 2 and isinstance(elts[1], ast.Name) and \
                    elts[1].id == jvar
                if not own:
                    sees_beyond = True
    ctx.ob("P/solve_affine/refusal-reads-right-hand-side", sees_rhs, loc,
           "a refusal depends on the right-hand side (inconsistent systems can "
           "be told apart)" if sees_rhs else
           "no refusal after the elimination depends on the right-hand side: an "
           "inconsistent system (x == 5, x == 6) cannot be told from a "
           "consistent one and is 'solved' (x = 5)")
    if sees_rhs:
        ctx.ob("P/solve_affine/refusal-reads-whole-right-hand-row", sees_rhs_row,
               loc, "the consistency refusal looks at a whole right-hand row "
               "(parameter coefficients and constant)" if sees_rhs_row else
               "the refusals read single columns of the right-hand side only: a "
               "row left without unknowns whose right-hand side differs in a "
               "parameter coefficient (x == n, x == m leaves 0 == m - n) passes, "
               "and the returned assignment does not satisfy that equation")
    ctx.ob("P/solve_affine/refusal-reads-beyond-own-column", sees_beyond, loc,
           "a refusal looks at more than the unknown's own column" if sees_beyond
           else "every refusal looks only at the current unknown's column and "
           "pivot entry: two unknowns that share their only equation "
           "(x + y == n) both pass the 'exactly one non-zero row' test and are "
           "both 'solved' (x = n, y = n)")


def _solver(ctx, model):
    m, fn = model.func(f"{ALG}:solve_affine_equations_for")
    loc = m.loc(fn)
    # the loop over unknowns
    # = the outermost for loop that stores into the mapping the function returns
    returned = {r.value.id for r in ast.walk(fn) if isinstance(r, ast.Return)
                and isinstance(r.value, ast.Name)}

    def stores_result(lp):
        return any(isinstance(t, ast.Subscript) and isinstance(t.ctx, ast.Store)
                   and isinstance(t.value, ast.Name) and t.value.id in returned
                   for st in lp.body for t in ast.walk(st))
    loops = [lp for lp in fn.body if isinstance(lp, ast.For) and stores_result(lp)]
    if len(loops) != 1:
        raise AnalysisError("solve_affine_equations_for: result loop not found")
    lp = loops[0]
    body = lp.body
    # every floor division in the loop divides by a matrix entry E for which,
    # earlier in the same round, |E| != 1 has raised, and whose row index was
    # unpacked from a where()-result whose length != 1 has raised
    U = lambda n: ast.unparse(n).replace(" ", "")     # noqa: E731

    def resolve(e, upto):
        """follow plain name assignments made earlier in the loop body"""
        for _ in range(4):
            if isinstance(e, ast.Name):
                val = None
                for st in body[:upto]:
                    if isinstance(st, ast.Assign) and len(st.targets) == 1 and \
                            isinstance(st.targets[0], ast.Name) and \
                            st.targets[0].id == e.id:
                        val = st.value
                if val is None:
                    return e
                e = val
            else:
                return e
        return e

    guards = []       # (index, test) of top-level  if <test>: raise
    for i, st in enumerate(body):
        if isinstance(st, ast.If) and st.body and isinstance(st.body[0],
                                                               ast.Raise):
            # `if a or b: raise` refuses under a and under b
            tests = st.test.values if isinstance(st.test, ast.BoolOp) and \
                isinstance(st.test.op, ast.Or) else [st.test]
            for t_ in tests:
                guards.append((i, t_))
    divs = []
    for i, st in enumerate(body):
        for n_ in ast.walk(st):
            if isinstance(n_, ast.BinOp) and isinstance(n_.op, ast.FloorDiv):
                divs.append((i, n_.right))
    if not divs:
        # a pivot that passed  abs(pivot) != 1 -> raise  is +1 or -1; with no
        # division (or multiplication) by it the sign of a -1 pivot is lost
        unit_guard = None
        for gi, t in guards:
            if isinstance(t, ast.Compare) and len(t.ops) == 1 and isinstance(
                    t.ops[0], ast.NotEq) and U(t.comparators[0]) == "1" and \
                    isinstance(t.left, ast.Call) and U(t.left.func) == "abs":
                unit_guard = resolve(t.left.args[0], gi)
        uses = unit_guard is not None and any(
            isinstance(n_, ast.BinOp) and isinstance(
                n_.op, (ast.Mult, ast.Div, ast.FloorDiv)) and U(unit_guard) in (
                U(resolve(n_.right, len(body))), U(resolve(n_.left, len(body))))
            for st in body for n_ in ast.walk(st))
        if unit_guard is None or uses:
            raise AnalysisError("solve_affine_equations_for: no division by the "
                                "pivot found in the result loop")
        ctx.ob("P/solve_affine/result-divided-by-pivot", False, loc,
               f"the result loop admits a pivot {U(unit_guard)} of +1 or -1 "
               "(abs(pivot) != 1 raises) and then takes the right-hand side "
               "as it is: for a pivot of -1 (equation -x == n) the returned "
               "assignment is x = n instead of x = -n")
        divs = []
    ok = True
    for i, den in divs:
        E = resolve(den, i)
        unit = False
        for gi, t in guards:
            if gi >= i:
                continue
            if isinstance(t, ast.Compare) and len(t.ops) == 1 and isinstance(
                    t.ops[0], ast.NotEq) and U(t.comparators[0]) == "1" and \
                    isinstance(t.left, ast.Call) and U(t.left.func) == "abs" and \
                    U(resolve(t.left.args[0], gi)) == U(E):
                unit = True
        # the row index inside E
        unique = False
        if isinstance(E, ast.Subscript):
            idx_names = {n_.id for n_ in ast.walk(E.slice)
                         if isinstance(n_, ast.Name)}
            # names unpacked from a where()-result
            for k, st in enumerate(body[:i]):
                src_name = None
                if isinstance(st, ast.Assign) and isinstance(
                        st.targets[0], ast.Tuple) and len(
                        st.targets[0].elts) == 1 and isinstance(
                        st.targets[0].elts[0], ast.Name) and \
                        st.targets[0].elts[0].id in idx_names and \
                        isinstance(st.value, ast.Name):
                    src_name = st.value.id            # (row,) = rows
                elif isinstance(st, ast.Assign) and isinstance(
                        st.targets[0], ast.Name) and \
                        st.targets[0].id in idx_names and isinstance(
                        st.value, ast.Subscript) and isinstance(
                        st.value.value, ast.Name) and U(st.value.slice) == "0":
                    src_name = st.value.value.id      # row = rows[0]
                if src_name is not None:
                    for gi, t in guards:
                        if gi < k and U(t) == f"len({src_name})!=1":
                            unique = True
        ok = ok and unit and unique
    ctx.ob("P/solve_affine/refusals-dominate-division", ok, loc,
           "not-unique and |pivot| != 1 raise before any division by the pivot"
           if ok else
           "solve_affine_equations_for divides by the pivot without first "
           "refusing non-unique or non-unit pivots")
    _solver_assembly(ctx, m, fn, loc)
    _solver_refusals(ctx, m, fn, lp, loc)
    _solver_composite_parameters(ctx, m, fn, loc)
    # the key dispatch of the matrix assembly ends in a refusal
    # (the if/elif chain on the key variable of the loop over a coefficient
    # mapping's items)
    chains = []
    for lp_ in ast.walk(fn):
        if isinstance(lp_, ast.For) and isinstance(lp_.iter, ast.Call) and \
                isinstance(lp_.iter.func, ast.Attribute) and \
                lp_.iter.func.attr == "items" and \
                isinstance(lp_.target, ast.Tuple) and \
                isinstance(lp_.target.elts[0], ast.Name):
            kv = lp_.target.elts[0].id
            chains += [i for i in lp_.body if isinstance(i, ast.If)
                       and any(isinstance(n_, ast.Name) and n_.id == kv
                               for n_ in ast.walk(i.test))]
    if not chains:
        raise AnalysisError("solve_affine_equations_for: dispatch on the "
                            "coefficient key not found")
    ok = False
    for ch in chains:
        last = ch
        while len(last.orelse) == 1 and isinstance(last.orelse[0], ast.If):
            last = last.orelse[0]
        ok = ok or (bool(last.orelse) and isinstance(last.orelse[-1], ast.Raise))
    ctx.ob("P/solve_affine/unknown-key-raises", ok, loc,
           "a coefficient key that is neither unknown, parameter nor constant "
           "term raises" if ok else
           "the matrix assembly silently ignores coefficient keys it does not "
           "understand")
