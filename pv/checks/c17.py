"""C17 -- pickles and persistent keys are stable across processes."""
from __future__ import annotations

import ast

from .. import AnalysisError
from ..model import CHILD_MAP, ClassInfo
from ..rules import child_kinds, handler_summaries, is_raising, mapper_node_pairs, where
from ..summary import NODE, base_field, contains, summarize
from .c01 import check_template

PRIM = "pymbolic.primitives"
PH = "pymbolic.mapper.persistent_hash"


# numpy scalar class hierarchy (numpy documentation, frozen): class -> classes
# it covers
NUMPY_SUBCLASSES = {
    "generic": {"generic", "number", "bool_", "integer", "floating",
                "complexfloating", "inexact", "signedinteger", "unsignedinteger"},
    "number": {"number", "integer", "floating", "complexfloating", "inexact",
               "signedinteger", "unsignedinteger"},
    "bool_": {"bool_"},
    "integer": {"integer", "signedinteger", "unsignedinteger"},
    "inexact": {"inexact", "floating", "complexfloating"},
}


def run(ctx):
    model = ctx.model
    ctx.decide("pickled state = the field tuple only (generated __getstate__/"
               "__setstate__, instantiated symbolically for 0..3 fields); the "
               "cached hash is never part of it; no node class bypasses them "
               "with __reduce__/__slots__/own state methods; legacy classes go "
               "through the init-args protocol")
    ctx.decide("compiled expressions pickle (expression, variables) and "
               "re-compile")
    ctx.decide("persistent digest inputs are type names, variable names, "
               "constant reprs and operators -- never hash()/id()/object reprs; "
               "mapping-valued node fields are fed in a canonical order with "
               "their keys")
    ctx.decline("byte-level pickle compatibility across Python versions")
    ctx.assume("str.encode / repr of ints, floats and strings are "
               "process-independent")

    check_template(ctx, model, "C17", only="state")
    _no_bypass(ctx, model)
    _legacy_state(ctx, model)
    _compiled(ctx, model)
    _digest(ctx, model)
    _memoized_hashes(ctx, model)
    _eq_not_by_identity_of_parts(ctx, model)
    # a compiled expression is re-compiled from (expression, variables) in the
    # consumer: its positional signature must not depend on the process (set
    # order follows the string-hash seed) -- C13's rule instances on _compile
    from .c13 import _compile as _compile_rules
    _compile_rules(ctx, model)


def _eq_not_by_identity_of_parts(ctx, model):
    """Unpickling rebuilds every object an expression holds: a part that two
    equal expressions shared by identity in the producer (a memoized Space, an
    interned table) is a separate copy in the consumer.  An __eq__ that
    compares a part of self with the same part of the other operand by `is`
    therefore tells an unpickled value from the locally built one, although
    their hashes agree.  (`self is other` as a fast path for True is fine.)"""
    n_eq = 0
    for c in model.classes.values():
        for nm in ("__eq__", "__ne__", "is_equal"):
            mem = c.members.get(nm)
            if mem is None or mem.kind != "func":
                continue
            n_eq += 1
            for cmp_ in ast.walk(mem.node):
                if not (isinstance(cmp_, ast.Compare) and len(cmp_.ops) == 1 and
                        isinstance(cmp_.ops[0], (ast.Is, ast.IsNot))):
                    continue
                a, b = cmp_.left, cmp_.comparators[0]
                if isinstance(a, ast.Attribute) and isinstance(b, ast.Attribute) \
                        and a.attr == b.attr and isinstance(a.value, ast.Name) \
                        and isinstance(b.value, ast.Name) and \
                        a.value.id != b.value.id and \
                        not a.attr.startswith("__"):
                    ctx.ob(f"S/pickle/eq-by-identity/{c.name}.{a.attr}", False,
                           c.module.loc(cmp_),
                           f"{c.name}.{nm} compares '{a.attr}' of the two "
                           f"operands by identity ({ast.unparse(cmp_)}): an "
                           "unpickled value holds its own copy of that object, "
                           "so it is unequal to the value built from source in "
                           "the consumer (and is not found in a set that holds "
                           "it) although the hashes agree")
    ctx.floor("classes with an equality method", n_eq, 3)
    ctx.ob("S/pickle/eq-by-identity", True, "pymbolic/",
           f"{n_eq} equality methods of the package looked at: none compares "
           "a part of the operands by identity")


def numpy_constants_not_normalised(model, mc):
    """-> (numpy classes primitives registers as constant classes, those of
    them that the isinstance tests of the constant handler *mc* do not cover);
    shared with C13 (CompileMapper.map_constant writes repr(), and numpy 2
    scalars do not repr as Python literals)"""
    prim = model.repo.module(PRIM)
    registered = set()
    for st in ast.walk(prim.tree):
        if isinstance(st, ast.AugAssign) and ast.unparse(st.target) == \
                "VALID_CONSTANT_CLASSES" and isinstance(st.value, ast.Tuple):
            for e in st.value.elts:
                if isinstance(e, ast.Attribute) and ast.unparse(e.value) in (
                        "numpy", "np"):
                    registered.add(e.attr)
    covered = set()
    if mc is not None and mc.kind == "func":
        for c in ast.walk(mc.node):
            if isinstance(c, ast.Call) and isinstance(c.func, ast.Name) and \
                    c.func.id == "isinstance" and len(c.args) == 2:
                classes = c.args[1].elts if isinstance(c.args[1], ast.Tuple) \
                    else [c.args[1]]
                for k in classes:
                    if isinstance(k, ast.Attribute) and ast.unparse(k.value) in (
                            "numpy", "np"):
                        covered |= NUMPY_SUBCLASSES.get(k.attr, {k.attr})
    # a registered class is covered when every one of its concrete kinds is
    need = set()
    for r in registered:
        kinds = NUMPY_SUBCLASSES.get(r, {r}) - {"generic", "number", "inexact",
                                                "integer"}
        kinds |= {"integer"} if r in ("number", "generic", "integer") else set()
        need |= {k for k in kinds if k in ("bool_", "integer", "floating",
                                           "complexfloating")}
    missing = sorted(k for k in need if k not in covered
                     and not (k == "integer" and {"signedinteger",
                                                  "unsignedinteger"} <= covered))
    if registered - covered <= {"number", "generic"} and not missing:
        return registered, []
    return registered, missing or sorted(registered - covered)


def _memoized_hashes(ctx, model):
    """A hash depends on the process (string hashing is seeded).  A class of the
    package whose __hash__ is memoized on the instance (pytools.memoize_method
    keeps the value in the instance __dict__) ships that value in its pickles
    unless it takes the memo out of its state: the unpickled object then
    answers hash() with the producer's value, and the hash fast path of the
    node classes' __eq__ makes the enclosing expression unequal to a locally
    built one."""
    MEMO = {"memoize_method", "cached_property", "memoize", "lru_cache", "cache"}
    n_cls = 0
    for c in sorted(model.classes.values(), key=lambda k: k.key):
        n_cls += 1
        h = c.members.get("__hash__")
        if h is None or h.kind != "func":
            continue
        memo = [d for d in h.decorators if d in MEMO]
        if not memo:
            continue
        # does the class (or a base) keep the memo out of the pickle?
        guarded = False
        for name in ("__getstate__", "__reduce__", "__reduce_ex__"):
            mm = model.lookup(c, name)
            if mm is not None and mm.kind == "func":
                guarded = True
                # a state made from the instance __dict__ keeps the memo out
                # only if it removes the attribute the decorator stores in
                # (pytools.memoize_method: _memoize_dic_<method name>;
                # functools.cached_property: the method's own name)
                from_dict = any(isinstance(x, ast.Attribute) and
                                x.attr == "__dict__" for x in ast.walk(mm.node))
                if from_dict:
                    slot = {"memoize_method": "_memoize_dic___hash__",
                            "cached_property": "__hash__"}.get(memo[0])
                    removed = {x.value for x in ast.walk(mm.node)
                               if isinstance(x, ast.Constant)
                               and isinstance(x.value, str)}
                    if slot is None or slot not in removed:
                        guarded = False
        ctx.ob(f"S/pickle/memoized-hash/{c.name}", guarded, c.module.loc(h.node),
               f"{c.name} defines its own pickle state" if guarded else
               f"{c.name}.__hash__ is memoized on the instance ({memo[0]}) and "
               f"{c.name} pickles its instance __dict__ as it is: a hash computed "
               "before pickling is what the unpickled copy reports in a process "
               "with another hash seed, so an expression holding one is unequal "
               "to (and does not find) the same expression built there")
    ctx.floor("classes scanned for memoized hashes", n_cls, 150)


def _no_bypass(ctx, model):
    nt = model.nodes
    forbidden = {"__reduce__", "__reduce_ex__", "__getnewargs__",
                 "__getnewargs_ex__", "__slots__", "__copy__", "__deepcopy__"}
    n = 0
    for node in nt.all():
        own = set(node.cls.members)
        bad = sorted(own & forbidden)
        n += 1
        ctx.ob(f"S/state/{node.name}/no-pickle-bypass", not bad, node.cls.loc(),
               "uses the generated/legacy state protocol" if not bad else
               f"{node.name} defines {bad}, bypassing the field-tuple state",
               nontrivial=False)
        if node.decorated:
            bad = sorted(own & {"__getstate__", "__setstate__"})
            ctx.ob(f"S/state/{node.name}/no-own-state-methods", not bad,
                   node.cls.loc(),
                   "state methods come from the template" if not bad else
                   f"{node.name} defines its own {bad}, which the decorator "
                   "overwrites or which contradict the template")
    E = nt.expression
    bad = sorted(set(E.members) & forbidden)
    ctx.ob("S/state/Expression/no-pickle-bypass", not bad, E.loc(),
           "Expression defines no pickle bypass")
    ctx.floor("node classes checked for pickle bypass", n, 43)


def _legacy_state(ctx, model):
    E = model.cls(f"{PRIM}:Expression")
    SELF = ("param", "self")
    gs = E.members.get("__getstate__")
    ss = E.members.get("__setstate__")
    if gs is None or ss is None:
        raise AnalysisError("Expression.__getstate__/__setstate__ not found")
    ok = all(ps.term == "return" and ps.retval[0] == "call"
             and ps.retval[1] == "self.__getinitargs__"
             for ps in summarize(gs.node, plain=True))
    ctx.ob("S/legacy-state/getstate", ok, E.module.loc(gs.node),
           "legacy state = __getinitargs__()" if ok else
           "Expression.__getstate__ does not return __getinitargs__()")
    ok = True
    via_class_setattr = False
    for ps in summarize(ss.node, plain=True, loop_mode="01"):
        if ps.term == "raise":
            continue
        ws = [e for e in ps.events if e.kind == "call"
              and e.name == "object.__setattr__"]
        for w in ws:
            src = w.in_loops[-1] if w.in_loops else None
            good = src == ("zip", (("attr", SELF, "init_arg_names"),
                                   ("param", "state"))) and w.args[0] == SELF
            ok = ok and good
        other = [e for e in ps.events if e.kind == "attrwrite"]
        if other:
            ok = False
        plain = [e for e in ps.events if e.kind == "call" and e.name == "setattr"
                 and e.args and e.args[0] == SELF]
        if plain:
            via_class_setattr = True
        if any(it[0] == "for" for it in ps.items) and not ws and not plain:
            ok = False
    # the restore must not go through the class's own __setattr__: decorated
    # node classes are frozen dataclasses whenever __debug__ is on, and the
    # exact-number classes refuse rebinding; object.__setattr__ is the one
    # writer that works for every subclass in every optimisation mode
    ctx.ob("S/legacy-state/setstate-bypasses-frozen-setattr",
           not via_class_setattr, E.module.loc(ss.node),
           "fields are restored with object.__setattr__" if not via_class_setattr
           else "Expression.__setstate__ restores fields with setattr(self, ...): "
           "a legacy subclass of a decorated (frozen) node class, and "
           "Rational/Polynomial, raise on that unless Python runs with -O, so "
           "their pickles cannot be loaded in a normal interpreter")
    src = ast.unparse(ss.node)
    ok = ok and "_hash_value" not in src
    ctx.ob("S/legacy-state/setstate", ok, E.module.loc(ss.node),
           "legacy __setstate__ restores init_arg_names from the state, nothing "
           "else" if ok else
           "Expression.__setstate__ does not restore exactly "
           "zip(init_arg_names, state) (or touches the cached hash)")
    # legacy classes define __getinitargs__ over their stored attributes
    for name in ("Polynomial", "Rational"):
        n = model.nodes.get(name)
        gm = n.cls.members.get("__getinitargs__")
        init = n.cls.members.get("__init__")
        from ..rules import self_attrs_written
        stored = self_attrs_written(init.node) if init is not None else set()
        listed = set(f for f, _, _ in n.fields)
        ok = gm is not None and listed == stored
        # Expression.__setstate__ pairs init_arg_names with the state, which is
        # __getinitargs__(): the class must name, in the same order, the
        # attributes __getinitargs__ reads (the base's init_arg_names raises)
        ian = n.cls.members.get("init_arg_names")
        names = None
        if ian is not None and ian.kind in ("value", "ann"):
            v = ian.node.value if ian.kind == "ann" else ian.node
            if isinstance(v, (ast.Tuple, ast.List)) and all(
                    isinstance(e, ast.Constant) and isinstance(e.value, str)
                    for e in v.elts):
                names = [e.value for e in v.elts]
        got = []
        if gm is not None and gm.kind == "func":
            rets = [r for r in ast.walk(gm.node) if isinstance(r, ast.Return)]
            if len(rets) == 1 and isinstance(rets[0].value, ast.Tuple):
                for e in rets[0].value.elts:
                    if isinstance(e, ast.Attribute) and isinstance(
                            e.value, ast.Name) and e.value.id == "self":
                        got.append(e.attr)
                    else:
                        got.append(None)
            else:
                raise AnalysisError(f"{name}.__getinitargs__: expected one "
                                    "'return (self.a, self.b, ...)'")
        ok_names = names is not None and names == got
        ctx.ob(f"S/legacy-state/{name}/init_arg_names", ok_names, n.cls.loc(),
               f"init_arg_names names the attributes of __getinitargs__ in order "
               f"{names}" if ok_names else
               (f"{name} does not define init_arg_names: pickle.loads of a "
                f"pickled {name} ends in NotImplementedError "
                "(Expression.__setstate__ reads it)" if names is None else
                f"{name}.init_arg_names is {names} but __getinitargs__ returns "
                f"the attributes {got}: the state is restored into the wrong "
                "attributes"))
        ctx.ob(f"S/legacy-state/{name}/initargs-cover-attributes", ok,
               n.cls.loc(),
               f"__getinitargs__ returns every stored attribute {sorted(stored)}"
               if ok else
               f"{name}.__getinitargs__ returns {sorted(listed)} but __init__ "
               f"stores {sorted(stored)}: the rest is lost in a pickle")


def _compiled(ctx, model):
    ce = model.cls("pymbolic.compiler:CompiledExpression")
    fn = ce.members.get("_compile")
    gs = ce.members.get("__getstate__")
    ss = ce.members.get("__setstate__")
    if not (fn and gs and ss):
        raise AnalysisError("CompiledExpression pickling methods not found")
    params = [a.arg for a in fn.node.args.args][1:]
    stored = {}
    from ..rules import rebuild_state_agrees
    ok, state_attrs = rebuild_state_agrees(ce)
    state = ",".join(str(a) for a in state_attrs)
    ctx.ob("S/compiled/pickle-state", ok, ce.loc(),
           "state = _compile's arguments in order; __setstate__ re-compiles"
           if ok else
           "CompiledExpression's pickled state does not match _compile's "
           "parameters, or __setstate__ does not re-compile")
    ok = "_code" not in state
    ctx.ob("S/compiled/code-not-pickled", ok, ce.loc(),
           "the code object is not part of the state")


# ---------------------------------------------------------------------------

def _digest(ctx, model):
    ph = model.cls(f"{PH}:PersistentHashWalkMapper")
    nt = model.nodes
    # 1. every value reaching key_hash.update
    n_sinks = 0
    called = {c.func.attr for mm in ph.members.values() if mm.kind == "func"
              for c in ast.walk(mm.node) if isinstance(c, ast.Call)
              and isinstance(c.func, ast.Attribute)
              and isinstance(c.func.value, ast.Name) and c.func.value.id == "self"}
    for name, mem in ph.members.items():
        if mem.kind != "func":
            continue
        if name.startswith("_") and not name.startswith("__") and \
                name in called:
            # a private helper: judged where it is used (the summaries of its
            # callers read it as its body, with their arguments in place)
            continue
        for ps in summarize(model.inlined(mem.node)):
            for e in ps.events:
                if e.kind == "selfattrcall" and e.value == ("self", "key_hash") \
                        and e.name == "update":
                    n_sinks += 1
                    v = e.args[0] if e.args else None
                    ok, why = _stable_bytes(v, ps)
                    ctx.ob(f"T/digest/{name}/input:{_short(v)}", ok,
                           ph.module.loc(e.node),
                           f"feeds {why}" if ok else
                           f"PersistentHashWalkMapper.{name} feeds {why} into "
                           "the digest, which differs between processes")
    ctx.floor("digest sinks", n_sinks, 4)
    # 2. handlers it resolves to: iteration over mapping-valued fields
    for n, res, chain, mem in mapper_node_pairs(model, ph):
        if mem is None or mem.kind != "func" or is_raising(mem) or \
                res.via in ("unsupported", "foreign"):
            continue
        kinds = child_kinds(n)
        for f, k in kinds.items():
            if k != CHILD_MAP or (n.legacy and n.name != "MultiVector"):
                continue
            # how does the handler iterate the mapping?
            verdict = _mapping_iteration(model, n, mem, f)
            ctx.ob(f"S/digest/{n.name}.{f}/canonical-order", verdict == "ok",
                   where(mem),
                   f"{n.name}.{f} is walked in a canonical (sorted) order"
                   if verdict == "ok" else
                   f"{mem.owner.name}.{mem.node.name} walks {n.name}.{f} "
                   f"{verdict}: two equal nodes built with the keyword arguments "
                   "in a different order get different persistent keys")
    # 2b. numpy scalars are normalised to Python scalars before repr(): the
    # isinstance test must cover every numpy class that primitives registers as
    # a constant class (equal constants np.True_ / True must give one digest)
    mc = ph.members.get("map_constant")
    registered, missing = numpy_constants_not_normalised(model, mc)
    if registered:
        ctx.ob("T/digest/map_constant/numpy-normalised", not missing,
               ph.loc(), f"numpy constants {sorted(registered)} are converted to "
               "Python scalars before repr()" if not missing else
               f"map_constant normalises numpy scalars with an isinstance test "
               f"that does not cover numpy.{', numpy.'.join(missing)} (registered "
               "as constant classes in primitives): equal constants such as "
               "np.True_ and True then get different persistent keys")
    # 3. no use of hash()/id() anywhere in the class
    src = ast.unparse(ph.node)
    bad = [c for c in ast.walk(ph.node) if isinstance(c, ast.Call)
           and isinstance(c.func, ast.Name) and c.func.id in ("hash", "id")]
    ctx.ob("T/digest/no-hash-or-id", not bad, ph.loc(),
           "neither hash() nor id() is used" if not bad else
           "PersistentHashWalkMapper calls hash()/id(), which are "
           "process-dependent")


def _short(v):
    s = str(v)
    return s if len(s) < 60 else s[:57] + "..."


def _stable_bytes(v, ps=None):
    """v should be <stable str>.encode(...) or a bytes literal"""
    if v is None:
        return False, "nothing"
    if v[0] == "const" and isinstance(v[1], bytes):
        return True, "a fixed byte string"
    if v[0] == "call" and v[1].endswith(".encode") and (
            len(v) >= 5 or v[1] == "node.encode"):
        recv = v[4][1] if len(v) >= 5 else NODE
        ok, why = _stable_str(recv)
        if not ok and ps is not None:
            # the characters of something the path knows to be a str
            for _, pol, c in ps.conds:
                if pol and isinstance(c, tuple) and c[0] == "call" and \
                        c[1] == "isinstance" and c[2][0] == recv and \
                        c[2][1] == ("global", "str"):
                    return True, "the characters of a string"
        return ok, why
    return False, f"a non-bytes value {_short(v)}"


def _stable_str(r):
    if r == ("attr", ("typeof", NODE), "__name__"):
        return True, "the node's type name"
    if r[0] == "attr" and r[1] == NODE and r[2] in ("name",):
        return True, "the variable name"
    if r[0] == "key":
        return True, "a keyword-argument name"
    if r[0] == "call" and r[1] == "repr" and len(r[2]) == 1:
        a = r[2][0]
        if a == NODE or (a[0] == "call" and a[1].endswith(".item")) or (
                a[0] == "attr" and a[1] == NODE and a[2] == "operator"):
            return True, "repr of a constant / operator string"
        if a[0] == "field" or (a[0] == "attr" and a[1] == NODE):
            return True, f"repr of field {a[-1]}"
        if a[0] == "const" and (a[1] is None or isinstance(
                a[1], (str, int, bool))):
            return True, "repr of a literal"
        if a[0] == "anyof":
            # one of several values (an entry of a literal tuple)
            subs = [_stable_str(("call", "repr", (x,), ())) for x in a[1]]
            if all(ok for ok, _ in subs):
                return True, "repr of " + " / ".join(w[8:] if w.startswith(
                    "repr of ") else w for _, w in subs)
        # one entry of a field (names, numbers, nodes: data whose repr is the
        # same in every process)
        src_ = a[1] if a[0] in ("elem", "index") and isinstance(
            a[1], tuple) else None
        if src_ is not None and src_[0] == "copy" and isinstance(
                src_[1], tuple):
            src_ = src_[1]          # tuple(field) / list(field): the same entries
        if src_ is not None and (
                src_[0] == "field" or (src_[0] == "attr" and src_[1] == NODE)):
            return True, f"repr of an entry of field {src_[-1]}"
        if a[0] == "key" and isinstance(a[1], tuple) and (
                a[1][0] == "field" or (a[1][0] == "attr" and a[1][1] == NODE)):
            # keys of a mapping-valued field are names or numbers (keyword
            # names, blade bit patterns)
            return True, f"repr of a key of field {a[1][-1]}"
        return False, f"repr({_short(a)})"
    if r[0] == "call" and r[1] == "str":
        return _stable_str(("call", "repr", r[2], ()))
    if r[0] == "fstring":
        # literal text and lengths
        if all(x[0] == "const" or x[0] == "len" for x in r[1]):
            return True, "literal text and a length"
    if r[0] == "call" and r[1] in ("hash", "id"):
        return False, f"{r[1]}() of an object"
    return False, f"{_short(r)}"


def _mapping_iteration(model, n, mem, f):
    for ps in handler_summaries(model, n, mem.node):
        for e in ps.events:
            if e.kind == "rec" and base_field(e.arg) == f:
                loops = [l for l in e.in_loops if base_field(l) == f]
                if not loops:
                    return "without iterating it"
                lp = loops[-1]
                sorted_ = contains(lp, lambda t: t[0] == "sorted")
                with_keys = contains(lp, lambda t: t[0] == "items")
                if not sorted_:
                    return "in insertion order"
                return "ok"
    return "not at all"
