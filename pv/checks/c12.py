"""C12 -- common-subexpression handling (structural part)."""
from __future__ import annotations

import ast

from .. import AnalysisError
from ..model import ClassInfo
from ..rules import effective_member, handler_summaries, where
from ..summary import NODE, contains, content, summarize
from .c05 import check_cse_mixin

PRIM = "pymbolic.primitives"
CSE = "pymbolic.cse"
TAG = "pymbolic.mapper.cse_tagger"
M = "pymbolic.mapper"

MIXIN_USERS = [
    "pymbolic.mapper.evaluator:EvaluationMapper",
    "pymbolic.mapper.evaluator:CachedEvaluationMapper",
    "pymbolic.mapper.dependency:DependencyMapper",
    "pymbolic.mapper.dependency:CachedDependencyMapper",
    "pymbolic.mapper.differentiator:DifferentiationMapper",
    "pymbolic.mapper.constant_folder:ConstantFoldingMapper",
    "pymbolic.mapper.constant_folder:CommutativeConstantFoldingMapper",
]


def run(ctx):
    model = ctx.model
    ctx.decide("no wrapper directly around a wrapper: every construction site of "
               "a CommonSubexpression in cse.py / cse_tagger.py / the two helpers "
               "is on a path where the argument is known not to be a plain "
               "wrapper, or goes through wrap_in_cse, or strips a plain wrapper "
               "first; mappers that create wrappers do not rebuild an outer "
               "wrapper around an unstripped mapped child")
    ctx.decide("order-normalised keys for exactly (Sum, Product), one key getter "
               "shared by counting and rewriting; repeated keys are not "
               "re-counted below; CSEMapper intercepts the seven arithmetic node "
               "kinds and rebuilds through the identity handler of the same name")
    ctx.decide("once-only evaluation: look-aside rule on the CSE caching mix-in "
               "and the mix-in winning the MRO in every mapper that uses it")
    ctx.decide("helpers: constants, variables, subscripts and (scope-compatible) "
               "wrappers are returned unwrapped; multivectors and object arrays "
               "are wrapped componentwise")
    ctx.decline("that tagging finds all repeats and preserves value")
    ctx.assume("wrap_in_cse is the only sanctioned way to put a wrapper around "
               "something that may already be one")

    _wrap_in_cse(ctx, model)
    _make_cse(ctx, model)
    _key_getter(ctx, model)
    _use_count(ctx, model)
    _cse_mapper(ctx, model)
    _tagger(ctx, model)
    _entry(ctx, model)
    check_cse_mixin(ctx, model)
    _mixin_mro(ctx, model)
    _cache_lifetime(ctx, model)


def _is_cse_ctor(v):
    return isinstance(v, tuple) and v and v[0] == "call" and v[1].split(".")[-1] \
        == "CommonSubexpression"


def _guard_kind(v, P):
    if isinstance(v, tuple) and v and v[0] == "call" and v[1] == "isinstance" \
            and v[2][0] == P:
        s = str(v[2][1])
        if "Variable" in s and "Subscript" in s:
            return "leaf"
        if "CommonSubexpression" in s:
            return "cse"
    if isinstance(v, tuple) and v and v[0] == "call" and v[1] == "is_constant" \
            and v[2] == (P,):
        return "const"
    return None


def _guard_facts(ps, P):
    """(kind, polarity) facts a path knows about P; a disjunction of the
    'stays unwrapped' kinds taken as true is reported as 'leaf-or-const'"""
    from ..summary import facts_of
    out = []
    for _, pol0, v0 in ps.conds:
        if not isinstance(v0, tuple):
            continue
        for v, pol in facts_of(v0, pol0):
            k = _guard_kind(v, P)
            if k:
                out.append((k, pol))
            elif isinstance(v, tuple) and v and v[0] == "boolop" and \
                    v[1] == "Or" and pol and all(
                        _guard_kind(x, P) in ("leaf", "const") for x in v[2]):
                out.append(("leaf-or-const", True))
    return out


def _wrap_in_cse(ctx, model):
    m, fn = model.func(f"{PRIM}:wrap_in_cse")
    loc = m.loc(fn)
    P = ("param", "expr")
    kinds = set()
    for ps in summarize(fn, plain=True):
        if ps.term != "return":
            ctx.ob("O/wrap_in_cse/falls-off", False, loc,
                   "wrap_in_cse can return None")
            continue
        is_leaf = is_cse = is_const = None
        for kind_, pol in _guard_facts(ps, P):
            if kind_ == "leaf":
                is_leaf = pol
            elif kind_ == "cse":
                is_cse = pol
            elif kind_ == "const":
                is_const = pol
            elif kind_ == "leaf-or-const" and pol:
                # one of the kinds that stay unwrapped, whichever
                is_leaf = is_leaf if is_leaf is not None else True
                is_const = True if is_const is None else is_const
        rv = ps.retval
        if rv == P:
            kinds.add("unchanged")
            if is_const is True:
                kinds.add("constant-unchanged")
            ok = is_leaf is True or is_cse is True or is_const is True
            ctx.ob("O/wrap_in_cse/unchanged", ok, loc,
                   "variables, subscripts and wrappers are returned as they are"
                   if ok else
                   "wrap_in_cse returns its argument unwrapped on a path where it "
                   "is not known to be a variable, subscript or wrapper")
        elif _is_cse_ctor(rv):
            arg = rv[2][0]
            if arg == P:
                kinds.add("wrap")
                ok = is_cse is False and is_leaf is False
                # containers are not wrapped whole: "apply componentwise to
                # object arrays and multivectors" is said of both helpers
                from ..summary import facts_of
                ruled_out = set()
                for _, pol, c in ps.conds:
                    if not isinstance(c, tuple):
                        continue
                    if c == ("except", "ImportError") and pol:
                        # numpy cannot be imported: there are no arrays
                        ruled_out.add("ndarray")
                        continue
                    for at, p_ in facts_of(c, pol):
                        if isinstance(at, tuple) and at and at[0] == "call" and \
                                at[1] == "isinstance" and at[2][0] == P and not p_:
                            r_ = repr(at[2][1])
                            for k in ("MultiVector", "ndarray"):
                                if k in r_:
                                    ruled_out.add(k)
                okc = ruled_out == {"MultiVector", "ndarray"}
                ctx.ob("K/wrap_in_cse/componentwise", okc, loc,
                       "object arrays and multivectors never get a wrapper as a "
                       "whole" if okc else
                       "wrap_in_cse puts one wrapper around its argument without "
                       "having ruled out that it is an object array or a "
                       "multivector: wrap_in_cse(numpy.array([x + y, x*y], "
                       "dtype=object)) is CSE(array(...)), not an array of "
                       "wrapped entries")
                ctx.ob("O/wrap_in_cse/constants-left-unwrapped", is_const is False,
                       loc, "a constant is never wrapped" if is_const is False
                       else "wrap_in_cse puts a wrapper around its argument "
                       "without having ruled out that it is a constant: "
                       "wrap_in_cse(5) is CommonSubexpression(5)")
                ctx.ob("O/wrap_in_cse/wraps-only-non-wrappers", ok, loc,
                       "a new wrapper is put only around a non-wrapper, "
                       "non-variable, non-subscript" if ok else
                       "wrap_in_cse wraps its argument on a path where it may "
                       "already be a wrapper (or is a variable/subscript)")
            elif arg == ("attr", P, "child"):
                kinds.add("rewrap-child")
                ok = is_cse is True
                ctx.ob("O/wrap_in_cse/rewrap-child", ok, loc,
                       "an unprefixed plain wrapper is rebuilt around its *child* "
                       "with the new prefix" if ok else
                       "wrap_in_cse re-wraps .child of something not known to be "
                       "a wrapper")
            else:
                ctx.ob("O/wrap_in_cse/ctor-arg", False, loc,
                       f"wrap_in_cse builds a wrapper around {arg}")
        elif rv[0] == "call" and rv[1] == "make_common_subexpression" and \
                rv[2] and rv[2][0] == P:
            # containers are handed to the componentwise helper (whose own
            # rules are K/make_common_subexpression/*)
            kinds.add("delegated")
        else:
            ctx.ob("O/wrap_in_cse/exit", False, loc,
                   f"unexpected result {ast.unparse(ps.items[-1][1])}")
    need = {"unchanged", "wrap", "rewrap-child"}
    ctx.ob("O/wrap_in_cse/exits", need <= kinds, loc, f"exits {sorted(kinds)}"
           if need <= kinds else f"wrap_in_cse lacks {sorted(need - kinds)}")


def _make_cse(ctx, model):
    m, fn = model.func(f"{PRIM}:make_common_subexpression")
    loc = m.loc(fn)
    F = ("param", fn.args.args[0].arg)
    saw = set()
    pss = summarize(fn, plain=True, loop_mode="1")
    for ps in pss:
        if ps.term != "return":
            continue
        rv = ps.retval
        conds = [(pol, v) for _, pol, v in ps.conds if isinstance(v, tuple)]
        if rv == F:
            cse_guard = any(pol and contains(v, lambda t: t[0] == "call"
                                             and t[1] == "isinstance"
                                             and t[2][0] == F
                                             and "CommonSubexpression" in str(t[2][1]))
                            for pol, v in conds)
            const_guard = any(pol and v[0] == "call" and v[1] == "is_constant"
                              and v[2] == (F,) for pol, v in conds)
            gf = _guard_facts(ps, F)
            leaf_guard = ("leaf", True) in gf or ("leaf-or-const", True) in gf
            const_guard = const_guard or ("const", True) in gf
            saw.add("as-is")
            ctx.ob("O/make_common_subexpression/returned-as-is",
                   cse_guard or const_guard or leaf_guard, loc,
                   "only wrappers, constants, variables and subscripts are "
                   "returned unwrapped")
        elif _is_cse_ctor(rv):
            saw.add("wrap")
            gf = _guard_facts(ps, F)
            not_const = ("const", False) in gf
            ok = rv[2][0] == F and not_const
            not_leaf = ("leaf", False) in gf
            if rv[2][0] == F:
                ctx.ob("O/make_common_subexpression/variables-left-unwrapped",
                       not_leaf, loc,
                       "a variable or subscript is never wrapped" if not_leaf else
                       "make_common_subexpression puts a wrapper around its "
                       "argument without having ruled out that it is a variable "
                       "or subscript: make_common_subexpression(Variable('x')) is "
                       "CommonSubexpression(x)")
            ctx.ob("O/make_common_subexpression/wraps-non-constants", ok, loc,
                   "a wrapper is put around a non-constant scalar" if ok else
                   "make_common_subexpression wraps a constant or something other "
                   "than its argument")
        elif rv[0] == "call" and rv[1] == "MultiVector":
            saw.add("multivector")
        elif rv[0] == "call" and "zeros" in rv[1] or rv[0] in ("call",) and \
                "numpy" in rv[1]:
            saw.add("array")
    # componentwise recursion for multivector and array branches: whatever is
    # put into the rebuilt container is either the recursive call on the
    # component being visited or (arrays) that component when it is constant
    ok = _componentwise(pss, fn.name, F)
    ctx.ob("K/make_common_subexpression/componentwise", ok, loc,
           "multivector coefficients and object-array entries are wrapped one by "
           "one" if ok else
           "make_common_subexpression does not recurse into every multivector "
           "coefficient / array entry")
    ctx.ob("O/make_common_subexpression/exits", {"as-is", "wrap"} <= saw, loc,
           f"exits {sorted(saw)}")


def _componentwise(pss, self_name, F):
    """Every path that returns a rebuilt container (mapping over the items of
    an attribute of *field*, or array filled over ``ndindex`` of its shape)
    fills each slot from the matching component through *self_name*."""
    from ..summary import contains

    def of_field(v):
        return contains(v, lambda x: x == F)

    def self_call_on(v, comp):
        return isinstance(v, tuple) and v[0] == "call" and v[1] == self_name \
            and v[2] and v[2][0] == comp

    kinds = set()
    for ps in pss:
        if ps.term != "return" or not isinstance(ps.retval, tuple):
            continue
        hits = []
        contains(ps.retval, lambda x: hits.append(x) or False
                 if isinstance(x, tuple) and x and x[0] in ("dict", "dictextend")
                 else False)
        if not hits and ps.retval[0] == "call" and of_field(ps.retval) and any(
                isinstance(v, tuple) and contains(
                    v, lambda x: x[0] == "elem" and isinstance(x[1], tuple)
                    and x[1] and x[1][0] == "call"
                    and str(x[1][1]).endswith("ndindex"))
                for _, v in _conds(ps)):
            # the container comes back as it was created although the loop
            # over its slots ran: a slot was passed over (left at the filler)
            return False
        for h in hits:
            if h[0] == "dict":
                # ('dict', key, value, ('items', M) [, filters])
                src = h[3]
                if not (isinstance(src, tuple) and src[0] == "items"
                        and of_field(src[1])):
                    continue
                if len(h) > 4 and h[4]:
                    return False            # a filter drops coefficients
                if not self_call_on(h[2], ("val", src[1])):
                    return False
                kinds.add("mapping")
            else:
                # ('dictextend', base, key, value, iter)
                _, base, key, val, it = h[:5]
                if not (isinstance(it, tuple) and it[0] == "call"
                        and it[1].endswith("ndindex") and of_field(it)):
                    continue
                if key != ("elem", it):
                    return False
                comp = ("index", F, None, key)
                if val == comp:
                    if not any(pol and isinstance(v, tuple) and v[0] == "call"
                               and v[1] == "is_constant" and v[2] == (comp,)
                               for pol, v in _conds(ps)):
                        return False
                elif not self_call_on(val, comp):
                    return False
                kinds.add("array")
    return kinds == {"mapping", "array"}


def _conds(ps):
    return [(pol, v) for _, pol, v in ps.conds if isinstance(v, tuple)]


def _judge_counting(model):
    """interpretive judges for the counting phase (pv/absint.py):
    NormalizedKeyGetter.__call__ on token nodes -- two commutative nodes get
    equal keys iff they have the same class and the same multiset of operands,
    any other node is its own key; UseCountMapper.visit on a sequence of nodes
    -- returns True exactly at the first encounter of a key and counts every
    encounter.  -> (witnesses for the key getter, witnesses for visit)"""
    import collections
    import itertools
    from ..absint import Interp, Opaque, Raised

    class Tok:
        def __init__(self, cls_, children=()):
            self.cls_, self.children = cls_, tuple(children)

        def __repr__(self):
            return f"{self.cls_}{list(self.children)}"
    kg = model.cls(f"{CSE}:NormalizedKeyGetter")
    call = kg.members["__call__"].node
    comm_names = []
    val = model.module_assigns[f"{CSE}:COMMUTATIVE_CLASSES"][1]
    if isinstance(val, ast.Tuple):
        comm_names = [e.attr if isinstance(e, ast.Attribute) else ast.unparse(e)
                      for e in val.elts]

    def mk():
        def isinst(it, n_, a, k):
            what = getattr(a[1], "what", "")
            if what == "COMMUTATIVE":
                return isinstance(a[0], Tok) and a[0].cls_ in comm_names
            _r = __import__("pv.absint", fromlist=["x"]).default_isinstance(a[0], a[1])
            if _r is not None:
                return _r
            raise AnalysisError(f"isinstance(..., {a[1]!r})")

        def attrs(it, n_, base, attr):
            if isinstance(base, Tok) and attr == "children":
                return base.children
            return Opaque(ast.unparse(n_))
        return Interp(calls={
            "isinstance": isinst,
            "type": lambda it, n_, a, k: ("type", a[0].cls_),
            "Counter": lambda it, n_, a, k: collections.Counter(a[0]),
            "collections.Counter": lambda it, n_, a, k: collections.Counter(a[0]),
        }, attrs=attrs, globals_={"COMMUTATIVE_CLASSES": Opaque("COMMUTATIVE")},
            max_steps=20000)
    leaves = ["a", "b", "c"]
    nodes = []
    for cls_ in ("Sum", "Product", "Power", "BitwiseOr", "Min", "Quotient"):
        for k in (2, 3) if cls_ in ("Sum", "Product", "Power") else (2,):
            for ch in itertools.product(leaves, repeat=k):
                nodes.append(Tok(cls_, ch))
    keys = {}
    w1 = []
    for nd in nodes:
        try:
            keys[nd] = mk().call_function(call, [Opaque("self"), nd], {})
        except Raised as r:
            w1.append(f"key of {nd}: raises at line {r.node.lineno}")
            return w1, []
    for x, y in itertools.combinations(nodes, 2):
        same_key = keys[x] == keys[y]
        if x.cls_ in ("Sum", "Product"):     # the property's two classes
            want = x.cls_ == y.cls_ and collections.Counter(
                x.children) == collections.Counter(y.children)
        else:
            want = False          # every other node is its own key
        if same_key != want and len(w1) < 5:
            w1.append(f"{x} and {y}: keys {'equal' if same_key else 'differ'}, "
                      f"expected {'equal' if want else 'different'}")
    for nd in nodes:
        if nd.cls_ not in ("Sum", "Product") and keys[nd] is not nd and \
                len(w1) < 5:
            w1.append(f"{nd} (not commutative) is not its own key: {keys[nd]!r}")
    # UseCountMapper.visit
    uc = model.cls(f"{CSE}:UseCountMapper")
    visit = uc.members["visit"].node
    w2 = []
    seqs = [["k1"], ["k1", "k1"], ["k1", "k2", "k1", "k1"], ["k1", "k2", "k2"]]
    for seq in seqs:
        counts = {}

        class Mp:
            pass
        mp = Mp()

        def attrs(it, n_, base, attr):
            if base is mp and attr == "subexpr_counts":
                return counts
            if base is mp and attr == "get_key":
                return lambda e_: e_
            return Opaque(ast.unparse(n_))
        rets = []
        try:
            for kx in seq:
                it = Interp(attrs=attrs, max_steps=5000)
                rets.append(it.call_function(visit, [mp, kx], {}))
        except Raised as r:
            w2.append(f"visits {seq}: raises at line {r.node.lineno}")
            continue
        want_rets = [seq.index(kx) == i for i, kx in enumerate(seq)]
        want_counts = dict(collections.Counter(seq))
        if [bool(r_) for r_ in rets] != want_rets or any(
                not isinstance(r_, bool) for r_ in rets) or counts != want_counts:
            w2.append(f"visits {seq}: returns {rets}, counts {counts}; expected "
                      f"{want_rets}, {want_counts}")
    return w1, w2


def _key_getter(ctx, model):
    try:
        w1, _ = _judge_counting(model)
    except AnalysisError as e:
        ctx.extra["judge_unavailable:NormalizedKeyGetter"] = str(e)
        _key_getter_structural(ctx, model)
        return
    kg_ = model.cls(f"{CSE}:NormalizedKeyGetter")
    ctx.ob("T0/NormalizedKeyGetter/key-semantics", not w1, kg_.loc(),
           "keys of 108 token nodes: equal exactly for commutative nodes of one "
           "class with the same multiset of operands; any other node is its own "
           "key" if not w1 else "NormalizedKeyGetter: " + "; ".join(w1[:3]))
    mark = len(ctx.obs)
    try:
        _key_getter_structural(ctx, model)
    except AnalysisError:
        if w1:
            raise
    if not w1:
        ctx.withdraw_failures_since(mark, "decided by interpreting the key "
                                    "getter on token nodes")


def _key_getter_structural(ctx, model):
    m = model.repo.module(CSE)
    key = f"{CSE}:COMMUTATIVE_CLASSES"
    if key not in model.module_assigns:
        raise AnalysisError("COMMUTATIVE_CLASSES not found")
    val = model.module_assigns[key][1]
    names = sorted(e.attr if isinstance(e, ast.Attribute) else ast.unparse(e)
                   for e in val.elts) if isinstance(val, ast.Tuple) else None
    ctx.ob("T/NormalizedKeyGetter/commutative-classes", names == ["Product", "Sum"],
           m.loc(val), "order-insensitive for exactly (Sum, Product)" if
           names == ["Product", "Sum"] else
           f"COMMUTATIVE_CLASSES is {names}: operand order is ignored for a "
           "non-commutative node type, or respected for Sum/Product")
    kg = model.cls(f"{CSE}:NormalizedKeyGetter")
    mem = kg.members.get("__call__")
    loc = kg.module.loc(mem.node)
    saw = set()
    for ps in summarize(mem.node, loop_mode="01"):
        if ps.term != "return":
            continue
        comm = None
        for _, pol, v in ps.conds:
            if isinstance(v, tuple) and v[0] == "call" and v[1] == "isinstance" \
                    and v[2][0] == NODE and v[2][1] == ("global",
                                                        "COMMUTATIVE_CLASSES"):
                comm = pol
        rv = ps.retval
        if comm is False:
            saw.add("plain")
            ctx.ob("T/NormalizedKeyGetter/plain-key", rv == NODE, loc,
                   "other nodes are their own key" if rv == NODE else
                   "the key of a non-commutative node is not the node itself")
        elif comm is True:
            saw.add("multiset")
            ok = rv[0] == "lit" and len(rv[2]) == 2 and rv[2][0] == ("typeof",
                                                                     NODE) \
                and rv[2][1][0] == "call" and rv[2][1][1] == "frozenset" \
                and rv[2][1][2] and rv[2][1][2][0][0] == "items"
            ctx.ob("T/NormalizedKeyGetter/multiset-key", ok, loc,
                   "commutative nodes: (type, multiset of children)" if ok else
                   "the key of a Sum/Product is not (type(expr), "
                   "frozenset(child counts))")
    from ..rules import counter_writes
    CH = ("elem", ("attr", NODE, "children"))
    cw = counter_writes(summarize(mem.node, loop_mode="1"),
                        key_pred=lambda k: k == CH)
    ok = bool(cw) and all(kind == "incr" for _, _, kind in cw)
    ctx.ob("T/NormalizedKeyGetter/counts-every-child", ok, loc,
           "multiplicities of all children are counted" if ok else
           "child multiplicities are not counted over all children")
    ctx.ob("T/NormalizedKeyGetter/exits", saw == {"plain", "multiset"}, loc,
           f"exits {sorted(saw)}")


def _use_count(ctx, model):
    try:
        _, w2 = _judge_counting(model)
    except AnalysisError as e:
        ctx.extra["judge_unavailable:UseCountMapper.visit"] = str(e)
        _use_count_structural(ctx, model)
        return
    uc_ = model.cls(f"{CSE}:UseCountMapper")
    ctx.ob("P0/UseCountMapper.visit/count-semantics", not w2, uc_.loc(),
           "visit interpreted on key sequences: True at the first encounter only, "
           "every encounter counted" if not w2 else
           "UseCountMapper.visit: " + "; ".join(w2[:3]))
    mark = len(ctx.obs)
    try:
        _use_count_structural(ctx, model)
    except AnalysisError:
        if w2:
            raise
    if not w2:
        ctx.withdraw_failures_since(mark, "decided by interpreting visit on key "
                                    "sequences")


def _use_count_structural(ctx, model):
    uc = model.cls(f"{CSE}:UseCountMapper")
    mem = uc.members.get("visit")
    loc = uc.module.loc(mem.node)
    saw = set()
    for ps in summarize(mem.node):
        if ps.term != "return":
            continue
        known = None
        for _, pol, v in ps.conds:
            if isinstance(v, tuple) and v[0] == "compare" and v[1] in (
                    ("In",), ("NotIn",)) and v[3][0] == ("self", "subexpr_counts"):
                known = pol if v[1] == ("In",) else not pol
        key_ok = ps.env.get("key") == ("call", "self.get_key", (NODE,), ())
        if known is True:
            saw.add("repeat")
            ok = ps.retval == ("const", False) and key_ok
            ctx.ob("P/UseCountMapper.visit/repeat-stops", ok, loc,
                   "a repeated key is counted and not traversed again" if ok else
                   "UseCountMapper.visit does not return False for a repeated "
                   "key: occurrences below it are counted again")
        elif known is False:
            saw.add("new")
            ok = ps.retval == ("const", True) and key_ok
            ctx.ob("P/UseCountMapper.visit/new-continues", ok, loc,
                   "a new key is recorded and traversed" if ok else
                   "UseCountMapper.visit does not return True for a new key")
    ctx.ob("P/UseCountMapper.visit/paths", saw == {"repeat", "new"}, loc,
           f"paths {sorted(saw)}")
    from ..rules import counter_writes
    cw = counter_writes(summarize(mem.node))
    kinds = {kind for t, k, kind in cw if t == "self.subexpr_counts"}
    ok = kinds == {"incr", "init1"} and all(
        k == ("call", "self.get_key", (NODE,), ()) for t, k, _ in cw
        if t == "self.subexpr_counts")
    ctx.ob("P/UseCountMapper.visit/counts", ok, loc,
           "counts start at 1 and are incremented by 1")


INTERCEPTED = ["map_call", "map_floor_div", "map_power", "map_product",
               "map_quotient", "map_remainder", "map_sum"]


def _rebuild_ok(model, mapper, mem, ctx, tag):
    """rule: the resolved map_common_subexpression of a wrapper-creating
    mapper never rebuilds an outer wrapper around an unstripped mapped child"""
    n = model.nodes.get("CommonSubexpression")
    bad = []
    for ps in handler_summaries(model, n, mem.node):
        if ps.term != "return":
            continue
        rv = ps.retval
        if rv[0] == "ctor" or _is_cse_ctor(rv):
            arg0 = rv[2][0] if rv[2] else None
            if arg0 is not None and arg0[0] == "rec":
                stripped_known = any(
                    (not pol) and isinstance(v, tuple) and v[0] == "compare"
                    and v[1] == ("Is",) and v[2] == ("typeof", arg0)
                    for _, pol, v in ps.conds)
                if not stripped_known:
                    bad.append(ast.unparse(ps.items[-1][1]))
    return bad


def _creates_wrappers(cls):
    for mem in cls.members.values():
        if mem.kind == "func":
            for c in ast.walk(mem.node):
                if isinstance(c, ast.Call) and ast.unparse(c.func).split(".")[-1] \
                        in ("CommonSubexpression", "wrap_in_cse"):
                    return True
    return False


def _cse_mapper(ctx, model):
    cm = model.cls(f"{CSE}:CSEMapper")
    own = sorted(s for s in model.own_slots(cm))
    want = sorted(INTERCEPTED + ["map_common_subexpression", "map_substitution"])
    missing = sorted(set(want) - set(own))
    ctx.ob("O/CSEMapper/interceptors", not missing, cm.loc(),
           f"intercepts {INTERCEPTED}" if not missing else
           f"CSEMapper no longer intercepts {missing}: repeated nodes of that "
           "kind are never shared")
    base = cm.members.get("map_sum")
    for s in INTERCEPTED:
        mem = model.lookup(cm, s)
        ok = mem is not None and base is not None and mem.node is base.node
        ctx.ob(f"S/CSEMapper/{s}/shared-handler", ok, cm.loc(),
               "shares the eliminate-or-rebuild handler")
    # the shared handler
    if base is None:
        raise AnalysisError("CSEMapper.map_sum not found")
    ident_call = ("call", "getattr", (("global", "IdentityMapper"),
                                      ("attr", NODE, "mapper_method")), ())
    saw = set()
    for ps in summarize(base.node):
        if ps.term != "return":
            continue
        elim = None
        for _, pol, v in ps.conds:
            if isinstance(v, tuple) and v[0] == "compare" and v[1] == ("In",) \
                    and v[3][0] == ("self", "to_eliminate"):
                elim = pol
                key_ok = v[2] == ("call", "self.get_key", (NODE,), ())
        rv = ps.retval
        if elim is True:
            saw.add("eliminate")
            ok = rv[0] == "call" and rv[1] == "self.get_cse" and rv[2][0] == NODE \
                and key_ok
            ctx.ob("P/CSEMapper.map_sum/eliminate", ok, where(base),
                   "a repeated key is replaced by its canonical wrapper" if ok
                   else "the eliminate branch does not return get_cse(expr, key)")
        elif elim is False:
            saw.add("rebuild")
            ok = rv[0] == "dyncall" or (rv[0] == "call" and len(rv) >= 5
                                        and rv[4] == ident_call
                                        and rv[2] == (("selfobj",), NODE))
            ctx.ob("P/CSEMapper.map_sum/rebuild", ok, where(base),
                   "otherwise: the identity handler of the node's own name" if ok
                   else "the non-eliminate branch is not IdentityMapper's handler "
                   "of the same name applied to (self, expr)")
    ctx.ob("P/CSEMapper.map_sum/paths", saw == {"eliminate", "rebuild"},
           where(base), f"paths {sorted(saw)}")
    # get_cse: canonical table with look-aside
    gc = cm.members.get("get_cse")
    saw = set()
    for ps in summarize(gc.node):
        if ps.term != "return":
            continue
        from ..rules import lookup_case
        case = lookup_case(ps, lambda t: t == ("self", "canonical_subexprs"))
        missed = case == "miss"
        stores = [e for e in ps.events if e.kind == "itemwrite"
                  and e.arg == ("self", "canonical_subexprs")]
        if not missed:
            saw.add("hit")
            ok = ps.retval[0] == "index" and ps.retval[1] == (
                "self", "canonical_subexprs") and not stores
            ctx.ob("P/CSEMapper.get_cse/hit", ok, where(gc),
                   "a known key returns the one canonical wrapper" if ok else
                   "get_cse does not return the stored wrapper on a hit")
        else:
            saw.add("miss")
            rv = ps.retval
            ok = rv[0] == "call" and rv[1] == "prim.wrap_in_cse" and \
                len(stores) == 1 and stores[0].value == rv
            inner = rv[2][0] if ok else None
            ok = ok and inner[0] == "call" and len(inner) >= 5 and \
                inner[4] == ident_call
            ctx.ob("P/CSEMapper.get_cse/miss", ok, where(gc),
                   "a new key: wrap_in_cse(identity-mapped node), stored, "
                   "returned" if ok else
                   "get_cse does not build the wrapper through wrap_in_cse around "
                   "the identity-mapped node and store exactly that")
    ctx.ob("P/CSEMapper.get_cse/paths", saw == {"hit", "miss"}, where(gc),
           f"paths {sorted(saw)}")
    # no wrapper around wrapper in its own CSE handler
    mcs = effective_member(model, cm, "map_common_subexpression")
    bad = _rebuild_ok(model, cm, mcs, ctx, "CSEMapper")
    ctx.ob("O/CSEMapper/map_common_subexpression/no-double-wrap", not bad,
           where(mcs),
           "existing wrappers are rebuilt through wrap_in_cse or after stripping "
           "a plain wrapper from the mapped child" if not bad else
           f"CSEMapper.map_common_subexpression rebuilds a wrapper around an "
           f"unstripped mapped child: {bad}")
    plain_ok = False
    for ps in handler_summaries(model, model.nodes.get("CommonSubexpression"),
                                mcs.node):
        if ps.term != "return":
            continue
        # (the wrapper may be returned directly or via the canonical table)
        cands = [ps.retval] + [e.value for e in ps.events
                               if e.kind == "itemwrite"
                               and isinstance(e.value, tuple)]
        for v in cands:
            if isinstance(v, tuple) and v[0] == "call" and \
                    v[1] == "prim.wrap_in_cse":
                a = v[2]
                plain_ok = a[0] == ("rec", ("field", "child"), True, ()) and \
                    a[1] == ("field", "prefix")
    ctx.ob("O/CSEMapper/map_common_subexpression/plain-through-wrap_in_cse",
           plain_ok, where(mcs),
           "plain wrappers: wrap_in_cse(rec(child), prefix)" if plain_ok else
           "plain wrappers are not rebuilt as wrap_in_cse(rec(child), prefix)")
    # a pre-existing plain wrapper and the other occurrences of its child end
    # up in ONE wrapper: what the handler returns for a plain wrapper is the
    # canonical-table entry under the child's key -- read from the table, or
    # stored there on the same path
    TABLE = ("self", "canonical_subexprs")
    KEY = ("call", "self.get_key", (("field", "child"),), ())
    shared = True
    n_plain = 0
    for ps in handler_summaries(model, model.nodes.get("CommonSubexpression"),
                                mcs.node):
        plain = any(pol and isinstance(c, tuple) and c[0] == "compare"
                    and c[1] == ("Is",) and c[2] == ("typeof", NODE)
                    for _, pol, c in ps.conds)
        if not plain or ps.term != "return":
            continue
        n_plain += 1
        rv = ps.retval
        read = rv == ("index", TABLE, None, KEY)
        stored = any(e.kind == "itemwrite" and e.name == "self.canonical_subexprs"
                     and e.args == (KEY,) and e.value == rv for e in ps.events)
        shared = shared and (read or stored)
    ctx.ob("P/CSEMapper/map_common_subexpression/shares-with-bare-occurrences",
           shared and n_plain >= 1, where(mcs),
           "a plain wrapper's result is the canonical entry of its child" if
           shared and n_plain else
           "CSEMapper.map_common_subexpression builds a wrapper of its own for a "
           "pre-existing plain wrapper and does not enter it in (or take it "
           "from) canonical_subexprs under the child's key: "
           "tag_common_subexpressions([CSE(f(x), 'foo'), f(x)]) returns two "
           "distinct wrappers and f is evaluated twice")


def _tagger(ctx, model):
    tm = model.cls(f"{TAG}:CSETagMapper")
    wm = model.cls(f"{TAG}:CSEWalkMapper")
    # construction sites
    mc = tm.members.get("map_call")
    if mc is None:
        raise AnalysisError("CSETagMapper.map_call not found")
    saw = set()
    for ps in summarize(mc.node):
        if ps.term != "return":
            continue
        rv = ps.retval
        if _is_cse_ctor(rv):
            saw.add("wrap")
            # ... the node itself, or its identity-mapped copy (children
            # tagged first): a node of the same class either way, never a
            # wrapper
            a0 = rv[2][0] if len(rv[2]) == 1 else None
            ident = isinstance(a0, tuple) and a0[0] == "call" and len(a0) > 4 \
                and a0[2] == (("selfobj",), NODE) and a0[4][:2] == (
                    "call", "getattr") and a0[4][2] == (
                    ("global", "IdentityMapper"), ("attr", NODE, "mapper_method"))
            ok = a0 == NODE or ident
            ctx.ob("O/CSETagMapper/wraps-own-node", ok, where(mc),
                   "a repeated node is wrapped as a whole" if ok else
                   "CSETagMapper wraps something other than the repeated node "
                   "(or its identity-mapped copy)")
        else:
            saw.add("rebuild")
    ctx.ob("O/CSETagMapper/paths", saw == {"wrap", "rebuild"}, where(mc),
           f"paths {sorted(saw)}")
    # dispatch never reaches the wrapping handler with a wrapper class
    slots = [s for s in model.own_slots(tm)
             if model.lookup(tm, s).node is mc.node]
    ok = "map_common_subexpression" not in slots
    ctx.ob("O/CSETagMapper/wrapping-handler-not-for-wrappers", ok, tm.loc(),
           "the wrapping handler is not installed for wrapper nodes" if ok else
           "CSETagMapper installs its wrapping handler for "
           "map_common_subexpression: an existing wrapper is wrapped again")
    # ... and the handler that *is* reached by wrappers must not rebuild around
    # a freshly wrapped child
    mcs = effective_member(model, tm, "map_common_subexpression")
    bad = _rebuild_ok(model, tm, mcs, ctx, "CSETagMapper") if \
        _creates_wrappers(tm) else []
    ctx.ob("O/CSETagMapper/map_common_subexpression/no-double-wrap", not bad,
           where(mcs),
           "an existing wrapper is not rebuilt around a freshly wrapped child"
           if not bad else
           f"CSETagMapper wraps repeated nodes, but its handler for existing "
           f"wrappers ({mcs.owner.name}.map_common_subexpression) rebuilds the "
           f"outer wrapper around the mapped child as is ({bad[0]}): a wrapper "
           "whose child occurs more than once becomes CSE(CSE(child))")
    # histogram counts every visit
    v = wm.members.get("visit")
    from ..rules import counter_writes
    vps = summarize(v.node)
    cw = [x for x in counter_writes(vps) if x[0] == "self.subexpr_histogram"]
    ok = bool(cw) and all(k == NODE and kind == "incr" for _, k, kind in cw) \
        and all(ps.retval == ("const", True) for ps in vps
                if ps.term == "return") and any(ps.term == "return" for ps in vps)
    ctx.ob("P/CSEWalkMapper.visit/histogram", ok, where(v),
           "every visit increments the node's count")


def _entry(ctx, model):
    m, fn = model.func(f"{CSE}:tag_common_subexpressions")
    loc = m.loc(fn)
    param = fn.args.args[0].arg
    P = ("param", param)
    judged = False
    for ps in summarize(fn, plain=True, loop_mode="1"):
        if ps.term != "return":
            continue
        # a single expression handed in instead of an iterable of them is
        # outside the statement (refused today): whatever is done with it
        from ..summary import facts_of
        if any(pol and isinstance(v, tuple) and v and v[0] == "call"
               and v[1] == "isinstance" and v[2][0] == P
               and "Expression" in str(v[2][1])
               for _, pol0, v0 in ps.conds if isinstance(v0, tuple)
               for v, pol in facts_of(v0, pol0)):
            continue
        judged = True
        # list(exprs) holds the same expressions as exprs
        rv = content(ps.retval)
        ok_all = (rv[0] == "seq" and rv[3] == P and not rv[4]
                  and rv[2][0] == "call" and len(rv[2]) >= 5
                  and rv[2][2] == (("elem", P),))
        mapper = rv[2][4] if ok_all else None
        ok_mapper = bool(mapper) and mapper[0] == "call" and \
            mapper[1] == "CSEMapper" and len(mapper[2]) >= 2
        # every expression is counted first, by one UseCountMapper
        counted = [e for e in ps.events if e.kind == "call" and content(
            e.args) == (("elem", P),) and isinstance(e.value, tuple) and e.value
            and e.value[0] == "call" and e.value[1] == "UseCountMapper"]
        ctx.ob("P/tag_common_subexpressions/all-expressions",
               ok_all and ok_mapper and len(counted) == 1, loc,
               "all expressions are counted, then all are rewritten by one mapper"
               if ok_all and ok_mapper and counted else
               "not every expression is counted before / rewritten by the one "
               "CSEMapper")
        if not ok_mapper:
            continue
        elim, kg = mapper[2][:2]
        ucm = counted[0].value if counted else None
        same = ucm is not None and ucm[2] == (kg,)
        ctx.ob("S/tag_common_subexpressions/shared-key-getter", same, loc,
               "counting and rewriting use the same key getter" if same else
               "UseCountMapper and CSEMapper are not given the same key getter")
        COUNTS = ("attr", ucm, "subexpr_counts") if ucm else None

        def min_count(c, pol=True):
            """smallest count admitted by a comparison of the count with a
            constant, None if c is not such a comparison"""
            if not (isinstance(c, tuple) and c[0] == "compare" and len(c[1]) == 1):
                return None
            op, left, right = c[1][0], c[2], c[3][0]
            if left == ("val", COUNTS) and right[0] == "const":
                k = right[1]
            elif right == ("val", COUNTS) and left[0] == "const":
                k = left[1]
                op = {"Lt": "Gt", "LtE": "GtE", "Gt": "Lt", "GtE": "LtE"}.get(op)
            else:
                return None
            if not pol:
                op = {"Lt": "GtE", "LtE": "Gt", "Gt": "LtE", "GtE": "Lt"}.get(op)
            if op == "Gt":
                return k + 1
            if op == "GtE":
                return k
            return None

        thr = False
        if ucm and elim[0] == "seq" and elim[3] == ("items", COUNTS) and \
                elim[2] == ("key", COUNTS) and len(elim[4]) == 1:
            thr = min_count(getattr(elim[4][0], "val", None)) == 2
        elif ucm and elim[0] in ("extend", "seq") and \
                elim[2] == ("key", COUNTS) and elim[3] == ("items", COUNTS):
            thr = any(min_count(v, pol) == 2 for _, pol, v in ps.conds)
        elif ucm and elim in (("call", "set", (), ()), ("lit", "set", ())):
            continue      # the path on which the loop adds nothing
        ctx.ob("P/tag_common_subexpressions/threshold", thr, loc,
               "eliminates exactly the keys counted more than once" if thr else
               "the elimination set is not {key : count > 1} over the use counts")
    ctx.ob("P/tag_common_subexpressions/returns", judged, loc,
           "returning path analysed")


def _mixin_mro(ctx, model):
    n = 0
    for key in MIXIN_USERS:
        c = model.cls(key)
        mem = effective_member(model, c, "map_common_subexpression")
        ok = mem is not None and mem.owner.name == "CSECachingMapperMixin"
        n += 1
        ctx.ob(f"S/cse-mixin-mro/{c.name}", ok, c.loc(),
               "map_common_subexpression resolves to the caching mix-in" if ok
               else f"in {c.name}, map_common_subexpression resolves to "
               f"{mem.owner.name if mem else None}, not to the caching mix-in: a "
               "wrapper's child is computed once per occurrence")
        un = model.lookup(c, "map_common_subexpression_uncached")
        ok = un is not None and un.kind == "func" and \
            un.owner.name != "CSECachingMapperMixin"
        ctx.ob(f"S/cse-mixin-mro/{c.name}/uncached-defined", ok, c.loc(),
               "the uncached handler is implemented" if ok else
               f"{c.name} does not implement map_common_subexpression_uncached")
    # any other class deriving from the mix-in
    mx = model.cls(f"{M}:CSECachingMapperMixin")
    others = [c for c in model.subclasses(mx) if c is not mx
              and c.key not in MIXIN_USERS]
    for c in others:
        mem = effective_member(model, c, "map_common_subexpression")
        ok = mem is not None and mem.owner.name == "CSECachingMapperMixin"
        ctx.ob(f"S/cse-mixin-mro/{c.name}", ok, c.loc(),
               "mix-in wins the MRO" if ok else
               f"in {c.name} the mix-in does not win the MRO")
    ctx.floor("mix-in users", n, 7)
    # the evaluator's uncached handler evaluates the child
    ev = model.cls("pymbolic.mapper.evaluator:EvaluationMapper")
    un = ev.members.get("map_common_subexpression_uncached")
    ok = False
    if un is not None:
        from ..rules import sole_result
        ok = sole_result(un.node) in (("rec", ("attr", NODE, "child"), True, ()),
                                     ("rec", ("field", "child"), True, ()))
    ctx.ob("E/EvaluationMapper/cse-means-child", ok, ev.loc(),
           "a wrapper evaluates to its child")


def _reached_in_evaluation(family):
    """method names reachable through self.<name>(...) / super().<name>(...)
    from the entry points of an evaluation (__call__, rec, handlers)"""
    calls = {}
    for c in family:
        for name, mem in c.members.items():
            if mem.kind != "func":
                continue
            out = calls.setdefault(name, set())
            for x in ast.walk(mem.node):
                if isinstance(x, ast.Attribute) and (
                        isinstance(x.value, ast.Name) or ast.unparse(
                            x.value).startswith("super(")):
                    out.add(x.attr)
    seen = {n for n in calls if n in ("__call__", "rec") or n.startswith("map_")}
    todo = list(seen)
    while todo:
        for m in calls.get(todo.pop(), ()):
            if m in calls and m not in seen:
                seen.add(m)
                todo.append(m)
    return seen


def _cache_lifetime(ctx, model):
    """"evaluating all of them with one evaluator" spans several top-level
    calls: the mix-in's table lives as long as the evaluator.  Its attribute
    (read off the mix-in's handler) is created lazily there; in the evaluator
    family nothing else rebinds, deletes or empties it outside __init__."""
    mx = model.cls(f"{M}:CSECachingMapperMixin")
    h = mx.members.get("map_common_subexpression")
    if h is None or h.kind != "func":
        raise AnalysisError("CSECachingMapperMixin.map_common_subexpression "
                            "not found")
    me = h.node.args.args[0].arg
    attrs = {t.attr for st in ast.walk(h.node) if isinstance(st, ast.Assign)
             for t in st.targets if isinstance(t, ast.Attribute)
             and isinstance(t.value, ast.Name) and t.value.id == me}
    if len(attrs) != 1:
        raise AnalysisError("the mix-in's cache attribute was not recognised")
    attr = attrs.pop()
    ev = model.cls("pymbolic.mapper.evaluator:EvaluationMapper")
    family = []
    for c in model.subclasses(ev):
        for k in model.mro(c):
            if isinstance(k, ClassInfo) and k not in family:
                family.append(k)
    n_fn = 0
    for c in family:
        for name, mem in c.members.items():
            if mem.kind != "func" or (c is mx and mem is h):
                continue
            n_fn += 1
            if not mem.node.args.args:
                continue
            slf = mem.node.args.args[0].arg
            bad = None
            for st in ast.walk(mem.node):
                tg = []
                if isinstance(st, ast.Assign):
                    tg = st.targets
                elif isinstance(st, (ast.AugAssign, ast.AnnAssign)):
                    tg = [st.target]
                elif isinstance(st, ast.Delete):
                    tg = st.targets
                for t in tg:
                    for x in ast.walk(t):
                        if isinstance(x, ast.Attribute) and x.attr == attr and \
                                isinstance(x.value, ast.Name) and \
                                x.value.id == slf and not isinstance(
                                    x.ctx, ast.Load):
                            bad = st
                if isinstance(st, ast.Call) and isinstance(
                        st.func, ast.Attribute) and st.func.attr in (
                        "clear", "pop", "popitem") and ast.unparse(
                        st.func.value) == f"{slf}.{attr}":
                    bad = st
                if isinstance(st, ast.Call) and ast.unparse(st.func) in (
                        "setattr", "delattr", "object.__setattr__") and len(
                        st.args) >= 2 and isinstance(st.args[1], ast.Constant) \
                        and st.args[1].value == attr:
                    bad = st
            if bad is None or name == "__init__":
                continue
            if name not in _reached_in_evaluation(family):
                # e.g. a reset method the user calls on purpose
                ctx.ob(f"O/evaluator/{c.name}.{name}/keeps-{attr}", True,
                       c.module.loc(bad), f"{c.name}.{name} empties the table "
                       "but no evaluation reaches it", nontrivial=False)
                continue
            ctx.ob(f"O/evaluator/{c.name}.{name}/keeps-{attr}", False,
                   c.module.loc(bad),
                   f"{c.name}.{name} rebinds or empties self.{attr}, the table "
                   "in which the evaluator remembers the value of each wrapper: "
                   "a wrapper shared between expressions evaluated one after "
                   "the other by one evaluator is computed again")
    ctx.ob(f"O/evaluator/only-the-mix-in-writes-{attr}", True, mx.loc(),
           f"{n_fn} methods of the evaluator family scanned",
           {"classes": [c.name for c in family]}, nontrivial=False)
    ctx.floor("evaluator-family methods scanned", n_fn, 60)
