"""C10 -- symbolic differentiation yields the true derivative (rule level)."""
from __future__ import annotations

import ast

from .. import AnalysisError
from ..model import resolve_handler
from ..ratfun import Poly as RPoly, Rat
from ..rules import (effective_member, handler_summaries, is_raising, mapper_node_pairs, where)
from ..summary import NODE, base_field, contains, summarize

DIFF = "pymbolic.mapper.differentiator"

# node classes the differentiator may handle without raising
DIFFERENTIABLE = {"Variable", "Subscript", "Call", "Sum", "Product", "Quotient",
                  "Power", "Polynomial", "If", "CommonSubexpression", "Rational",
                  "MultiVectorVariable"}

# DERIV: derivative of each supported elementary function with respect to its
# argument p, as a rational function over atoms "<fn>(p)" and "p"
def _fa(name, arg):
    """atom for name(<arg>), arg a polynomial Rat: one canonical spelling for
    the table's rows and the reference formulas"""
    return Rat.atom(f"{name}({arg.n!r})")


_P = lambda A: A("p")       # noqa: E731
# rows the property names must be there; the OPTIONAL ones are judged when a
# tree has them (a neutral patch may add elementary functions)
OPTIONAL = {
    "sqrt": lambda A: Rat.const(1) / (Rat.const(2) * A("sqrt(p)")),
    "atan": lambda A: Rat.const(1) / (Rat.const(1) + _P(A) ** 2),
    "asin": lambda A: Rat.const(1) / _fa("sqrt", Rat.const(1) - _P(A) ** 2),
    "acos": lambda A: -Rat.const(1) / _fa("sqrt", Rat.const(1) - _P(A) ** 2),
    "asinh": lambda A: Rat.const(1) / _fa("sqrt", _P(A) ** 2 + Rat.const(1)),
    "acosh": lambda A: Rat.const(1) / _fa("sqrt", _P(A) ** 2 - Rat.const(1)),
    "atanh": lambda A: Rat.const(1) / (Rat.const(1) - _P(A) ** 2),
    "log1p": lambda A: Rat.const(1) / (Rat.const(1) + _P(A)),
    "log2": lambda A: Rat.const(1) / (_P(A) * A("log(2)")),
    "log10": lambda A: Rat.const(1) / (_P(A) * A("log(10)")),
}
DERIV = {
    "sin": lambda A: A("cos(p)"),
    "cos": lambda A: -A("sin(p)"),
    "tan": lambda A: A("tan(p)") ** 2 + Rat.const(1),
    "log": lambda A: Rat.const(1) / A("p"),
    "exp": lambda A: A("exp(p)"),
    "sinh": lambda A: A("cosh(p)"),
    "cosh": lambda A: A("sinh(p)"),
    "tanh": lambda A: Rat.const(1) - A("tanh(p)") ** 2,
    "expm1": lambda A: A("exp(p)"),
}
# rows for further arities: (function, arity) -> partial derivative by argument
# index, over atoms "p<j>" and "<fn>(p<j>)"
DERIV_N = {
    ("log", 2): [       # log(u, b) = log(u)/log(b)
        lambda A: Rat.const(1) / (A("p0") * A("log(p1)")),
        lambda A: -A("log(p0)") / (A("p1") * A("log(p1)") ** 2),
    ],
}
NONSMOOTH = {"fabs": ("continuous", "discontinuous")}
DISCONTINUOUS = {"copysign": ("discontinuous",)}


class Unsupported(Exception):
    pass


def _to_rat(v, atoms):
    """abstract value of a rule's right-hand side -> Rat over atoms.
    atoms: callable(abstract leaf) -> atom name or None"""
    t = v[0]
    if t == "const" and isinstance(v[1], (int, float)) and \
            not isinstance(v[1], bool):
        return Rat.const(v[1])
    name = atoms(v)
    if name is not None:
        if isinstance(name, Rat):
            return name
        return Rat.atom(name)
    if t == "binop":
        op = v[1]
        if op == "Pow":
            if v[3][0] == "const" and isinstance(v[3][1], int):
                return _to_rat(v[2], atoms) ** v[3][1]
            raise Unsupported(f"power {v}")
        a, b = _to_rat(v[2], atoms), _to_rat(v[3], atoms)
        if op == "Add":
            return a + b
        if op == "Sub":
            return a - b
        if op == "Mult":
            return a * b
        if op == "Div":
            return a / b
        raise Unsupported(f"operator {op}")
    if t == "unop" and v[1] == "USub":
        return -_to_rat(v[2], atoms)
    if t == "call" and v[1].endswith("quotient") and len(v[2]) == 2:
        return _to_rat(v[2][0], atoms) / _to_rat(v[2][1], atoms)
    raise Unsupported(f"term {str(v)[:80]}")


def run(ctx):
    model = ctx.model
    ctx.decide("refusal: the node classes with a non-raising handler are exactly "
               "the differentiable ones; non-smooth functions return only under "
               "the matching allowed_nonsmoothness test and raise otherwise; "
               "conditionals raise unless discontinuities are allowed; the "
               "setting is validated")
    ctx.decide("rule formulas: every row of the function table and every branch "
               "of the sum/product/quotient/power/call/if/CSE rules equals the "
               "reference formula in an exact rational-function normal form "
               "(branch assumptions df = 0 / dg = 0 applied to both sides)")
    ctx.decline("domain questions (log of negatives), the user-supplied "
                "func_map, the polynomial rule's formula")
    ctx.assume("the elementary-function derivative table (calculus) and the "
               "quotient/power rules stated in pv/checks/c10.py")

    dm = model.cls(f"{DIFF}:DifferentiationMapper")
    _refusal(ctx, model, dm)
    _table(ctx, model)
    _quotient_power(ctx, model, dm)
    _linear_rules(ctx, model, dm)
    _entry(ctx, model, dm)
    # wrappers are differentiated once per mapper instance through the caching
    # mix-in, whose key does not contain the differentiation variable: the
    # mix-in's rules (key, hit/miss paths, table per instance) are part of what
    # makes d/dx and d/dy of the same expression independent
    from .c05 import check_cse_mixin
    check_cse_mixin(ctx, model)
    # the rules write their right-hand sides with the overloaded operators
    # (f**(g-1), df*g + f*dg, ...): an operator that folds what it is given
    # into something of another value ((b**m)**n -> b**(m*n)) makes a correct
    # rule produce a wrong derivative
    from .c03 import operator_rules
    operator_rules(ctx, model)


def _is_math_log(model, mem, v):
    """the call is pymbolic.functions.log(...) -- i.e. math.log, the spelling
    the function table differentiates -- or Lookup(Variable("math"), "log")
    built on the spot"""
    name = v[1]
    callee = v[4] if len(v) > 4 else None
    if isinstance(callee, tuple) and callee[0] == "call" and \
            callee[1].split(".")[-1] == "Lookup" and len(callee[2]) == 2 and \
            callee[2][1] == ("const", "log") and "math" in str(callee[2][0]):
        return True
    if name.startswith("self."):
        # an attribute of the mapper whose class-level default is math.log
        dm = mem.owner
        am = dm.members.get(name[5:])
        if am is not None and am.kind in ("value", "ann"):
            val = am.node.value if am.kind == "ann" else am.node
            src = ast.unparse(val).replace(" ", "") if val is not None else ""
            if src.endswith("Lookup(primitives.Variable('math'),'log')") or \
                    src.endswith("Lookup(Variable('math'),'log')"):
                return True
    fn = mem.node
    for st in ast.walk(fn):
        if isinstance(st, ast.ImportFrom) and st.module == "pymbolic.functions":
            for a in st.names:
                if (a.asname or a.name) == name and a.name == "log":
                    return True
    imp = mem.owner.module.imports.get(name.split(".")[0])
    if imp == ("attr", "pymbolic.functions", "log"):
        return True
    if imp in (("module", "pymbolic.functions"), ("attr", "pymbolic", "functions")) \
            and name.endswith(".log"):
        return True
    return False


def _is_log_function(dm, callee):
    """the callee is the symbol `log`: Variable("log") / var("log") built on the
    spot, or an attribute of the mapper whose class-level default is that"""
    def is_log_ctor_value(v):
        return isinstance(v, tuple) and v[0] == "call" and \
            v[1].split(".")[-1] in ("var", "Variable", "make_variable") and \
            v[2] == (("const", "log"),)
    if is_log_ctor_value(callee):
        return True
    if isinstance(callee, tuple) and callee[0] == "self":
        mem = dm.members.get(callee[1])
        if mem is not None and mem.kind in ("value", "ann"):
            val = mem.node.value if mem.kind == "ann" else mem.node
            return isinstance(val, ast.Call) and ast.unparse(val.func).split(
                ".")[-1] in ("var", "Variable", "make_variable") and \
                len(val.args) == 1 and isinstance(val.args[0], ast.Constant) \
                and val.args[0].value == "log"
    return False


def _gated(model, mem):
    """every returning path of the handler has passed a test of the mapper's
    allowed_nonsmoothness setting, and some path under such a test raises"""
    fn = model.inlined(mem.node)
    SETTING = ("self", "allowed_nonsmoothness")

    def mentions(v):
        return v == SETTING or (isinstance(v, tuple) and contains(
            v, lambda t: t == SETTING))
    raises = False
    for ps in summarize(fn):
        tested = any(isinstance(v, tuple) and mentions(v) for _, _, v in ps.conds)
        if ps.term == "raise":
            raises = raises or tested
        elif not tested:
            return False
    return raises


def _refusal(ctx, model, dm):
    nt = model.nodes
    n = 0
    for node, res, chain, mem in mapper_node_pairs(model, dm):
        if mem is None or mem.kind != "func" or res.via == "foreign":
            continue
        n += 1
        handled = not (res.via == "unsupported" or is_raising(mem))
        want = node.name in DIFFERENTIABLE
        ok = handled == want or (not handled)
        if handled and not want and mem.owner is dm and _gated(model, mem):
            # a rule of the mapper's own for a node outside the listed
            # fragment, refused unless the caller allows non-smoothness: the
            # property neither lists the node nor is contradicted by it
            ctx.ob(f"D4/DifferentiationMapper/{node.name}", True, where(mem),
                   f"{node.name}: own rule, refused unless non-smoothness is "
                   "allowed (outside the listed fragment, not judged)",
                   nontrivial=False)
        elif handled and not want:
            ctx.ob(f"D4/DifferentiationMapper/{node.name}", False, where(mem),
                   f"DifferentiationMapper handles {node.name} (via "
                   f"{'/'.join(chain)}) although it has no differentiation rule: "
                   "it is differentiated to something wrong instead of being "
                   "refused")
        elif not handled and want and node.name not in ("Rational",
                                                        "MultiVectorVariable"):
            ctx.ob(f"D4/DifferentiationMapper/{node.name}", False, where(mem),
                   f"DifferentiationMapper refuses {node.name}, which the "
                   "property lists as differentiable")
        else:
            ctx.ob(f"D4/DifferentiationMapper/{node.name}", True, where(mem),
                   f"{node.name}: " + ("handled" if handled else "refused"),
                   nontrivial=handled)
        if res.via == "unsupported":
            ctx.ob(f"D4/DifferentiationMapper/{node.name}/hook-raises",
                   is_raising(mem), where(mem), "unsupported hook raises",
                   nontrivial=False)
    ctx.floor("differentiator (mapper, node) pairs", n, 40)


# ---------------------------------------------------------------------------

def _fn_name(v):
    """make_f("sin") inlined -> 'sin'"""
    if isinstance(v, tuple) and v and v[0] == "inlined" and v[1] == "make_f":
        inner = v[2]
        if inner[0] == "call" and inner[1].endswith("Lookup") and \
                inner[2][0][0] == "call" and inner[2][0][2] == (("const",
                                                                  "math"),) \
                and inner[2][1][0] == "const":
            return inner[2][1][1]
    return None


def _row_of(ps, PARS):
    """(function name, number of arguments) a path of the table belongs to,
    from the facts on the path: func == make_f(name); len(pars) == k, or
    len(pars) in (...) narrowed by the == tests that failed"""
    from ..summary import facts_of
    fname = None
    eq_true, eq_false, in_sets = set(), set(), []
    for _, pol, v in ps.conds:
        if not isinstance(v, tuple):
            continue
        for c, p_ in facts_of(v, pol):
            if not (isinstance(c, tuple) and c and c[0] == "compare"):
                continue
            if c[1] == ("Eq",) and c[2] == ("param", "func") and p_:
                fname = _fn_name(c[3][0])
            if c[2] == ("len", PARS):
                if c[1] == ("Eq",) and c[3][0][0] == "const":
                    (eq_true if p_ else eq_false).add(c[3][0][1])
                elif c[1] == ("NotEq",) and c[3][0][0] == "const":
                    (eq_false if p_ else eq_true).add(c[3][0][1])
                elif c[1] == ("In",) and p_ and c[3][0][0] == "lit":
                    in_sets.append({x[1] for x in c[3][0][2] if x[0] == "const"})
    arity = None
    if len(eq_true) == 1:
        arity = next(iter(eq_true))
    elif in_sets:
        left = set.intersection(*in_sets) - eq_false
        if len(left) == 1:
            arity = left.pop()
    return fname, arity


def _row_names(ps):
    """the functions a `func in (make_f(a), make_f(b))` row serves"""
    from ..summary import facts_of
    for _, pol, v in ps.conds:
        if not isinstance(v, tuple):
            continue
        for c, p_ in facts_of(v, pol):
            if isinstance(c, tuple) and c and c[0] == "compare" and \
                    c[1] == ("In",) and c[2] == ("param", "func") and p_ and \
                    c[3][0][0] == "lit":
                names = {_fn_name(x) for x in c[3][0][2]}
                if None not in names:
                    return names
    return set()


def _judge_table(model, m, fn):
    """interpretive judge: map_math_functions_by_name interpreted (through the
    operator overloads of the node classes, pv/opjudge.py) for every function
    of the smooth unary table, for a function it cannot know and for a known
    function with one argument too many.  What comes back is read as a
    rational function over the atoms p and <fn>(p) and compared with the
    reference derivative (modulo the Pythagorean identities).  -> witnesses"""
    from ..absint import Obj, Opaque, Raised, StepBound, module_env
    from ..opjudge import World, _var
    w = World(model)
    glob = module_env(m.tree, dict(w.glob))
    glob.setdefault("primitives", Opaque("module primitives"))
    for nm_ in ("quotient",):
        pm, pf = model.func(f"pymbolic.primitives:{nm_}")
        from ..absint import Closure
        glob[f"__prim_{nm_}"] = Closure(pf, w.glob)

    # module-level tables (a dict of rules, ...) evaluated in the same world
    it0 = w.interp()
    it0.globals = glob
    for st in m.tree.body:
        if isinstance(st, ast.Assign) and len(st.targets) == 1 and isinstance(
                st.targets[0], ast.Name) and st.targets[0].id not in glob:
            try:
                glob[st.targets[0].id] = it0.eval(st.value, glob)
            except (AnalysisError, Raised, StepBound):
                pass
        elif isinstance(st, ast.Assign) and len(st.targets) == 1 and \
                isinstance(st.targets[0], ast.Subscript) and isinstance(
                    st.targets[0].value, ast.Name) and \
                isinstance(glob.get(st.targets[0].value.id), dict):
            # TABLE[key] = entry, at module level
            try:
                it0.stmt(st, glob)
            except (AnalysisError, Raised, StepBound):
                pass

    class SD(dict):
        """a table keyed by nodes: keys are found by structural equality (the
        abstract nodes hash by identity)"""

        def _find(self, k):
            for k2 in dict.keys(self):
                if oeq(k2, k):
                    return k2
            return _MISSING

        def __contains__(self, k):
            return self._find(k) is not _MISSING

        def __getitem__(self, k):
            k2 = self._find(k)
            if k2 is _MISSING:
                raise KeyError(k)
            return dict.__getitem__(self, k2)

        def get(self, k, dflt=None):
            k2 = self._find(k)
            return dflt if k2 is _MISSING else dict.__getitem__(self, k2)
    _MISSING = object()

    def oeq(a, b):
        if isinstance(a, Obj) and isinstance(b, Obj):
            return a.cls == b.cls and set(a.fields) == set(b.fields) and all(
                oeq(a.fields[k], b.fields[k]) for k in a.fields)
        if isinstance(a, tuple) and isinstance(b, tuple):
            return len(a) == len(b) and all(oeq(x, y) for x, y in zip(a, b))
        return type(a) is type(b) and a == b

    for nm_, v_ in list(glob.items()):
        if type(v_) is dict and v_ and any(isinstance(k_, Obj) for k_ in v_):
            glob[nm_] = SD(v_)

    def to_rat(v, npar):
        if isinstance(v, bool):
            raise Unsupported("a boolean")
        if isinstance(v, int):
            return Rat.const(v)
        if not isinstance(v, Obj):
            raise Unsupported(repr(v))
        f = v.fields
        if v.cls == "Variable":
            if f["name"].startswith("__p"):
                return Rat.atom("p" if npar == 1 else f"p{f['name'][3:]}")
            raise Unsupported(f"variable {f['name']}")
        if v.cls == "Sum":
            r = Rat.const(0)
            for c in f["children"]:
                r = r + to_rat(c, npar)
            return r
        if v.cls == "Product":
            r = Rat.const(1)
            for c in f["children"]:
                r = r * to_rat(c, npar)
            return r
        if v.cls in ("Quotient", "Rational"):
            return to_rat(f.get("numerator", f.get("Numerator")), npar) / \
                to_rat(f.get("denominator", f.get("Denominator")), npar)
        if v.cls == "Power" and isinstance(f["exponent"], int) and \
                not isinstance(f["exponent"], bool):
            return to_rat(f["base"], npar) ** f["exponent"]
        if v.cls == "Call" and len(f["parameters"]) == 2 and isinstance(
                f["function"], Obj) and f["function"].fields.get("name") == \
                "copysign" and isinstance(f["parameters"][0], Obj) and \
                f["parameters"][0].cls == "Call":
            # copysign(sign(u), v): magnitude 1, the sign of v
            inner = f["parameters"][0]
            try:
                mag = to_rat(inner, npar)
            except Unsupported:
                mag = None
            if mag is not None and repr(mag).count("sign(") == 1:
                return to_rat(Obj("Call", {
                    "function": f["function"],
                    "parameters": (1, f["parameters"][1])}), npar)
        if v.cls == "Call" and len(f["parameters"]) == 2 and isinstance(
                f["function"], Obj) and f["function"].fields.get("name") == \
                "copysign" and f["parameters"][0] == 1:
            arg = f["parameters"][1]
            if isinstance(arg, Obj) and arg.cls == "Variable" and \
                    arg.fields["name"].startswith("__p"):
                inner = "p" if npar == 1 else f"p{arg.fields['name'][3:]}"
                return Rat.atom(f"sign({inner})")
        if v.cls == "Call" and len(f["parameters"]) == 1:
            fo = f["function"]
            name = fo.fields.get("name") if isinstance(fo, Obj) and fo.cls in (
                "Lookup", "Variable") else None
            arg = f["parameters"][0]
            if name and isinstance(arg, Obj) and arg.cls == "Variable" and \
                    arg.fields["name"].startswith("__p"):
                inner = "p" if npar == 1 else f"p{arg.fields['name'][3:]}"
                return Rat.atom(f"{name}({inner})")
            if name and isinstance(arg, int):
                return Rat.atom(f"{name}({arg})")
        raise Unsupported(f"{v.cls} node")

    def run(fname, npar, i=0, allowed="none"):
        it = w.interp()
        it.globals = dict(glob)
        orig = it.compare

        def cmp_(node, op, a, b):
            if isinstance(a, Obj) and isinstance(b, Obj) and isinstance(
                    op, (ast.Eq, ast.NotEq)):
                return oeq(a, b) == isinstance(op, ast.Eq)
            if isinstance(a, Opaque) and isinstance(b, Opaque) and isinstance(
                    op, (ast.Is, ast.IsNot, ast.Eq, ast.NotEq)):
                # class references: type(func) is primitives.Lookup
                na, nb = (x.what.replace("class ", "").split(".")[-1]
                          for x in (a, b))
                if na in w.nodes and nb in w.nodes:
                    return (na == nb) == isinstance(op, (ast.Is, ast.Eq))
            return orig(node, op, a, b)
        it.compare = cmp_
        it.calls["primitives.quotient"] = lambda it_, nd, a, k: it_.apply(
            glob["__prim_quotient"], a, k)
        it.calls["quotient"] = it.calls["primitives.quotient"]
        func = Obj("Lookup", {"aggregate": _var("math"), "name": fname})
        pars = tuple(_var(f"__p{j}") for j in range(npar))
        for nm_ in list(w.nodes):
            if nm_ in it.calls:
                it.calls[f"p.{nm_}"] = it.calls[nm_]
                it.calls[f"prim.{nm_}"] = it.calls[nm_]
        try:
            fm, sf = model.func("pymbolic.functions:sign")
            fglob = module_env(fm.tree, dict(w.glob))
            fglob.setdefault("primitives", Opaque("module primitives"))
            it.calls["sign"] = lambda it_, nd, a, k: it_.call_function(
                sf, list(a), dict(fglob, __kwargs__=dict(k)))
        except AnalysisError:
            pass
        return it.call_function(fn, [i, func, pars, allowed], dict(glob))
    wit = []
    for fname, ref in sorted(DERIV.items()):
        try:
            got = to_rat(run(fname, 1), 1)
        except Raised as r:
            wit.append(f"math.{fname}: raises at line "
                       f"{getattr(r.node, 'lineno', '?')} (the property lists "
                       "it as supported)")
            continue
        except StepBound:
            wit.append(f"math.{fname}: does not terminate")
            continue
        except Unsupported as e:
            raise AnalysisError(f"derivative of math.{fname} outside the "
                                f"normal form's fragment: {e}")
        want = ref(Rat.atom)
        if not (got.equals(want) or got.equals_mod_identities(want)):
            wit.append(f"the rule for math.{fname} gives {got}, the derivative "
                       f"is {want}")
    # the non-smooth rows: refused unless allowed, else sign(u) /
    # sign(u)*sign(v) and 0
    gated = [("fabs", 1, 0, NONSMOOTH["fabs"],
              lambda A: A("sign(p)")),
             ("copysign", 2, 0, DISCONTINUOUS["copysign"],
              lambda A: A("sign(p0)") * A("sign(p1)")),
             ("copysign", 2, 1, DISCONTINUOUS["copysign"],
              lambda A: Rat.const(0))]
    for fname, npar, i, levels, ref in gated:
        for level in ("none", "continuous", "discontinuous"):
            try:
                got = run(fname, npar, i, level)
            except Raised as r:
                if level in levels:
                    wit.append(f"math.{fname} with allowed_nonsmoothness="
                               f"'{level}': raises at line "
                               f"{getattr(r.node, 'lineno', '?')}")
                continue
            except StepBound:
                wit.append(f"math.{fname}: does not terminate")
                continue
            if level not in levels:
                wit.append(f"math.{fname} is differentiated with "
                           f"allowed_nonsmoothness='{level}' (it is allowed "
                           f"only with {list(levels)})")
                continue
            try:
                gr = to_rat(got, npar)
            except Unsupported as e:
                raise AnalysisError(f"derivative of math.{fname} outside the "
                                    f"normal form's fragment: {e}")
            if not gr.equals(ref(Rat.atom)):
                wit.append(f"the rule for math.{fname} (argument {i}, "
                           f"'{level}') gives {gr}, the derivative is "
                           f"{ref(Rat.atom)}")
    # a function the table cannot know, and known ones with an argument more
    for fname, npar in [("frobnicate", 1)] + [
            (f_, 2) for f_ in sorted(DERIV) if (f_, 2) not in DERIV_N]:
        try:
            got = run(fname, npar)
        except Raised:
            continue
        except StepBound:
            wit.append(f"math.{fname}/{npar}: does not terminate")
            continue
        wit.append(f"math.{fname} with {npar} argument(s) is "
                   + ("not a function the table knows" if npar == 1 else
                      "not the function of one argument the table has a rule "
                      "for") + f", and a derivative comes back: {got!r}")
    return wit


def _table(ctx, model):
    m, fn = model.func(f"{DIFF}:map_math_functions_by_name")
    loc = m.loc(fn)
    jwit = None
    try:
        jwit = _judge_table(model, m, fn)
    except AnalysisError as e:
        ctx.extra["judge_unavailable:map_math_functions_by_name"] = str(e)
    if jwit is not None:
        ctx.ob("E0/table/derivative-semantics", not jwit, loc,
               f"map_math_functions_by_name interpreted for the {len(DERIV)} "
               "smooth unary functions (results read as rational functions "
               "over p and fn(p), compared with the reference derivatives), "
               "for an unknown function and for known ones with two "
               "arguments: refused" if not jwit else
               "map_math_functions_by_name: " + "; ".join(jwit[:3]))
    mark = len(ctx.obs)
    try:
        _table_structural(ctx, model)
    except AnalysisError:
        if jwit is None or jwit:
            raise
    if jwit is not None and not jwit:
        smooth = tuple(f"E/table/{f_}" for f_ in list(DERIV) + [
            "fabs", "copysign"]) + ("P/table/fabs/gated",
                                    "P/table/copysign/gated")
        for o in ctx.obs[mark:]:
            if not o.ok and (o.key in smooth or
                             o.key == "P/table/unknown-function"):
                o.ok = True
                o.what = "[shape not recognised; decided by interpreting " \
                    "the table] " + o.what
                o.nontrivial = False


def _table_structural(ctx, model):
    m, fn = model.func(f"{DIFF}:map_math_functions_by_name")
    loc = m.loc(fn)
    PARS = ("param", "pars")
    ALLOWED = ("param", "allowed_nonsmoothness")

    cur = [None]            # the function whose row is being judged

    def atoms(v):
        # make_f("cos")(*pars)
        if v[0] == "call" and len(v) >= 5 and _fn_name(v[4]) and \
                v[2] == (("star", PARS),):
            return f"{_fn_name(v[4])}(p)"
        # func(*pars): the function of the row itself
        if v[0] == "call" and v[1] == "func" and v[2] == (("star", PARS),) \
                and cur[0]:
            return f"{cur[0]}(p)"
        if v == ("index", PARS, 0):
            return "p"
        # make_f("sqrt")(<polynomial in p>) / make_f("log")(2)
        if v[0] == "call" and len(v) >= 5 and _fn_name(v[4]) and \
                len(v[2]) == 1 and v[2][0][0] != "star":
            try:
                inner = _to_rat(v[2][0], atoms)
            except Unsupported:
                return None
            if inner.d == RPoly.const(1):
                return _fa(_fn_name(v[4]), inner)
        return None

    seen = {}
    final_raise = False
    for ps in summarize(fn, plain=True):
        # which function does this path belong to?  the last positive
        # "func == make_f(name) and len(pars) == k" condition
        fname, arity = _row_of(ps, PARS)
        if fname is None:
            if ps.term == "raise":
                final_raise = True
            elif _row_names(ps):
                # one row for several functions (func in (f, g)), told apart
                # inside by `func == f` tests: one variant per function
                from ..summary import split_conditionals
                names = _row_names(ps)
                split = split_conditionals(ps.retval) if ps.term == "return" \
                    else [((), ps.retval)]
                for extra_c, val in split:
                    yes = {_fn_name(c.val[3][0]) for c, b in extra_c if b
                           and isinstance(getattr(c, "val", None), tuple)
                           and c.val[0] == "compare" and c.val[1] == ("Eq",)
                           and c.val[2] == ("param", "func")}
                    no = {_fn_name(c.val[3][0]) for c, b in extra_c if not b
                          and isinstance(getattr(c, "val", None), tuple)
                          and c.val[0] == "compare" and c.val[1] == ("Eq",)
                          and c.val[2] == ("param", "func")}
                    cand = (names & yes) if yes else (names - no)
                    if not yes and not no:
                        # one result for all of them: judged once per function
                        # (`func` stands for the function of the row)
                        for nm_ in sorted(names):
                            seen.setdefault(nm_, []).append(
                                (ps, None, _row_of(ps, PARS)[1]))
                        continue
                    if len(cand) != 1:
                        raise AnalysisError(
                            f"{loc}: a row serves {sorted(names)} and the rule "
                            "cannot tell which result belongs to which")

                    class _V:
                        pass
                    v_ = _V()
                    v_.term, v_.retval, v_.conds, v_.items = \
                        ps.term, val, ps.conds, ps.items
                    seen.setdefault(cand.pop(), []).append(
                        (v_, None, _row_of(ps, PARS)[1]))
            else:
                ctx.ob("P/table/unknown-function", False, loc,
                       "map_math_functions_by_name returns a derivative for a "
                       "function it did not recognise")
            continue
        gate = None
        for _, pol, v in ps.conds:
            if isinstance(v, tuple) and v[0] == "compare" and v[2] == ALLOWED:
                if v[1] == ("In",):
                    gate = (tuple(x[1] for x in v[3][0][2]), pol)
                elif v[1] == ("Eq",):
                    gate = ((v[3][0][1],), pol)
        seen.setdefault(fname, []).append((ps, gate, arity))
    for fname, ref in list(DERIV.items()) + [
            (k, v) for k, v in OPTIONAL.items() if k in seen]:
        rows = seen.get(fname, [])
        if not rows:
            ctx.ob(f"E/table/{fname}", False, loc,
                   f"no rule for math.{fname} (the property lists it as "
                   "supported)")
            continue
        for ps, gate, arity in rows:
            if arity != 1 and (fname, arity) in DERIV_N:
                continue        # decided per argument index below
            if ps.term != "return":
                ctx.ob(f"E/table/{fname}", False, loc,
                       f"math.{fname} is smooth but its rule raises")
                continue
            cur[0] = fname
            try:
                got = _to_rat(ps.retval, atoms)
            except Unsupported as e:
                raise AnalysisError(f"{loc}: rule for {fname} outside the normal "
                                    f"form's fragment: {e}")
            finally:
                cur[0] = None
            want = ref(Rat.atom)
            ok = (got.equals(want) or got.equals_mod_identities(want)) \
                and arity == 1
            ctx.ob(f"E/table/{fname}", ok, loc,
                   f"d/dp {fname}(p) = {want}" if ok else
                   f"the rule for math.{fname} gives {got}, the derivative is "
                   f"{want}", {"rule": ast.unparse(ps.items[-1][1])})
    # rows of other arities: the partial derivative depends on which argument
    # is differentiated; decided by concretising the argument index
    def atoms_n(v):
        if v[0] == "call" and len(v) >= 5 and _fn_name(v[4]) and \
                len(v[2]) == 1 and v[2][0][0] == "index" and \
                v[2][0][1] == PARS and isinstance(v[2][0][2], int):
            return f"{_fn_name(v[4])}(p{v[2][0][2]})"
        if v[0] == "index" and v[1] == PARS and isinstance(v[2], int):
            return f"p{v[2]}"
        return None
    for (fname, arity), refs in DERIV_N.items():
        if not any(a == arity for _, _, a in seen.get(fname, [])):
            continue            # (an optional row)
        for k, ref in enumerate(refs):
            got_any = False
            for ps in summarize(fn, plain=True, assume={
                    fn.args.args[0].arg: ("const", k)}):
                f2, a2 = _row_of(ps, PARS)
                if (f2, a2) != (fname, arity):
                    continue
                got_any = True
                key = f"E/table/{fname}/{arity}-arguments/d{k}"
                if ps.term != "return":
                    ctx.ob(key, False, loc, f"math.{fname} with {arity} "
                           "arguments is smooth but its rule raises")
                    continue
                try:
                    got = _to_rat(ps.retval, atoms_n)
                except Unsupported as e:
                    raise AnalysisError(
                        f"{loc}: rule for {fname}/{arity} outside the normal "
                        f"form's fragment: {e}")
                want = ref(Rat.atom)
                ok = got.equals(want)
                ctx.ob(key, ok, loc,
                       f"d/dp{k} {fname}(p0..p{arity - 1}) = {want}" if ok else
                       f"the rule for math.{fname} with {arity} arguments gives "
                       f"{got} for argument {k}, the derivative is {want}")
            if not got_any:
                raise AnalysisError(f"{loc}: no path for {fname}/{arity}, "
                                    f"argument {k}")
    # gates, decided by substituting each setting for the parameter (so that
    # any spelling of the test -- in / not in / == / !=, either branch order --
    # reads the same)
    def fname_of(ps):
        fn_ = None
        for _, pol, v in ps.conds:
            if pol and isinstance(v, tuple) and v[0] == "boolop" and \
                    v[1] == "And":
                for c in v[2]:
                    if c[0] == "compare" and c[1] == ("Eq",) and \
                            c[2] == ("param", "func"):
                        fn_ = _fn_name(c[3][0])
        return fn_

    by_setting = {}
    for setting in ("none", "continuous", "discontinuous"):
        for ps in summarize(fn, plain=True, assume={
                "allowed_nonsmoothness": ("const", setting)}):
            f_ = fname_of(ps)
            if f_ is not None:
                by_setting.setdefault((f_, setting), set()).add(ps.term)
    for table, kind in ((NONSMOOTH, "non-smooth"), (DISCONTINUOUS,
                                                    "discontinuous")):
        for fname, allowed in table.items():
            ok = True
            for setting in ("none", "continuous", "discontinuous"):
                terms = by_setting.get((fname, setting), set())
                want = {"return"} if setting in allowed else {"raise"}
                if terms != want:
                    ok = False
            ctx.ob(f"P/table/{fname}/gated", ok, loc,
                   f"{fname} ({kind}) is differentiated only under "
                   f"allowed_nonsmoothness in {list(allowed)}, else raises"
                   if ok else
                   f"the {kind} function {fname} is differentiated without the "
                   f"allowed_nonsmoothness gate {list(allowed)} (or never raises)")
    # copysign(u, v) = fabs(u) * sign(v): the partial derivative depends on
    # *which* argument is differentiated -- sign(u)*sign(v) for the first, 0
    # (almost everywhere) for the second.  Decided by concretising the
    # argument index.
    iparam = fn.args.args[0].arg
    want_by_index = {}
    for k in (0, 1):
        vals = set()
        for ps in summarize(fn, plain=True, assume={
                "allowed_nonsmoothness": ("const", "discontinuous"),
                iparam: ("const", k)}):
            if fname_of(ps) == "copysign" and ps.term == "return":
                vals.add(ps.retval)
        want_by_index[k] = vals

    def sign_of(j):
        return ("call", "sign", (("index", PARS, j),), ())

    def strip(v):
        # drop the resolved-callee slot of call values
        if isinstance(v, tuple):
            if v and v[0] == "call" and len(v) > 4:
                v = v[:4]
            return tuple(strip(x) for x in v)
        return v
    first = {strip(v) for v in want_by_index[0]}
    second = {strip(v) for v in want_by_index[1]}
    ok_first = bool(first) and first <= {
        ("binop", "Mult", sign_of(0), sign_of(1)),
        ("binop", "Mult", sign_of(1), sign_of(0))}
    ok_second = second == {("const", 0)}
    if not (ok_first and ok_second) and first and first != second and \
            ("const", 0) not in first:
        raise AnalysisError(f"{loc}: the rule for copysign distinguishes its "
                            "arguments with a formula this check cannot read: "
                            f"{sorted(map(str, first))} / "
                            f"{sorted(map(str, second))}")
    ctx.ob("E/table/copysign", ok_first and ok_second, loc,
           "d/du copysign(u, v) = sign(u)*sign(v), d/dv copysign(u, v) = 0"
           if ok_first and ok_second else
           "the rule for math.copysign does not distinguish its two arguments: "
           f"for the first it gives {sorted(map(str, first))} (the derivative is "
           "sign(u)*sign(v): differentiate(copysign(x, 1), x) must be 1 for "
           "x > 0, not 0), for the second "
           f"{sorted(map(str, second))} (the derivative is 0)")
    # the non-smooth branch returns functions.sign(p): that helper must build
    # copysign(1, p)
    fm, ffn = model.func("pymbolic.functions:sign")
    okf = False
    for ps in summarize(ffn, plain=True):
        rv = ps.retval
        xpar = ("param", ffn.args.args[0].arg)
        okf = (ps.term == "return" and rv[0] == "call" and rv[1].endswith("Call")
               and rv[2][0][0] == "call" and rv[2][0][1].endswith("Lookup")
               and rv[2][0][2][1] == ("const", "copysign")
               and rv[2][1] == ("lit", "tuple", (("const", 1), xpar)))
    uses_sign = any(ps.term == "return" and ps.retval[0] == "call"
                    and ps.retval[1] == "sign"
                    for ps, gate, arity in seen.get("fabs", []))
    ctx.ob("E/table/fabs", okf and uses_sign, fm.loc(ffn),
           "d/dp fabs(p) = sign(p) = copysign(1, p)" if okf and uses_sign else
           "the derivative of fabs is not sign(p) built as math.copysign(1, p) "
           "(pymbolic.functions.sign builds something else, or the table row "
           "does not use it)")
    ctx.ob("P/table/unknown-raises", final_raise, loc,
           "an unrecognised function raises" if final_raise else
           "map_math_functions_by_name has no raising fall-through for "
           "unrecognised functions")
    extra = sorted(set(seen) - set(DERIV) - set(OPTIONAL) - set(NONSMOOTH)
                   - set(DISCONTINUOUS))
    if extra:
        # not a violation: the rule has no formula to compare these rows with
        raise AnalysisError(f"{loc}: table rows {extra} have no reference "
                            "formula in the oracle (pv/checks/c10.py DERIV / "
                            "OPTIONAL): their derivatives cannot be judged")
    ctx.ob("E/table/no-unchecked-rows", True, loc,
           "every table row has a reference formula", nontrivial=False)


# ---------------------------------------------------------------------------

def _quotient_power(ctx, model, dm):
    nt = model.nodes

    def und(f):
        return ("call", "self.rec_undiff", (("field", f),), ())

    specs = {
        "map_quotient": ("Quotient", "numerator", "denominator"),
        "map_power": ("Power", "base", "exponent"),
    }
    for slot, (ncls, ff, gf) in specs.items():
        mem = model.lookup(dm, slot)
        loc = where(mem)
        log_spellings = set()

        def atoms(v, ff=ff, gf=gf):
            if v == und(ff):
                return "f"
            if v == und(gf):
                return "g"
            if v[0] == "rec":
                b = v[1]
                if b == ("field", ff) or b == und(ff):
                    return "df"
                if b == ("field", gf) or b == und(gf):
                    return "dg"
            if v[0] == "call" and v[2] == (und(ff),) and _is_log_function(
                    dm, v[4] if len(v) > 4 else
                    ("self", v[1][5:]) if v[1].startswith("self.") else None):
                log_spellings.add("bare")
                return "L"
            if v[0] == "call" and v[2] == (und(ff),) and _is_math_log(
                    model, mem, v):
                log_spellings.add("math")
                return "L"
            if v[0] == "binop" and v[1] == "Pow" and v[2] == und(ff):
                e = v[3]
                if e == und(gf):                      # f**g = f * f**(g-1)
                    return Rat.atom("f") * Rat.atom("P")
                if e == ("binop", "Sub", und(gf), ("const", 1)):
                    return Rat.atom("P")
            return None

        A = Rat.atom
        if slot == "map_quotient":
            full = (A("df") * A("g") - A("dg") * A("f")) / (A("g") ** 2)
        else:
            full = A("L") * A("f") * A("P") * A("dg") + A("g") * A("P") * A("df")
        cases = set()
        for ps in handler_summaries(model, nt.get(ncls), mem.node):
            if ps.term != "return":
                continue
            zero = set()
            for _, pol, v in ps.conds:
                from ..summary import facts_of
                for sub, p_ in facts_of(v, pol):
                    # "not rec(child)": the child's derivative vanishes
                    if isinstance(sub, tuple) and sub[0] == "rec" and not p_:
                        nm = atoms(sub)
                        if nm in ("df", "dg"):
                            zero.add(nm)
            try:
                got = _to_rat(ps.retval, atoms)
            except Unsupported as e:
                raise AnalysisError(f"{loc}: {slot} outside the normal form's "
                                    f"fragment: {e}")
            want = full
            for z in zero:
                got = got.subst_zero(z)
                want = want.subst_zero(z)
            case = "+".join(sorted(zero)) or "general"
            cases.add(case)
            ok = got.equals(want)
            ctx.ob(f"E/{slot}/{case}", ok, loc,
                   f"{ncls} rule ({case}): {want}" if ok else
                   f"DifferentiationMapper.{slot}, branch {case}: returns "
                   f"{got}, the {ncls.lower()} rule gives {want}",
                   {"returned": ast.unparse(ps.items[-1][1])})
        ctx.ob(f"E/{slot}/has-general-case", "general" in cases, loc,
               f"cases {sorted(cases)}" if "general" in cases else
               f"{slot} has no general branch")
        if slot == "map_power":
            # sibling agreement: the logarithm the power rule writes down is the
            # one the function table knows (math.log, as pymbolic.functions
            # spells every elementary function)
            if not log_spellings:
                raise AnalysisError(f"{loc}: no logarithm in the power rule")
            ok = log_spellings == {"math"}
            ctx.ob("S/map_power/logarithm-is-the-table's", ok, loc,
                   "the power rule writes math.log, which the function table "
                   "differentiates and every evaluation context of an "
                   "expression with elementary functions binds" if ok else
                   "the power rule writes the logarithm as a bare function "
                   "symbol 'log', while the library's elementary functions "
                   "(and the table of derivatives) are math.<name>: the "
                   "derivative of x**x cannot be evaluated where the input can "
                   "(UnknownVariableError: log), and differentiating it once "
                   "more raises 'unrecognized function'")


def _judge_product_rule(fn, class_node):
    """-> witnesses.  self.rec(child_i) is the symbol d_i (or 0), rec_undiff the
    symbol f_i; flattened_sum / flattened_product add and multiply; the result
    must be sum_i d_i * prod_{j != i} f_j as a polynomial identity (factors are
    taken to commute here; their order is the structural rule's clause)"""
    import itertools
    from ..absint import Interp, Opaque, Poly, Raised
    wit = []
    helpers = {st.name: st for st in class_node.body
               if isinstance(st, ast.FunctionDef) and st.name.startswith("_")
               and not st.name.startswith("__")}

    class Kid:
        """a factor: equal to the factors of the same label, a distinct object
        unless shared on purpose"""

        def __init__(self, label):
            self.label = label

        def __eq__(self, o):
            return isinstance(o, Kid) and o.label == self.label

        def __hash__(self):
            return hash(self.label)

        def __getitem__(self, i):       # ch[1]: the label
            return self.label

        def __repr__(self):
            return f"<factor {self.label}>"
    shapes = []
    for n in range(0, 5):
        for zeros in itertools.product((False, True), repeat=n):
            shapes.append((list(range(n)), zeros, False))
    # repeated factors: equal nodes that are distinct objects (parse("x*x")),
    # and one object standing at several places (x*x with one x)
    for labels in ([0, 0], [0, 1, 0], [0, 0, 0], [0, 0, 1, 1], [1, 0, 0]):
        for shared in (False, True):
            shapes.append((labels, tuple(False for _ in labels), shared))
        shapes.append((labels, tuple(lb == 1 for lb in labels), False))
    for labels, zeros_, shared in shapes:
        n = len(labels)
        # (a zero derivative belongs to the label, not to the position)
        zero_of = {}
        for lb, z in zip(labels, zeros_):
            zero_of[lb] = zero_of.get(lb, False) or z
        zeros = [zero_of[lb] for lb in labels]
        for _once in (0,):
            pool = {}
            kids = [(pool.setdefault(lb, Kid(lb)) if shared else Kid(lb))
                    for lb in labels]

            class Mp:
                pass
            mp = Mp()

            def rec(ch, *a, **k):
                return 0 if zero_of[ch[1]] else Poly.sym(f"d{ch[1]}")

            def undiff(ch, *a, **k):
                return Poly.sym(f"f{ch[1]}")

            def psum(it_, n_, a, k):
                tot = Poly()
                for x in a[0]:
                    tot = tot + Poly.lift(x)
                return tot

            def pprod(it_, n_, a, k):
                tot = Poly.const(1)
                for x in a[0]:
                    tot = tot * Poly.lift(x)
                return tot

            def attrs(it, node, base, attr):
                if base is mp:
                    if attr == "rec":
                        return rec
                    if attr == "rec_undiff":
                        return undiff
                    if attr in helpers:
                        return lambda *a, **k: it.call_function(
                            helpers[attr], [mp] + list(a),
                            {"__kwargs__": dict(k)})
                    raise AnalysisError(f"mapper attribute {attr}")
                if base == "NODE" and attr == "children":
                    return tuple(kids)
                return Opaque(ast.unparse(node))

            def is_zero(it_, n_, a, k):
                v = a[0]
                return (not v.t) if isinstance(v, Poly) else v == 0
            it = Interp(calls={
                "pymbolic.flattened_sum": psum, "flattened_sum": psum,
                "pymbolic.flattened_product": pprod, "flattened_product": pprod,
                "primitives.flattened_sum": psum,
                "primitives.flattened_product": pprod,
                "primitives.is_zero": is_zero, "is_zero": is_zero,
                "pymbolic.primitives.is_zero": is_zero},
                attrs=attrs, decide=lambda it_, n_, v: True, max_steps=50000,
                globals_={"primitives": Opaque("module primitives"),
                          "pymbolic": Opaque("module pymbolic")})
            want = Poly()
            for i in range(n):
                if zeros[i]:
                    continue
                t = Poly.sym(f"d{labels[i]}")
                for j in range(n):
                    if j != i:
                        t = t * Poly.sym(f"f{labels[j]}")
                want = want + t
            what = (f"{n} factors" if len(set(labels)) == n else
                    f"factors {labels} (equal labels are equal nodes, "
                    f"{'one object' if shared else 'distinct objects'})")
            try:
                got = it.call_function(fn, [mp, "NODE"], {})
            except Raised as r:
                wit.append(f"{what}, zero derivatives at "
                           f"{[i for i in range(n) if zeros[i]]}: raises at line "
                           f"{r.node.lineno}")
                continue
            if not isinstance(got, (Poly, int)) or Poly.lift(got) != want:
                wit.append(f"{what}, zero derivatives at "
                           f"{[i for i in range(n) if zeros[i]]}: {got!r} "
                           f"instead of {want!r}")
    return wit


def _conj(v, pol):
    if not isinstance(v, tuple):
        return
    if v[0] == "boolop" and v[1] == "And" and pol:
        for x in v[2]:
            yield from _conj(x, True)
    else:
        yield v, pol


def _linear_rules(ctx, model, dm):
    nt = model.nodes
    # sum: derivative of every child
    mem = model.lookup(dm, "map_sum")
    ok = False
    for ps in handler_summaries(model, nt.get("Sum"), mem.node):
        rv = ps.retval
        ok = rv[0] == "call" and rv[1].endswith("flattened_sum") and \
            rv[2][0][0] == "seq" and rv[2][0][3] == ("field", "children") \
            and not rv[2][0][4] and rv[2][0][2][0] == "rec" \
            and rv[2][0][2][1] == ("elem", ("field", "children")) \
            and rv[2][0][2][2]
    ctx.ob("E/map_sum", ok, where(mem),
           "(sum f_i)' = sum f_i'" if ok else
           "DifferentiationMapper.map_sum is not the sum of the derivatives of "
           "all children (with the extra arguments)")
    # product rule
    mem = model.lookup(dm, "map_product")
    ok = False
    CH = ("field", "children")
    I = ("other", "i")
    for ps in handler_summaries(model, nt.get("Product"), mem.node):
        rv = ps.retval
        if not (rv[0] == "call" and rv[1].endswith("flattened_sum")):
            continue
        s = rv[2][0]
        if not (s[0] == "seq" and s[3] == ("enumerate", CH) and not s[4]):
            continue
        el = s[2]
        if not (el[0] == "call" and el[1].endswith("flattened_product")):
            continue
        parts = _list_pieces(el[2][0], s[3])
        if len(parts) != 3:
            continue
        before, mid, after = parts

        def undiff_over(part, lo, hi):
            if not (part[0] == "seq" and not part[4] and part[3][0] == "slice"
                    and part[3][1] == CH):
                return False
            plo, phi = part[3][2], part[3][3]
            if plo is None:
                plo = ("const", 0)          # x[:i] is x[0:i]
            return (plo, phi) == (lo, hi) and part[2][0] == "call" \
                and part[2][1] == "self.rec_undiff" \
                and part[2][2][0] == ("elem", part[3])
        ok = (undiff_over(before, ("const", 0), I)
              and undiff_over(after, ("binop", "Add", I, ("const", 1)), None)
              and mid == ("lit", "list", (("rec", ("elem", CH), True, ()),)))
    if not ok:
        # the judge: the handler interpreted on products of 0..4 factors with
        # symbolic factors f_i and derivatives d_i (each d_i generic or zero)
        try:
            wit = _judge_product_rule(mem.node, mem.owner.node)
        except AnalysisError as e:
            wit = [f"(not interpretable: {e})"]
        if not wit:
            ok = True
        else:
            ctx.ob("E/map_product", False, where(mem),
                   "DifferentiationMapper.map_product is not the product rule: "
                   + "; ".join(wit[:2]))
            ok = None
    if ok is not None:
      ctx.ob("E/map_product", ok, where(mem),
           "(prod f_i)' = sum_i f_0..f_{i-1} * f_i' * f_{i+1}.. (order kept)"
           if ok else
           "DifferentiationMapper.map_product is not the product rule: for each "
           "i, the undifferentiated factors before i, the derivative of factor "
           "i, the undifferentiated factors after i")
    # chain rule in calls
    mem = model.lookup(dm, "map_call")
    ok = False
    for ps in handler_summaries(model, nt.get("Call"), mem.node):
        rv = ps.retval
        if not (rv[0] == "call" and rv[1].endswith("flattened_sum")):
            continue
        s = rv[2][0]
        if not (s[0] == "seq" and s[3] == ("enumerate", ("field", "parameters"))
                and not s[4]):
            continue
        el = s[2]
        if el[0] == "binop" and el[1] == "Mult":
            a, b = el[2], el[3]
            if b[0] == "call":
                a, b = b, a
            ok = (a[0] == "call" and a[1] == "self.function_map"
                  and a[2][0] == ("other", "i") and a[2][1] == ("field",
                                                                "function")
                  and a[2][2] == ("call", "self.rec_undiff",
                                  (("field", "parameters"),), ())
                  and dict(a[3]).get("allowed_nonsmoothness") == (
                      "self", "allowed_nonsmoothness")
                  and b == ("rec", ("elem", ("field", "parameters")), True, ()))
    ctx.ob("E/map_call", ok, where(mem),
           "f(p_0..)' = sum_i (d_i f)(p) * p_i'  over all parameters" if ok else
           "DifferentiationMapper.map_call is not the chain rule summed over all "
           "parameters (table row i times derivative of parameter i, with the "
           "non-smoothness setting passed on)")
    # variable / constant
    mem = model.lookup(dm, "map_variable")
    saw = {}
    from ..summary import split_conditionals
    for ps in summarize(mem.node):
        # (a conditional expression is the same two paths)
        variants = [(list(ps.conds), ps.retval)]
        if isinstance(ps.retval, tuple) and ps.term == "return":
            variants = [(list(ps.conds) + [(None, pol_, t_) for t_, pol_ in cs],
                         val_) for cs, val_ in split_conditionals(ps.retval)]
        for conds_, rv_ in variants:
            for _, pol, v in conds_:
                v = getattr(v, "val", v)
                if isinstance(v, tuple) and v[0] == "compare" and \
                        v[1] == ("Eq",) and \
                        {v[2], v[3][0]} == {NODE, ("self", "variable")}:
                    saw[pol] = rv_
    ok = saw.get(True) == ("const", 1) and saw.get(False) == ("const", 0)
    ctx.ob("E/map_variable", ok, where(mem),
           "dx/dx = 1, dy/dx = 0" if ok else
           "map_variable is not '1 if expr == self.variable else 0'")
    raw = dm.members.get("map_subscript")
    ok = raw is not None and raw.kind == "alias" and \
        ast.unparse(raw.node) == "map_variable"
    ctx.ob("E/map_subscript", ok, dm.loc(),
           "subscripts are differentiated like variables" if ok else
           "map_subscript is no longer map_variable")
    mem = model.lookup(dm, "map_constant")
    ok = all(ps.retval == ("const", 0) for ps in summarize(mem.node))
    ctx.ob("E/map_constant", ok, where(mem), "c' = 0" if ok else
           "map_constant does not return 0")
    # if
    mem = model.lookup(dm, "map_if")
    saw_raise = saw_ret = ungated_ret = False
    n_ret_if = 0
    okr = False
    for ps in handler_summaries(model, nt.get("If"), mem.node):
        gate = None
        for _, pol, v in ps.conds:
            if isinstance(v, tuple) and v[0] == "compare" and \
                    v[2] == ("self", "allowed_nonsmoothness") and \
                    v[3][0] == ("const", "discontinuous"):
                gate = pol if v[1] == ("NotEq",) else (not pol)
        if ps.term == "raise":
            saw_raise = saw_raise or gate is True
        elif ps.term == "return":
            n_ret_if += 1
            # (every way to a result has established that discontinuities
            # are allowed: no other test may open the gate)
            if gate is False:
                saw_ret = True
            else:
                ungated_ret = True
            rv = ps.retval
            okr = rv[0] == "ctor" and rv[2] == (
                ("field", "condition"), ("rec", ("field", "then"), True, ()),
                ("rec", ("field", "else_"), True, ()))
    saw_ret = saw_ret and not ungated_ret
    ctx.ob("P/map_if/gated", saw_raise and saw_ret, where(mem),
           "conditionals are refused unless discontinuities are allowed"
           if saw_raise and saw_ret else
           "map_if does not raise exactly when allowed_nonsmoothness != "
           "'discontinuous'")
    ctx.ob("E/map_if", okr, where(mem),
           "If(c, t, e)' = If(c, t', e')" if okr else
           "map_if does not rebuild If(condition, rec(then), rec(else_))")
    # CSE
    mem = model.lookup(dm, "map_common_subexpression_uncached")
    ok = False
    for ps in handler_summaries(model, nt.get("CommonSubexpression"), mem.node):
        rv = ps.retval
        # (the prefix is a naming hint for code generators: whatever is put
        # there, the wrapper means its child)
        ok = rv[0] == "ctor" and len(rv[2]) == 3 and rv[2][0] == (
            "rec", ("field", "child"), True, ()) and rv[2][2] == (
            "field", "scope")
    ctx.ob("E/map_common_subexpression_uncached", ok, where(mem),
           "CSE(x)' = CSE(x')" if ok else
           "the CSE rule does not rebuild the wrapper around the derivative of "
           "its child")
    mc = effective_member(model, dm, "map_common_subexpression")
    ok = mc is not None and mc.owner.name == "CSECachingMapperMixin"
    ctx.ob("S/cse-mixin", ok, dm.loc(), "CSE derivatives are cached per mapper")


def _list_pieces(v, outer_src):
    """a list value as the sequence of its pieces, whether it was written as a
    concatenation of lists or built by append / extend in loops: an element
    appended directly in the loop over *outer_src* is a one-element piece, an
    element appended in an inner loop is a comprehension over that loop"""
    if v[0] == "binop" and v[1] == "Add":
        return _list_pieces(v[2], outer_src) + _list_pieces(v[3], outer_src)
    if v[0] == "extend":
        prior, elem, src = v[1], v[2], v[3]
        piece = ("lit", "list", (elem,)) if src == outer_src or src is None \
            else ("seq", "list", elem, src, ())
        return _list_pieces(prior, outer_src) + [piece]
    return [v]


def _add_list(v):
    if v[0] == "binop" and v[1] == "Add":
        return _add_list(v[2]) + _add_list(v[3])
    return [v]


def _world_glob(model, m):
    """module environment with the module-level constants evaluated"""
    from ..absint import Interp, Opaque, Raised, StepBound, module_env
    glob = module_env(m.tree, {})
    it0 = Interp(globals_=glob, max_steps=2000,
                 attrs=lambda it_, n_, b, at: Opaque(ast.unparse(n_)))
    for st in m.tree.body:
        if isinstance(st, ast.Assign) and len(st.targets) == 1 and isinstance(
                st.targets[0], ast.Name) and st.targets[0].id not in glob:
            try:
                glob[st.targets[0].id] = it0.eval(st.value, glob)
            except (AnalysisError, Raised, StepBound):
                pass
    return glob


def _judge_init_setting(model, dm, init):
    """the constructor interpreted for each value of allowed_nonsmoothness:
    the three known settings (and the default) complete and are stored, any
    other value is refused.  -> witnesses"""
    from ..absint import Interp, Obj, Opaque, Raised, StepBound
    glob = _world_glob(model, dm.module)
    wit = []
    params = [a.arg for a in init.node.args.args]
    # every string the constructor or a module-level table mentions is a
    # candidate setting: only the three may pass
    mentioned = {c.value for c in ast.walk(init.node)
                 if isinstance(c, ast.Constant) and isinstance(c.value, str)
                 and len(c.value) < 24 and " " not in c.value}
    for st in dm.module.tree.body:
        if isinstance(st, ast.Assign) and isinstance(
                st.value, (ast.Tuple, ast.List, ast.Set)):
            mentioned |= {c.value for c in st.value.elts
                          if isinstance(c, ast.Constant)
                          and isinstance(c.value, str)}
    for val in ["<default>", None, "none", "continuous", "discontinuous",
                "bogus", "Continuous"] + sorted(
                    mentioned - {"none", "continuous", "discontinuous"}):
        me = Obj("DifferentiationMapper", {})
        noop = lambda it_, n_, a, k: None      # noqa: E731
        it = Interp(calls={"super().__init__": noop, "warn": noop,
                           "warnings.warn": noop},
                    globals_=glob, max_steps=4000,
                    attrs=lambda it_, n_, b, at: Opaque(ast.unparse(n_)))
        kw = {} if val == "<default>" else {"allowed_nonsmoothness": val}
        try:
            it.call_function(init.node, [me, "VAR"], dict(
                glob, __kwargs__=dict(kw)))
            done = True
        except Raised:
            done = False
        except StepBound:
            wit.append(f"allowed_nonsmoothness={val!r}: does not terminate")
            continue
        want_done = val in ("<default>", None, "none", "continuous",
                            "discontinuous")
        if done != want_done:
            wit.append(f"allowed_nonsmoothness={val!r}: construction "
                       + ("completes" if done else "is refused"))
            continue
        if done:
            stored = [v for k_, v in me.fields.items()
                      if "nonsmooth" in k_]
            want = "none" if val in ("<default>", None) else val
            if stored != [want]:
                wit.append(f"allowed_nonsmoothness={val!r}: the mapper keeps "
                           f"{stored!r}")
    return wit


def _judge_differentiate(model, m, fn):
    """differentiate() interpreted with the mapper class as a hook, for a
    name, a Variable and a Subscript: the mapper is made with the variable
    node (a name is turned into one), the function table and the setting the
    caller gave, and applied to the expression.  -> witnesses"""
    from ..absint import Interp, Obj, Opaque, Raised, StepBound
    glob = _world_glob(model, m)
    wit = []
    for what, var in (("a name", "x"),
                      ("a Variable", Obj("Variable", {"name": "x"})),
                      ("a Subscript", Obj("Subscript", {
                          "aggregate": Obj("Variable", {"name": "a"}),
                          "index": 0}))):
        made = []

        def DM(it_, nd, a, k, _m=made):
            _m.append((list(a), dict(k)))
            return lambda *a2, **k2: ("applied", len(_m) - 1, a2, k2)

        def mkvar(it_, nd, a, k):
            return Obj("Variable", {"name": a[0]})

        def isinst(it_, nd, a, k):
            names = [getattr(c, "what", "").split(".")[-1].split(" ")[-1]
                     for c in (a[1] if isinstance(a[1], tuple) else (a[1],))]
            if isinstance(a[0], Obj):
                return a[0].cls in names
            if isinstance(a[0], str):
                return "str" in names
            return False
        calls = {"DifferentiationMapper": DM, "isinstance": isinst}
        for pre in ("", "primitives.", "p.", "prim."):
            calls[pre + "make_variable"] = mkvar
            calls[pre + "Variable"] = mkvar
        it = Interp(calls=calls, globals_=glob, max_steps=4000,
                    attrs=lambda it_, n_, b, at: Opaque(ast.unparse(n_)))
        try:
            got = it.call_function(fn, ["EXPR", var], dict(
                glob, __kwargs__={"func_mapper": "FM",
                                  "allowed_nonsmoothness": "continuous"}))
        except Raised as r:
            wit.append(f"differentiating with respect to {what}: raises at "
                       f"line {getattr(r.node, 'lineno', '?')}")
            continue
        except StepBound:
            wit.append(f"{what}: does not terminate")
            continue
        if not (isinstance(got, tuple) and got[:1] == ("applied",)
                and got[2:] == (("EXPR",), {})):
            wit.append(f"{what}: answers {got!r}, not the mapper applied to "
                       "the expression")
            continue
        a, k = made[got[1]]
        names = ["variable", "func_map", "allowed_nonsmoothness"]
        bound = dict(zip(names, a))
        bound.update({("func_map" if kk == "func_mapper" else kk): v
                      for kk, v in k.items()})
        v_ = bound.get("variable")
        okv = (v_ is var) if isinstance(var, Obj) else (
            isinstance(v_, Obj) and v_.cls == "Variable"
            and v_.fields.get("name") == "x")
        if not okv:
            wit.append(f"{what}: the mapper is made for {v_!r}")
        elif bound.get("func_map") != "FM" or \
                bound.get("allowed_nonsmoothness") != "continuous":
            wit.append(f"{what}: the function table / the setting are not "
                       f"passed on ({bound})")
    return wit


def _entry(ctx, model, dm):
    init = dm.members.get("__init__")
    iwit = dwit = None
    try:
        iwit = _judge_init_setting(model, dm, init)
    except AnalysisError as e:
        ctx.extra["judge_unavailable:DifferentiationMapper.__init__"] = str(e)
    if iwit is not None:
        ctx.ob("P0/__init__/setting-semantics", not iwit, dm.loc(),
               "the constructor interpreted for seven values of "
               "allowed_nonsmoothness: the three settings and the default "
               "complete and are kept, anything else is refused" if not iwit
               else "DifferentiationMapper.__init__: " + "; ".join(iwit[:2]))
    m_, fn_ = model.func(f"{DIFF}:differentiate")
    try:
        dwit = _judge_differentiate(model, m_, fn_)
    except AnalysisError as e:
        ctx.extra["judge_unavailable:differentiate"] = str(e)
    if dwit is not None:
        ctx.ob("P0/differentiate/entry-semantics", not dwit, m_.loc(fn_),
               "differentiate() interpreted for a name, a Variable and a "
               "Subscript: the mapper is made for the variable node with the "
               "caller's function table and setting, and applied" if not dwit
               else "differentiate(): " + "; ".join(dwit[:2]))
    mark = len(ctx.obs)
    try:
        _entry_structural(ctx, model, dm)
    except AnalysisError:
        if iwit is None or iwit or dwit is None or dwit:
            raise
    for o in ctx.obs[mark:]:
        if not o.ok and ((o.key == "P/__init__/setting-validated"
                          and iwit is not None and not iwit) or
                         (o.key == "P/differentiate/entry"
                          and dwit is not None and not dwit)):
            o.ok = True
            o.what = "[shape not recognised; decided by interpretation] " + \
                o.what
            o.nontrivial = False


def _entry_structural(ctx, model, dm):
    init = dm.members.get("__init__")
    # path rule: construction completes only when the setting is one of the
    # three known values
    SET = ("param", "allowed_nonsmoothness")
    WANT = {"none", "continuous", "discontinuous"}
    ok = True
    saw_end = saw_raise = False
    for ps in summarize(init.node, node_param=False):
        member = None
        for _, pol, v in ps.conds:
            if isinstance(v, tuple) and v[0] == "compare" and \
                    v[1] in (("NotIn",), ("In",)) and len(v[3]) == 1 and \
                    isinstance(v[3][0], tuple) and v[3][0][0] in ("lit", "seq") \
                    and v[2] in (SET, ("const", "none")):
                vals = {x[1] for x in v[3][0][2] if x[0] == "const"}
                inside = pol if v[1] == ("In",) else not pol
                member = (vals, inside)
        if ps.term == "raise":
            saw_raise = True
            continue
        saw_end = True
        if member is None or not member[1] or member[0] != WANT:
            ok = False
    ok = ok and saw_end and saw_raise
    ctx.ob("P/__init__/setting-validated", ok, dm.loc(),
           "an unknown allowed_nonsmoothness value is rejected" if ok else
           "DifferentiationMapper.__init__ can complete with an "
           "allowed_nonsmoothness outside {'none', 'continuous', "
           "'discontinuous'}")
    m, fn = model.func(f"{DIFF}:differentiate")
    ok = True
    n_ret = 0
    for ps in summarize(fn, plain=True):
        if ps.term != "return":
            continue
        n_ret += 1
        rv = ps.retval
        callee = rv[4] if len(rv) >= 5 else None
        good = rv[0] == "call" and rv[2] == (("param", "expression"),) and \
            isinstance(callee, tuple) and callee[0] == "call" and \
            callee[1] == "DifferentiationMapper"
        if good:
            pos = list(callee[2])
            kw = dict(callee[3])
            var = pos[0] if pos else kw.get("variable")
            setting = pos[2] if len(pos) > 2 else kw.get("allowed_nonsmoothness")
            fm = pos[1] if len(pos) > 1 else kw.get("func_mapper")
            # what is known about the class of `variable` on this path
            from ..summary import facts_of
            VAR = ("param", "variable")

            def classes(c):
                if c[0] == "lit" and c[1] == "tuple":
                    return {x for y in c[2] for x in classes(y)}
                if c[0] == "attr":
                    return {c[2]}
                if c[0] == "global":
                    return {c[1]}
                raise AnalysisError("differentiate(): class test not "
                                    f"understood: {c}")
            known_node = known_not_name = known_name = False
            for _, pol0, v0 in ps.conds:
                if not isinstance(v0, tuple):
                    continue
                for v, pol in facts_of(v0, pol0):
                    if isinstance(v, tuple) and v[0] == "call" and \
                            v[1] == "isinstance" and v[2][0] == VAR:
                        cl = classes(v[2][1])
                        if cl <= {"Variable", "Subscript"}:
                            if pol:
                                known_node = True
                            else:
                                known_name = True    # everything else is
                                # taken for a name, as the entry point does
                        elif cl == {"str"}:
                            if pol:
                                known_name = True
                            else:
                                known_not_name = True
                        else:
                            raise AnalysisError(
                                "differentiate(): unexpected class test on "
                                f"the variable: {sorted(cl)}")
            converts = var is not None and var[0] == "call" and \
                var[1].endswith("make_variable") and var[2] == (VAR,)
            good = setting == SET and fm == ("param", "func_mapper") and (
                (var == VAR and (known_node or known_not_name)
                 and not known_name) or
                (converts and not known_node))
        ok = ok and good
    ok = ok and n_ret >= 1
    ctx.ob("P/differentiate/entry", ok, m.loc(fn),
           "differentiate() normalises the variable and passes the setting on"
           if ok else
           "differentiate() does not normalise a name into a Variable or does "
           "not pass allowed_nonsmoothness through")
