"""C13 -- generated Python code computes what the evaluator computes."""
from __future__ import annotations

import ast

from .. import AnalysisError
from ..grammar import NARY, flatten, show
from ..model import ClassInfo
from ..oracles import DENOT, NotShared, SYMBOL_TO_NODE, ast_ops, py_tree
from ..printer import ModelPrinter, Unsupported, extract_printer_table
from ..rules import (check_attr_existence, handler_summaries, is_raising,
                     mapper_node_pairs, where)
from ..summary import NODE, contains, summarize
from .c07 import check_importer

IAST = "pymbolic.interop.ast"
COMP = "pymbolic.compiler"


def run(ctx):
    model = ctx.model
    ctx.decide("attribute existence in every exporter handler; exporter "
               "operator table = evaluator denotation = importer's inverse, "
               "operands in order; right-fold helper keeps operand order; keyword "
               "arguments all exported")
    ctx.decide("compile(): listed variables first, remaining Variables (all "
               "composite kinds off) sorted by a string key, constants by repr; "
               "the printed source regroups under Python's own grammar to the "
               "same tree; pickling state matches _compile's parameters")
    ctx.decide("to_evaluatable_python_function: keyword-only parameters are "
               "exactly the Variables")
    ctx.decline("eval/exec of the generated text")
    ctx.assume("ast.unparse inserts the parentheses Python's grammar needs")

    _exporter(ctx, model)
    _printer_handlers_keep_no_state(ctx, model)
    _compile(ctx, model)
    _source_vs_python(ctx, model)
    _to_function(ctx, model)
    check_importer(ctx, model, "C13")
    _compiled_polynomial(ctx, model)


def _compiled_polynomial(ctx, model):
    """CompileMapper.map_polynomial writes a Horner scheme as text; the text,
    read as Python source over atoms B (the base) and C0, C1, ... (the
    coefficients, each printed as an atom), must denote sum C_i * B**e_i --
    interpreted abstractly (pv/absint.py) on enumerated exponent shapes"""
    from .. import kernels
    from ..grammar import _consts
    cm = model.cls("pymbolic.compiler:CompileMapper")
    mem = model.lookup(cm, "map_polynomial")
    if mem is None or mem.kind != "func":
        raise AnalysisError("CompileMapper.map_polynomial not found")
    consts = _consts(model, model.repo.module("pymbolic.mapper.stringifier"),
                     "PREC_")
    if len(consts) < 8:
        raise AnalysisError("precedence constants not found")
    hshapes = kernels.DEEP_EXPONENT_SHAPES if ctx.tier == "thorough" else \
        kernels.EXPONENT_SHAPES
    wit = kernels.horner_text_rule(mem.node, consts, shapes=hshapes,
                                   class_node=mem.owner.node)
    for pb, key, what in ((False, "P/CompileMapper.map_polynomial/text-value",
                           "an atom"),
                          (True, "P/CompileMapper.map_polynomial/text-value/"
                           "power-base", "itself a power")):
        w_ = [w for w in wit if w[4] == pb]
        ctx.ob(key, not w_, mem.owner.module.loc(mem.node),
               f"the generated text (base {what}) denotes sum coeff * base**exp "
               f"on {len(hshapes)} exponent shapes, also as an operand of * and "
               "**" if not w_ else
               f"the text generated for a Polynomial (base {what}) does not "
               "denote sum coeff * base**exp: " + "; ".join(
                   f"exponents {e} (enclosing precedence {p_}): '{got}' instead "
                   f"of {want}" for e, p_, got, want, _ in w_[:3]),
               {"shapes": [list(e) for e in hshapes]})


# ---------------------------------------------------------------------------
# exporter
# ---------------------------------------------------------------------------

def _ast_ctor(v):
    """('call', 'ast.X', args, kwargs) -> X"""
    if isinstance(v, tuple) and v and v[0] == "call" and v[1].startswith("ast."):
        return v[1][4:]
    return None


def _rec_of(v, field):
    return isinstance(v, tuple) and v and v[0] == "rec" and v[1] == ("field", field)


def _exporter_contexts(ctx, model, mp):
    """"running the generated code" includes handing the exported tree to
    Python's compile(): the node kinds that occur on either side of an
    assignment (Name, Attribute, Subscript, Starred, List, Tuple) have a
    required field `ctx`, which ast.fix_missing_locations does not supply.
    Every such node the exporter builds must be given one (oracle: the
    _fields of the interpreter's own ast classes)."""
    need = sorted(c.__name__ for c in vars(ast).values()
                  if isinstance(c, type) and issubclass(c, ast.expr)
                  and "ctx" in getattr(c, "_fields", ()))
    missing = []
    n_sites = 0
    for c in [mp] + model.subclasses(mp):
        if c.module is not mp.module:
            continue
        for st in ast.walk(c.node):
            if isinstance(st, ast.Call) and isinstance(st.func, ast.Attribute) \
                    and isinstance(st.func.value, ast.Name) and \
                    st.func.value.id == "ast" and st.func.attr in need:
                n_sites += 1
                cls_ = getattr(ast, st.func.attr)
                pos = list(cls_._fields).index("ctx")
                given = any(k.arg == "ctx" for k in st.keywords) or \
                    len(st.args) > pos or any(k.arg is None for k in st.keywords)
                if not given:
                    missing.append((c, st))
    ctx.floor("context-carrying ast nodes built by the exporter", n_sites, 4)
    c0, st0 = missing[0] if missing else (mp, mp.node)
    kinds = sorted({st.func.attr for _, st in missing})
    ctx.ob("X2/exporter/ast-nodes-carry-ctx", not missing, c0.module.loc(st0),
           f"all {n_sites} Name/Attribute/Subscript/List/Tuple nodes are built "
           "with a ctx" if not missing else
           f"the exporter builds ast.{', ast.'.join(kinds)} without the required "
           "field 'ctx': compile(ast.fix_missing_locations(ast.Expression("
           "to_python_ast(x + y))), ...) raises TypeError (required field "
           "\"ctx\" missing from Name), so the tree cannot be run")


def _exporter(ctx, model):
    mp = model.cls(f"{IAST}:PymbolicToASTMapper")
    ops = ast_ops()
    sym_of = {}
    for tab in ("binop", "unop", "boolops"):
        sym_of.update(ops[tab])
    ctx.floor("PymbolicToASTMapper slots", len(model.slots(mp)), 40)
    dedupe = set()
    n_pairs = 0
    for n, res, chain, mem in mapper_node_pairs(model, mp):
        if mem is None or mem.kind != "func":
            continue
        if res.via in ("unsupported", "foreign") or is_raising(mem):
            continue
        n_pairs += 1
        check_attr_existence(ctx, "X1", model, mp, n, mem, dedupe)
    ctx.floor("exporter (mapper, node) pairs", n_pairs, 20)
    _exporter_contexts(ctx, model, mp)

    # the fold helper
    hm = model.lookup(mp, "_map_multi_children_op")
    if hm is None or hm.kind != "func":
        raise AnalysisError("_map_multi_children_op not found")
    try:
        fwit = _judge_fold(model.inlined(hm.node), hm.owner.module.tree,
                           hm.owner.node)
    except AnalysisError as e:
        fwit = None
        ctx.extra["judge_unavailable:_map_multi_children_op"] = str(e)
    if fwit is not None:
        ctx.ob("P0/exporter/_map_multi_children_op/in-order", not fwit, where(hm),
               "the fold interpreted on 1..7 children: every mapped child is an "
               "operand of the nest of ast.BinOp nodes exactly once, in the "
               "order of the children, under the operator handed in"
               if not fwit else
               "_map_multi_children_op: " + "; ".join(fwit[:2]))
    try:
        fold = _analyse_fold(hm, model.inlined(hm.node))
    except AnalysisError:
        if fwit is None:
            raise
        # (shape not recognised; the interpretation has decided either way)
        fold = "in-order" if not fwit else "loses or reorders operands"
    if fwit is not None and not fwit:
        fold = "in-order"       # (shape not recognised; the interpretation decides)
    ctx.ob("E/exporter/_map_multi_children_op/order", fold == "in-order",
           where(hm),
           "children are exported in order and folded a op (b op (c ...))"
           if fold == "in-order" else
           f"_map_multi_children_op {fold}: operands reach ast.BinOp in the "
           "wrong order")

    _export_constant(ctx, model, mp)
    nt = model.nodes
    emitted = {}        # ast class name -> where the exporter builds it
    for cls, (kind, sym, fields) in sorted(DENOT.items()):
        try:
            n = nt.get(cls)
        except AnalysisError:
            continue
        res, chain, mem = model_resolve(model, mp, n)
        if mem is None or mem.kind != "func" or is_raising(mem) or \
                res.via == "unsupported":
            ctx.ob(f"E/exporter/{cls}/unsupported", True,
                   where(mem) if mem else mp.loc(),
                   f"{cls} is not exported (raises)", nontrivial=False)
            continue
        key = f"E/exporter/{cls}"
        pss = [ps for ps in handler_summaries(model, n, mem.node)
               if ps.term == "return"]
        if not pss:
            continue
        for ps in pss:
            rv = ps.retval
            ok, why = _judge_export(cls, kind, sym, fields, rv, sym_of)
            if ok and kind == "compare":
                ok, why = _export_comparison_table(model, mp, rv, sym_of)
            ctx.ob(key, ok, where(mem),
                   f"{cls} exported as {why}" if ok else
                   f"PymbolicToASTMapper.{mem.node.name} ({cls}): {why}",
                   {"denotes": sym or kind})
            contains(rv, lambda t: emitted.setdefault(t[1][4:], where(mem))
                     and False if t[0] == "call" and isinstance(t[1], str)
                     and t[1].startswith("ast.") else False)
    _importer_reads_exporter_output(ctx, model, emitted, sym_of)


def _importer_reads_exporter_output(ctx, model, emitted, sym_of):
    """sibling agreement: every kind of ast node the exporter builds for an
    evaluable expression has a handler in the importer, and every operator it
    uses an entry in the importer's tables -- else importing the exported tree
    raises NotImplementedError"""
    imp = model.cls("pymbolic.interop.ast:ASTToPymbolic")
    handlers = set()
    for k in model.mro(imp):
        if hasattr(k, "members"):
            handlers |= {m[4:] for m in k.members if m.startswith("map_")}
    keys = set()
    for tname in ("bin_op_map", "unary_op_map", "comparison_op_map",
                  "bool_op_map"):
        mem = imp.members.get(tname)
        if mem is None:
            continue
        val = mem.node.value if isinstance(mem.node, ast.AnnAssign) else mem.node
        if isinstance(val, ast.Dict):
            keys |= {k.attr for k in val.keys if isinstance(k, ast.Attribute)}
    n = 0
    for name, loc in sorted(emitted.items()):
        py = getattr(ast, name, None)
        if not (isinstance(py, type) and issubclass(py, ast.AST)):
            continue
        if not issubclass(py, (ast.expr, ast.operator, ast.unaryop, ast.boolop,
                               ast.cmpop)):
            continue        # keyword, expr_context ...: read by their parent
        n += 1
        if issubclass(py, (ast.operator, ast.unaryop, ast.boolop, ast.cmpop)):
            ok = name in keys
            what = f"operator ast.{name}"
        else:
            ok = name in handlers
            what = f"ast.{name} nodes"
        ctx.ob(f"S/importer-reads-exporter/{name}", ok, loc,
               f"{what}: written by the exporter, read by the importer" if ok else
               f"the exporter builds {what} but ASTToPymbolic has no "
               f"{'table entry' if 'operator' in what else 'map_' + name} for "
               "them: importing an exported tree raises NotImplementedError")
    ctx.floor("ast node kinds written by the exporter", n, 8)


def _export_constant(ctx, model, mp):
    """a number reaches the generated code through ast.unparse, which writes a
    Constant node as the bare repr of its value: for a negative number that is
    '-2', and '-2 ** x' is -(2 ** x).  So a possibly negative number must not
    be exported as a bare ast.Constant (path rule on map_constant)."""
    from ..summary import facts_of
    mem = model.lookup(mp, "map_constant")
    if mem is None or mem.kind != "func":
        raise AnalysisError("PymbolicToASTMapper.map_constant not found")
    n_ret = 0
    ok = True
    for ps in summarize(mem.node):
        if ps.term != "return":
            continue
        n_ret += 1
        rv = ps.retval
        if not (isinstance(rv, tuple) and rv[0] == "call" and
                rv[1] in ("ast.Constant", "ast.Num") and rv[2] and
                rv[2][0] == NODE):
            continue            # not the value itself as a bare constant
        facts = [f for _, pol, c in ps.conds if isinstance(c, tuple)
                 for f in facts_of(c, pol)]
        nonneg = False
        for v, pol in facts:
            if isinstance(v, tuple) and v[0] == "compare" and len(v[1]) == 1 \
                    and v[2] == NODE and v[3][0] == ("const", 0):
                op = v[1][0]
                if (op == "Lt" and not pol) or (op == "GtE" and pol) or \
                        (op == "Gt" and pol):
                    nonneg = True
            # "not (a real number and negative)": the unsplit false conjunction
            if isinstance(v, tuple) and v[0] == "boolop" and v[1] == "And" and \
                    not pol:
                has_neg = any(x[0] == "compare" and x[1] == ("Lt",)
                              and x[2] == NODE and x[3][0] == ("const", 0)
                              for x in v[2] if isinstance(x, tuple))
                reals = [str(x[2][1]) for x in v[2] if isinstance(x, tuple)
                         and x[0] == "call" and x[1] == "isinstance"
                         and x[2][0] == NODE]
                others = [x for x in v[2] if not (
                    isinstance(x, tuple) and (
                        (x[0] == "compare" and x[2] == NODE)
                        or (x[0] == "call" and x[1] == "isinstance")))]
                if has_neg and not others and all(
                        "'int'" in r and "'float'" in r for r in reals):
                    nonneg = True
            # text and truth values have no sign
            if isinstance(v, tuple) and v[0] == "call" and v[1] == "isinstance" \
                    and v[2][0] == NODE and pol and str(v[2][1]) in (
                        "('global', 'str')", "('global', 'bool')"):
                nonneg = True
        ok = ok and nonneg
    ctx.floor("exporter map_constant returning paths", n_ret, 1)
    ctx.ob("E/exporter/Constant/negative-not-bare", ok, where(mem),
           "a negative number is never exported as a bare ast.Constant" if ok else
           "PymbolicToASTMapper.map_constant exports any number as a bare "
           "ast.Constant; ast.unparse writes Constant(-2) as '-2', so "
           "Power(-2, x) becomes '-2 ** x' == -(2 ** x): "
           "to_evaluatable_python_function(Power(-2, x)) returns -4 at x = 2, "
           "evaluation gives 4")


def model_resolve(model, mp, n):
    from ..model import resolve_handler
    return resolve_handler(model, mp, n)


def _judge_fold(fn, module_tree, class_node=None):
    """interpretive judge (pv/absint.py).  -> witnesses"""
    from ..absint import Interp, Opaque, Raised, StepBound, module_env

    class Bin:
        def __init__(self, left, op, right):
            self.left, self.op, self.right = left, op, right

    def leaves(x, ops):
        if isinstance(x, Bin):
            ops.append(x.op)
            return leaves(x.left, ops) + leaves(x.right, ops)
        return [x]

    class Mp:
        pass

    class OpCls:
        def __init__(self, name):
            self.name = name

        def __call__(self):
            return OpInst(self.name)

    class OpInst:
        def __init__(self, name):
            self.name = name

    def type_(it, node, a, k):
        if isinstance(a[0], OpInst):
            return OpCls(a[0].name)
        raise AnalysisError("type() of a value")

    def isinst(it, node, a, k):
        what = getattr(a[1], "what", "")
        if what.split(" ")[-1] == "type":
            return isinstance(a[0], OpCls)
        if what.split(".")[-1] in ("operator", "AST"):
            return isinstance(a[0], OpInst)
        from ..absint import default_isinstance
        r = default_isinstance(a[0], a[1])
        if r is None:
            raise AnalysisError(f"isinstance(..., {a[1]!r})")
        return r
    glob = module_env(module_tree, {"ast": Opaque("ast")})
    wit = []
    # lengths 1..7, and the lengths around every size the code itself names
    # (a threshold at which it switches strategy) and around its double
    sizes = set(range(1, 8))
    consts = {}
    for st in (class_node.body if class_node is not None else []):
        tg, val = None, None
        if isinstance(st, ast.Assign) and len(st.targets) == 1:
            tg, val = st.targets[0], st.value
        elif isinstance(st, ast.AnnAssign):
            tg, val = st.target, st.value
        if isinstance(tg, ast.Name) and isinstance(val, ast.Constant):
            consts[tg.id] = val
    for c in list(ast.walk(fn)) + list(consts.values()):
        if isinstance(c, ast.Constant) and isinstance(c.value, int) and \
                not isinstance(c.value, bool) and 4 <= c.value <= 140:
            for b in (c.value, 2 * c.value):
                sizes |= {b - 1, b, b + 1, b + 2, b + 3}
    for n in sorted(sizes):
        kids = tuple(("child", i) for i in range(n))
        mp = Mp()

        def attrs(it, node, base, attr, _mp=mp):
            if base is _mp and attr == "rec":
                return lambda c, *a, **k: ("m", c[1])
            if base is _mp and attr in consts:
                return consts[attr].value
            if isinstance(base, Opaque) and base.what == "ast" and attr == "BinOp":
                return lambda *a, **k: Bin(
                    *(list(a) + [k[x] for x in ("left", "op", "right")
                                 if x in k])[:3]) if not k else Bin(
                    k.get("left", a[0] if a else None), k.get("op"),
                    k.get("right"))
            return Opaque(ast.unparse(node))
        it = Interp(attrs=attrs, globals_=glob, max_steps=400000,
                    calls={"type": type_, "isinstance": isinst})
        try:
            got = it.call_function(fn, [mp, kids, OpInst("OP")], dict(glob))
        except Raised as r:
            wit.append(f"{n} children: raises at line {r.node.lineno}")
            continue
        except StepBound:
            wit.append(f"{n} children: does not terminate")
            continue
        ops = []
        lv = leaves(got, ops)
        if lv != [("m", i) for i in range(n)]:
            shown = [x[1] if isinstance(x, tuple) else x for x in lv]
            wit.append(f"{n} children: operands reach the ast.BinOp nest as "
                       f"{shown if n < 12 else f'{len(shown)} operands, ending in {shown[-3:]}'}"
                       f", not 0..{n - 1} in order")
        elif any(not (isinstance(o, OpInst) and o.name == "OP") for o in ops):
            wit.append(f"{n} children: an ast.BinOp is built with another "
                       "operator than the one handed in")
    return wit


def _analyse_fold(hm, fn=None):
    """-> "in-order" | text describing what is wrong.  AnalysisError for shapes
    that are neither recognised as right nor as wrong."""
    fn = fn if fn is not None else hm.node
    params = [a.arg for a in fn.args.args]
    children, op = params[1], params[2]
    U = lambda n: ast.unparse(n).replace(" ", "")     # noqa: E731
    # the list of mapped children, in order
    L = None
    for n in ast.walk(fn):
        if isinstance(n, ast.Assign) and len(n.targets) == 1 and isinstance(
                n.targets[0], ast.Name) and isinstance(n.value, ast.ListComp):
            lc = n.value
            g = lc.generators[0]
            if len(lc.generators) == 1 and U(g.iter) == children and not g.ifs \
                    and U(lc.elt) == f"self.rec({U(g.target)})":
                L = n.targets[0].id
    if L is None:
        return "does not map every child in order"
    binops = [n for n in ast.walk(fn) if isinstance(n, ast.Call)
              and U(n.func) == "ast.BinOp"]
    # pairwise combination over two strided slices: zip() stops at the shorter
    # one, so a level of odd length loses its last element unless the loop
    # body itself deals with it
    for w in ast.walk(fn):
        if not isinstance(w, ast.While):
            continue
        for st in w.body:
            if isinstance(st, ast.Assign) and isinstance(st.value, ast.ListComp):
                it = st.value.generators[0].iter
                if isinstance(it, ast.Call) and U(it.func) == "zip" and \
                        len(it.args) == 2 and all(
                        isinstance(x, ast.Subscript) and isinstance(
                            x.slice, ast.Slice) and x.slice.step is not None
                        for x in it.args):
                    body_src = "".join(U(x) for x in w.body)
                    handles_odd = "%2" in body_src or "[-1]" in body_src or \
                        "zip_longest" in body_src or "divmod" in body_src
                    if not handles_odd:
                        return ("combines the mapped children pairwise with "
                                f"'{ast.unparse(it)}' in a loop that never looks "
                                "at an odd element out: zip() stops at the "
                                "shorter slice, so every level of odd length "
                                "loses an operand (6 operands -> 3 pairs -> 1 "
                                "pair, the third is dropped)")
                    raise AnalysisError("_map_multi_children_op: pairwise fold "
                                        "with odd-length handling not modelled")
    loops = [n for n in ast.walk(fn) if isinstance(n, ast.For)]
    if len(binops) != 1 or len(loops) != 1:
        raise AnalysisError("_map_multi_children_op: fold shape not recognised")
    lp, bo = loops[0], binops[0]
    it = U(lp.iter)
    var = U(lp.target)
    args = [U(a) for a in bo.args]
    # the accumulator: the name the BinOp is assigned to
    acc = None
    for n in ast.walk(lp):
        if isinstance(n, ast.Assign) and n.value is bo and isinstance(
                n.targets[0], ast.Name):
            acc = n.targets[0].id
    if acc is None:
        raise AnalysisError("_map_multi_children_op: accumulator not recognised")
    init = None
    for st in fn.body:
        if st is lp:
            break
        if isinstance(st, ast.Assign) and U(st.targets[0]) == acc:
            init = U(st.value)
    right_iters = (f"{L}[-2::-1]", f"reversed({L}[:-1])", f"{L}[:-1][::-1]")
    if it in right_iters and init == f"{L}[-1]":
        # right fold: BinOp(child, op, result)
        if args == [var, op, acc]:
            return "in-order"
        if args == [acc, op, var]:
            return f"builds ast.BinOp({acc}, op, child) in a right fold"
    if it == f"{L}[1:]" and init == f"{L}[0]":
        if args == [acc, op, var]:
            return "in-order"
        if args == [var, op, acc]:
            return f"builds ast.BinOp(child, op, {acc}) in a left fold"
    raise AnalysisError("_map_multi_children_op: fold shape not recognised")


def _printer_handlers_keep_no_state(ctx, model):
    """The source printer is re-entered for every nested node.  What a handler
    parks on the mapper instance for a helper to pick up (the text of a
    polynomial's base, a current precedence) is overwritten by the handler's
    own recursive calls before it is used: a polynomial whose coefficient
    contains a polynomial over another base is written with the inner base."""
    cm = model.cls(f"{COMP}:CompileMapper")
    n_h = 0
    for k in model.mro(cm):
        if not isinstance(k, ClassInfo) or k.module.name not in (
                COMP, "pymbolic.mapper.stringifier"):
            continue
        for name, mem in k.members.items():
            if mem.kind != "func" or not name.startswith("map_"):
                continue
            n_h += 1
            me = mem.node.args.args[0].arg if mem.node.args.args else "self"
            for st in ast.walk(mem.node):
                tgts = st.targets if isinstance(st, ast.Assign) else [
                    st.target] if isinstance(st, (ast.AugAssign, ast.AnnAssign)) \
                    else []
                for t in tgts:
                    if isinstance(t, ast.Attribute) and isinstance(
                            t.value, ast.Name) and t.value.id == me:
                        undone = any(
                            isinstance(tr, ast.Try) and tr.finalbody and any(
                                isinstance(x, ast.Attribute) and x.attr == t.attr
                                and isinstance(x.ctx, (ast.Store, ast.Del))
                                for f_ in tr.finalbody for x in ast.walk(f_))
                            for tr in ast.walk(mem.node))
                        ctx.ob(f"O/printer/{k.name}.{name}/keeps-no-state:"
                               f"{t.attr}", undone, k.module.loc(st),
                               "restored in a finally block" if undone else
                               f"{k.name}.{name} stores self.{t.attr} for the "
                               "duration of the handler; the handler's own "
                               "recursive calls re-enter it and overwrite the "
                               "attribute, so the outer node is written with "
                               "the inner node's value (x**2*(y**3 + 1) + 1 as "
                               "a polynomial in x with a polynomial in y as "
                               "coefficient)")
    ctx.floor("printer handlers scanned for instance state", n_h, 30)
    ctx.ob("O/printer/handlers-keep-no-state", True, cm.loc(),
           f"{n_h} handlers of the source printer looked at")


def _export_comparison_table(model, mp, rv, sym_of):
    """the table the exported operator is looked up in maps each comparison
    symbol to the ast class of that symbol"""
    names = set()
    contains(rv, lambda t: names.add(t[1][1]) and False
             if isinstance(t, tuple) and len(t) >= 2 and t[0] == "index"
             and isinstance(t[1], tuple) and t[1][0] == "self" else False)
    if len(names) != 1:
        return False, "the operator is not looked up in one table of the mapper"
    mem = model.lookup(mp, names.pop())
    v = None if mem is None or mem.kind == "func" else (
        mem.node.value if mem.kind == "ann" else mem.node)
    if not isinstance(v, ast.Dict):
        return False, "the comparison table is not a dict literal"
    bad = []
    for k, val in zip(v.keys, v.values):
        if not (isinstance(k, ast.Constant) and isinstance(k.value, str)
                and isinstance(val, ast.Attribute)):
            return False, "comparison table entry not of the form 'sym': ast.Cls"
        if ast_ops()["cmpops"].get(val.attr) != k.value:
            bad.append(f"'{k.value}' -> ast.{val.attr}")
    if bad:
        return False, "comparison table maps " + ", ".join(bad)
    if len(v.keys) < 6:
        return False, "comparison table has fewer than six entries"
    return True, "ast.Compare with the operator's own ast class"


def _judge_export(cls, kind, sym, fields, rv, sym_of):
    ctor = _ast_ctor(rv)
    if kind in ("nary", "binary"):
        if not (rv[0] == "call" and rv[1] == "self._map_multi_children_op"):
            if ctor == "BinOp":
                a = rv[2]
                opn = _ast_ctor(a[1])
                if sym_of.get(opn) != sym:
                    return False, f"emits ast.{opn} for '{sym}'"
                if not (_rec_of(a[0], fields[0]) and _rec_of(a[2], fields[1])):
                    return False, "operands are not (left, right) in field order"
                return True, f"ast.{opn}"
            raise AnalysisError(f"exporter: export value {str(rv)[:80]} is of a "
                                "form the checker cannot read")
        kids, opv = rv[2]
        opn = _ast_ctor(opv)
        if sym_of.get(opn) != sym:
            return False, (f"emits ast.{opn} ('{sym_of.get(opn)}') but the node "
                           f"denotes '{sym}'")
        if kind == "nary":
            if kids != ("field", fields):
                return False, f"operands are not expr.{fields}"
        else:
            want = ("lit", "tuple", tuple(("field", f) for f in fields))
            if kids != want:
                got = [k[1] if isinstance(k, tuple) and len(k) > 1 else k
                       for k in kids[2]] if kids[0] == "lit" else kids
                return False, (f"operands {got} are not the node's "
                               f"{list(fields)} in order")
        return True, f"ast.{opn}"
    if kind == "unary":
        if ctor != "UnaryOp":
            return False, f"not an ast.UnaryOp ({ctor})"
        opn = _ast_ctor(rv[2][0])
        if sym_of.get(opn) != sym:
            return False, f"emits ast.{opn} for '{sym}'"
        if not _rec_of(rv[2][1], fields[0]):
            return False, "operand is not the mapped child"
        return True, f"ast.{opn}"
    if kind == "nary-lazy":
        if ctor != "BoolOp":
            return False, f"not an ast.BoolOp ({ctor})"
        opn = _ast_ctor(rv[2][0])
        if sym_of.get(opn) != sym:
            return False, f"emits ast.{opn} for '{sym}'"
        seq = rv[2][1]
        if not (seq[0] == "seq" and seq[3] == ("field", fields) and not seq[4]
                and seq[2][0] == "rec"
                and seq[2][1] == ("elem", ("field", fields))):
            return False, "operands are not every child in order"
        return True, f"ast.{opn}"
    if kind == "ifexp":
        kw = dict(rv[3])
        pos = rv[2]
        test = kw.get("test", pos[0] if len(pos) > 0 else None)
        body = kw.get("body", pos[1] if len(pos) > 1 else None)
        orelse = kw.get("orelse", pos[2] if len(pos) > 2 else None)
        if ctor != "IfExp":
            return False, f"not an ast.IfExp ({ctor})"
        if not (_rec_of(test, "condition") and _rec_of(body, "then")
                and _rec_of(orelse, "else_")):
            return False, ("IfExp(test, body, orelse) is not (condition, then, "
                           "else_)")
        return True, "ast.IfExp"
    if kind == "call":
        kw = dict(rv[3])
        if ctor != "Call" or not _rec_of(kw.get("func"), "function"):
            return False, "func is not the mapped function"
        a = kw.get("args")
        if not (a and a[0] == "seq" and a[3] == ("field", "parameters")
                and not a[4] and a[2][0] == "rec"):
            return False, "args are not every positional parameter in order"
        k = kw.get("keywords")
        if "kw_parameters" in fields:
            okk = (k and k[0] == "seq" and not k[4]
                   and contains(k[3], lambda t: t == ("items", ("field",
                                                                "kw_parameters")))
                   and _ast_ctor(k[2]) == "keyword")
            if okk:
                kk = dict(k[2][3])
                okk = kk.get("arg") == ("key", ("field", "kw_parameters")) and \
                    kk.get("value", ("x",))[0] == "rec" and \
                    kk["value"][1] == ("val", ("field", "kw_parameters"))
            if not okk:
                return False, ("keywords are not one ast.keyword(arg=name, "
                               "value=mapped value) per keyword argument")
        elif k != ("lit", "list", ()):
            return False, "a plain call exports keywords"
        return True, "ast.Call"
    if kind == "getitem":
        kw = dict(rv[3])
        if ctor != "Subscript" or not _rec_of(kw.get("value"), "aggregate") \
                or not _rec_of(kw.get("slice"), "index"):
            return False, "Subscript(value, slice) is not (aggregate, index)"
        return True, "ast.Subscript"
    if kind == "getattr":
        if ctor != "Attribute" or not _rec_of(rv[2][0], "aggregate") \
                or rv[2][1] != ("field", "name"):
            return False, "Attribute(value, attr) is not (aggregate, name)"
        return True, "ast.Attribute"
    if kind == "lookup":
        kw = dict(rv[3])
        if ctor != "Name" or kw.get("id") != ("field", "name"):
            return False, "Name(id) is not the variable's name"
        return True, "ast.Name"
    if kind == "compare":
        # ast.Compare(left=rec(left), ops=[<table>[operator]()],
        #             comparators=[rec(right)]): one link per node
        kw = dict(rv[3]) if len(rv) > 3 else {}
        pos = list(rv[2])
        left = kw.get("left", pos[0] if pos else None)
        ops = kw.get("ops", pos[1] if len(pos) > 1 else None)
        comps = kw.get("comparators", pos[2] if len(pos) > 2 else None)
        if ctor != "Compare" or left is None or ops is None or comps is None:
            return False, "comparison export not recognised"
        if not _rec_of(left, "left"):
            return False, "Compare.left is not the mapped left operand"
        if not (comps[0] == "lit" and len(comps[2]) == 1 and
                _rec_of(comps[2][0], "right")):
            return False, "Compare.comparators is not [mapped right operand]"
        if not (ops[0] == "lit" and len(ops[2]) == 1 and contains(
                ops[2][0], lambda t: t in (("field", "operator"),
                                           ("attr", NODE, "operator")))):
            return False, "Compare.ops is not one operator looked up by the " \
                "node's operator"
        return True, "ast.Compare (operator table checked separately)"
    return True, "not judged"


# ---------------------------------------------------------------------------
# compile()
# ---------------------------------------------------------------------------

def _reserved_names(ctx, model, ce, compile_fn):
    """The namespace the generated lambda runs in predefines some names, and
    _compile takes every predefined name out of the parameter list.  That is
    sound for the *module* names the library's own function nodes refer to
    (math.sin is Lookup(Variable("math"), "sin")); any other predefined name
    swallows an ordinary free variable of that name (e, pi, gamma ...): it
    stops being a parameter and the code silently reads the namespace's value."""
    m = ce.module
    entries = []       # (key constant or None, value expr, node)
    unbounded = []

    def dict_entries(v, node):
        if isinstance(v, ast.Dict):
            for k, val in zip(v.keys, v.values):
                if k is None:
                    unbounded.append(node)
                elif isinstance(k, ast.Constant) and isinstance(k.value, str):
                    entries.append((k.value, val, node))
                else:
                    unbounded.append(node)
            return True
        if isinstance(v, ast.Call) and ast.unparse(v.func) == "dict" and \
                not v.args:
            for kw in v.keywords:
                if kw.arg is None:
                    unbounded.append(node)
                else:
                    entries.append((kw.arg, kw.value, node))
            return True
        if isinstance(v, (ast.DictComp,)):
            unbounded.append(node)
            return True
        return False

    cm = model.lookup(ce, "context")
    if cm is None or cm.kind != "func":
        raise AnalysisError("CompiledExpression.context not found")
    cfn = model.inlined(cm.node)
    local = {}
    for st in ast.walk(cfn):
        if isinstance(st, ast.Assign) and len(st.targets) == 1 and isinstance(
                st.targets[0], ast.Name):
            local[st.targets[0].id] = st.value
    n_ret = 0
    for st in ast.walk(cfn):
        if isinstance(st, ast.Return) and st.value is not None:
            n_ret += 1
            v = st.value
            if isinstance(v, ast.Name) and v.id in local:
                v = local[v.id]
            if not dict_entries(v, st):
                raise AnalysisError("CompiledExpression.context: returned value "
                                    "is not a dict display the rule can read")
    if not n_ret:
        raise AnalysisError("CompiledExpression.context returns nothing")
    # stores and bulk updates into the namespace, in context() and _compile():
    # the namespace is whatever is bound to the (copied) result of context()
    ns_names = set(local)
    for st in ast.walk(compile_fn):
        if isinstance(st, ast.Assign) and len(st.targets) == 1 and isinstance(
                st.targets[0], ast.Name) and any(
                isinstance(c, ast.Call) and ast.unparse(c.func).endswith(
                    ".context") for c in ast.walk(st.value)):
            ns_names.add(st.targets[0].id)
    for f in (cfn, compile_fn):
        for st in ast.walk(f):
            if isinstance(st, ast.Assign):
                for t in st.targets:
                    if isinstance(t, ast.Subscript) and isinstance(
                            t.value, ast.Name) and t.value.id in ns_names:
                        k = t.slice
                        if isinstance(k, ast.Constant) and isinstance(
                                k.value, str):
                            entries.append((k.value, st.value, st))
                        else:
                            unbounded.append(st)
            if isinstance(st, ast.Call) and isinstance(st.func, ast.Attribute) \
                    and st.func.attr == "update" and isinstance(
                        st.func.value, ast.Name) and st.func.value.id in ns_names:
                unbounded.append(st)

    def is_module(val, key):
        if not isinstance(val, ast.Name):
            return False
        imp = m.imports.get(val.id)
        return imp is not None and imp[0] == "module" and val.id == key
    bad = sorted({k for k, val, _ in entries if not is_module(val, k)})
    ctx.ob("T/compile/predefined-names-are-module-names",
           not bad and not unbounded, m.loc(cm.node),
           "the generated code's namespace predefines only "
           f"{sorted({k for k, _, _ in entries})}, the modules the library's own "
           "function nodes look things up in" if not bad and not unbounded else
           "the namespace of the generated code predefines " + (
               "an open-ended set of names (built from another namespace)"
               if unbounded else f"{bad}") +
           ", and _compile() drops every predefined name from the parameter "
           "list: a free variable called e, pi, gamma or inf is no longer a "
           "parameter of the compiled function (wrong argument count, or the "
           "namespace's value used silently)",
           {"predefined": sorted({k for k, _, _ in entries})})


def _judge_constant_text(model, cmap, mc):
    from ..absint import Interp, Obj, Opaque, Raised, StepBound, module_env
    from .c17 import NUMPY_SUBCLASSES
    if mc is None or mc.kind != "func":
        raise AnalysisError("CompileMapper.map_constant not found")

    class Np:
        """a numpy scalar of some concrete kind"""

        def __init__(self, kind, value):
            self.kind, self.value = kind, value

        def item(self):
            return self.value

        def __repr__(self):
            return f"np.{self.kind}({self.value!r})"
    up = {"bool_": {"bool_", "generic"},
          "signedinteger": {"signedinteger", "integer", "number", "generic"},
          "unsignedinteger": {"unsignedinteger", "integer", "number",
                              "generic"},
          "floating": {"floating", "inexact", "number", "generic"},
          "complexfloating": {"complexfloating", "inexact", "number",
                              "generic"}}
    glob = module_env(cmap.module.tree, {})
    from ..grammar import _consts
    for k_, v_ in _consts(model, model.repo.module(
            "pymbolic.mapper.stringifier"), "PREC_").items():
        glob[k_] = v_
    class PyType:
        """int / float / complex / bool as values (entries of a table)"""

        def __init__(self, t):
            self.t, self.what = t, "class " + t.__name__

        def __call__(self, v):
            return self.t(v.value if isinstance(v, Np) else v)
    for t_ in (int, float, complex, bool):
        glob[t_.__name__] = PyType(t_)
    # module-level tables (numpy kind -> Python type, ...)
    it0 = Interp(globals_=glob, max_steps=2000,
                 attrs=lambda it_, n_, b, at: Opaque(ast.unparse(n_)))
    for st in cmap.module.tree.body:
        if isinstance(st, ast.Assign) and len(st.targets) == 1 and isinstance(
                st.targets[0], ast.Name) and st.targets[0].id not in glob:
            try:
                glob[st.targets[0].id] = it0.eval(st.value, glob)
            except (AnalysisError, Raised, StepBound):
                pass

    def isinst(it, nd, a, k):
        v, c = a
        cs = c if isinstance(c, (tuple, list)) else (c,)
        names = []
        for x in cs:
            w = getattr(x, "what", None)
            if w is None:
                raise AnalysisError(f"isinstance(..., {x!r})")
            names.append(w.replace("class ", "").split(".")[-1].split(" ")[-1])
        if isinstance(v, Np):
            return bool(up[v.kind] & set(names))
        py = {"int": int, "float": float, "complex": complex, "bool": bool,
              "str": str}
        return any(nm in py and isinstance(v, py[nm]) for nm in names)

    def conv(t):
        def f(it, nd, a, k):
            v = a[0].value if isinstance(a[0], Np) else a[0]
            return t(v)
        return f

    def attrs(it, nd, base, attr):
        if isinstance(base, Opaque) and base.what.startswith("module num"):
            return Opaque(f"numpy.{attr}")
        if isinstance(base, Np) and attr == "item":
            return base.item
        return Opaque(ast.unparse(nd))

    def resolve(cls, nm):
        if cls == "__printer__":
            m_ = model.lookup(cmap, nm)
            if m_ is not None and m_.kind == "func":
                return ("func", m_.node)
        return None

    class _I(Interp):
        def stmt(self, st, env):
            if isinstance(st, (ast.Import, ast.ImportFrom)):
                for al in st.names:
                    env[(al.asname or al.name).split(".")[0]] = Opaque(
                        "module " + al.name)
                return
            return Interp.stmt(self, st, env)
    wit = []
    samples = [("int", 3), ("float", 2.5), ("int", -2), ("complex", 1j),
               ("numpy.bool_", Np("bool_", True)),
               ("numpy.int64", Np("signedinteger", 3)),
               ("numpy.uint8", Np("unsignedinteger", 200)),
               ("numpy.float64", Np("floating", 2.5)),
               ("numpy.complex128", Np("complexfloating", 1j))]

    class Other:
        """a constant of a class registered by the user: written with repr()
        (str() may be anything)"""

        def __repr__(self):
            return "Other(1)"

        def __str__(self):
            return "one"
    samples.append(("a constant of a user-registered class", Other()))
    for label, v in samples:
        it = _I(calls={"isinstance": isinst, "float": conv(float),
                       "int": conv(int), "complex": conv(complex),
                       "bool": conv(bool),
                       "repr": lambda it_, nd, a, k: repr(a[0]),
                       "getattr": lambda it_, nd, a, k: attrs(
                           it_, nd, a[0], a[1]) if isinstance(
                               a[0], (Opaque, Np)) else getattr(a[0], a[1])},
                attrs=attrs, resolve=resolve, globals_=dict(
                    glob, numpy=Opaque("module numpy"),
                    np=Opaque("module numpy")), max_steps=8000)
        me = Obj("__printer__", {})
        try:
            got = it.call_function(mc.node, [me, v, 0], dict(it.globals))
        except Raised as r:
            wit.append(f"{label}: raises at line "
                       f"{getattr(r.node, 'lineno', '?')}")
            continue
        except StepBound:
            wit.append(f"{label}: does not terminate")
            continue
        val = v.value if isinstance(v, Np) else v
        if not isinstance(got, str):
            wit.append(f"{label}: writes {got!r}")
            continue
        if isinstance(v, Other):
            if got.strip() != "Other(1)":
                wit.append(f"{label}: writes {got!r}, not its repr()")
            continue
        try:
            back = ast.literal_eval(got.strip())
        except (ValueError, SyntaxError):
            wit.append(f"{label}: writes {got!r}, which is not a Python "
                       "literal (numpy 2 spells its scalars np.int64(3), "
                       "np.True_: the generated source raises NameError)")
            continue
        if back != val or type(back) is not type(val):
            wit.append(f"{label}: writes {got!r} for the value {val!r}")
    return wit


def _judge_compile(model, ce, mem):
    """_compile interpreted with the dependency mapper, the source printer and
    eval() as hooks: the text handed to eval is
    'lambda <listed variables, then the other free variables by name, without
    the names of the evaluation context>: <what the source printer wrote at
    PREC_NONE>', evaluated in a context that has math (and numpy).
    -> witnesses"""
    from ..absint import Interp, Obj, Opaque, Raised, StepBound, module_env

    class V:
        """a variable node: equal to the variables of its name"""

        def __init__(self, name):
            self.name = name

        def __eq__(self, o):
            return isinstance(o, V) and o.name == self.name

        def __hash__(self):
            # (small integers: a set of these is iterated in the order
            # math, x, y, b, a -- not the order of the names, so that a
            # missing sort shows)
            return {"math": 0, "x": 1, "y": 2, "b": 3, "a": 4}.get(
                self.name, 5)

        def __str__(self):
            return self.name

        def __repr__(self):
            return f"Variable({self.name!r})"
    glob = module_env(ce.module.tree, {})

    def resolve(cls, nm):
        if cls == "CompiledExpression":
            m_ = model.lookup(ce, nm)
            if m_ is not None and m_.kind == "func":
                return ("func", m_.node)
        return None
    wit = []
    for listed, want in ((["x", V("y")], "lambda x,y,a,b: SRC"),
                         ([], "lambda a,b,x: SRC"),
                         (["b"], "lambda b,a,x: SRC"),
                         # a listed variable stays, whatever it is called
                         (["math", "x"], "lambda math,x,a,b: SRC")):
        seen = {}

        def mkvar(it, nd, a, k):
            return a[0] if isinstance(a[0], V) else V(a[0])

        def depmapper(it, nd, a, k):
            if k.get("composite_leaves") is not False and not (
                    k.get("include_subscripts") is False and
                    k.get("include_lookups") is False):
                raise AnalysisError("dependency mapper with composite leaves")
            return lambda e: {V("x"), V("b"), V("a"), V("math")}

        def printer(it, nd, a, k):
            def pr(e, prec=None, *a2):
                seen["prec"] = prec
                return "SRC"
            return pr

        def ev(it, nd, a, k):
            seen["text"] = a[0]
            seen["ctx"] = a[1] if len(a) > 1 else None
            return "CODE"
        calls = {"DependencyMapper": depmapper, "CompileMapper": printer,
                 "eval": ev, "str": lambda it_, nd, a, k: str(a[0])}
        for pre in ("", "primi.", "primitives.", "pymbolic.", "p.",
                    "pymbolic.primitives."):
            calls[pre + "make_variable"] = mkvar
            calls[pre + "var"] = mkvar
            calls[pre + "Variable"] = mkvar

        class _I(Interp):
            def stmt(self, st, env):
                if isinstance(st, (ast.Import, ast.ImportFrom)):
                    for al in st.names:
                        env[(al.asname or al.name).split(".")[0]] = Opaque(
                            "module " + al.name)
                    return
                return Interp.stmt(self, st, env)
        it = _I(calls=calls, resolve=resolve, globals_=dict(
            glob, PREC_NONE="PREC_NONE", math=Opaque("module math")),
            attrs=lambda it_, n_, b, at: (
                getattr(b, at) if isinstance(b, V) and at == "name"
                else Opaque(ast.unparse(n_))), max_steps=20000)
        it.set_order = "reversed"
        me = Obj("CompiledExpression", {})
        label = f"variables listed: {[str(v) for v in listed]}"
        try:
            it.call_function(mem.node, [me, "EXPR", list(listed)],
                             dict(it.globals))
        except Raised as r:
            wit.append(f"{label}: raises at line "
                       f"{getattr(r.node, 'lineno', '?')}")
            continue
        except StepBound:
            wit.append(f"{label}: does not terminate")
            continue
        text = seen.get("text")
        if not isinstance(text, str):
            wit.append(f"{label}: nothing is handed to eval()")
            continue
        norm = lambda t: t.replace(" ", "")      # noqa: E731
        if norm(text) != norm(want):
            wit.append(f"{label}: compiles {text!r}, expected {want!r} (free "
                       "variables a, b, x and the context name math)")
        elif seen.get("prec") != "PREC_NONE":
            wit.append(f"{label}: the source is written at precedence "
                       f"{seen.get('prec')!r}, not PREC_NONE")
        elif not (isinstance(seen.get("ctx"), dict) and "math" in seen["ctx"]):
            wit.append(f"{label}: the text is evaluated without the context "
                       "that holds math")
    return wit


def _compile(ctx, model):
    ce = model.cls(f"{COMP}:CompiledExpression")
    mem = ce.members.get("_compile")
    if mem is None or mem.kind != "func":
        raise AnalysisError("CompiledExpression._compile not found")
    cwit = None
    try:
        cwit = _judge_compile(model, ce, mem)
    except AnalysisError as e:
        ctx.extra["judge_unavailable:CompiledExpression._compile"] = str(e)
    if cwit is not None:
        ctx.ob("P0/compile/signature-semantics", not cwit, where(mem),
               "_compile interpreted on four variable lists: listed "
               "variables first, the other free variables by name, context "
               "names left out; source from the printer at PREC_NONE; evaluated "
               "with math in scope" if not cwit else
               "CompiledExpression._compile: " + "; ".join(cwit[:2]))
    mark = len(ctx.obs)
    try:
        _compile_structural(ctx, model)
    except AnalysisError:
        if cwit is None or cwit:
            raise
    if cwit is not None and not cwit:
        for o in ctx.obs[mark:]:
            if not o.ok and o.key in (
                    "P/compile/lambda-text", "P/compile/listed-variables-first",
                    "P/compile/excludes-listed-and-context",
                    "P/compile/source-from-compile-mapper",
                    "P/compile/sorted-by-name",
                    "T/compile/free-variables-are-variables"):
                o.ok = True
                o.what = "[shape not recognised; decided by interpreting " \
                    "_compile] " + o.what
                o.nontrivial = False


def _compile_structural(ctx, model):
    ce = model.cls(f"{COMP}:CompiledExpression")
    mem = ce.members.get("_compile")
    if mem is None or mem.kind != "func":
        raise AnalysisError("CompiledExpression._compile not found")
    fn = model.inlined(mem.node)
    loc = where(mem)
    src = ast.unparse(fn)
    # dependency mapper with all composite kinds off
    ok = False
    for c in ast.walk(fn):
        if isinstance(c, ast.Call) and ast.unparse(c.func).endswith(
                "DependencyMapper"):
            kws = {k.arg: ast.unparse(k.value) for k in c.keywords}
            ok = kws.get("composite_leaves") == "False" or (
                kws.get("include_subscripts") == "False"
                and kws.get("include_lookups") == "False"
                and kws.get("include_calls") in ("False", "'descend_args'"))
            ok = ok and kws.get("include_cses") in (None, "False")
    # the argument list of the generated code *is* what the dependency mapper
    # reports with the composite kinds off: a variable it passes over (one
    # that occurs only in a keyword argument, say) is missing from the
    # signature.  C09's rule instances on DependencyMapper are premises here.
    from .c09 import DEP, _check_dep_coverage, _check_flag_table
    dm_ = model.cls(f"{DEP}:DependencyMapper")
    _check_flag_table(ctx, model, dm_)
    _check_dep_coverage(ctx, model, dm_)
    ctx.ob("T/compile/free-variables-are-variables", ok, loc,
           "free variables come from DependencyMapper(composite_leaves=False)"
           if ok else
           "_compile does not collect free variables with every composite kind "
           "switched off, but builds parameter names from them")
    # ordering: sort with a string key
    sorts = []
    for c in ast.walk(fn):
        if isinstance(c, ast.Call) and isinstance(c.func, ast.Attribute) \
                and c.func.attr == "sort":
            sorts.append(c)
        if isinstance(c, ast.Call) and isinstance(c.func, ast.Name) \
                and c.func.id == "sorted":
            sorts.append(c)
    # only the sorts of the collected free variables matter here (sorting a
    # list of names for an error message is nobody's business)
    derived = set()
    for _ in range(4):
        for st in ast.walk(fn):
            if isinstance(st, (ast.Assign, ast.AugAssign)):
                tg = st.targets if isinstance(st, ast.Assign) else [st.target]
                src_ = ast.unparse(st.value)
                if "DependencyMapper" in src_ or any(
                        isinstance(x, ast.Name) and x.id in derived
                        for x in ast.walk(st.value)) or (
                        isinstance(st, ast.AugAssign) and isinstance(
                            st.target, ast.Name) and st.target.id in derived):
                    for t in tg:
                        for x in ([t] if isinstance(t, ast.Name) else
                                  t.elts if isinstance(t, (ast.Tuple, ast.List))
                                  else []):
                            if isinstance(x, ast.Name):
                                derived.add(x.id)

    def about_free_variables(c):
        operand = c.func.value if isinstance(c.func, ast.Attribute) else (
            c.args[0] if c.args else None)
        return operand is not None and ("DependencyMapper" in ast.unparse(
            operand) or any(isinstance(x, ast.Name) and x.id in derived
                            for x in ast.walk(operand)))
    sorts = [c for c in sorts if about_free_variables(c)]
    ok = bool(sorts)
    why = "free variables are sorted by a string key"
    for c in sorts:
        key = next((k.value for k in c.keywords if k.arg == "key"), None)
        if key is None:
            ok = False
            why = (f"'{ast.unparse(c)}' sorts Variable objects without a key: "
                   "expressions refuse ordering comparisons, so compiling an "
                   "expression with two or more unlisted free variables raises "
                   "TypeError")
        else:
            ks = ast.unparse(key)
            if not (ks == "str" or ".name" in ks or "str(" in ks
                    or ks.replace('"', "'") in ("attrgetter('name')",
                                                "operator.attrgetter('name')")):
                ok = False
                why = f"sort key {ks} is not a string key"
    if not sorts:
        why = "the remaining free variables are not sorted"
    ctx.ob("P/compile/sorted-by-name", ok, loc, why)
    # data flow of the evaluated text (semantic, not textual)
    evals = []
    for ps in summarize(fn, node_param=False):
        # attributes stored earlier on the path read back as the stored value
        stored = {e.name: e.value for e in ps.events if e.kind == "attrwrite"
                  and e.arg == ("selfobj",)}
        for e in ps.events:
            if e.kind == "call" and e.name == "eval" and e.args:
                evals.append((e.args, stored))
    if not evals:
        raise AnalysisError("_compile: eval(...) of the generated text not found")
    listed_first = excl_listed = excl_ctx = lam = src_ok = True
    for args, stored in evals:
        text = args[0]
        listed_vals = (("self", "_Variables"), stored.get("_Variables"))
        expr_vals = (("self", "_Expression"), stored.get("_Expression"))
        from ..rules import text_parts
        tp = text_parts(text)
        if tp is None or len(tp) != 4 or tp[0][0] != "const" or \
                tp[2][0] != "const" or tp[0][1].strip() != "lambda" or \
                tp[2][1].strip() != ":":
            lam = False
            continue
        params, body = tp[1], tp[3]
        # parameters: ",".join(str(v) for v in ALL)
        allv = None
        if params[0] == "strjoin" and params[1].strip() == "," and params[2] and \
                params[2][0][0] == "seq" and not params[2][0][4]:
            allv = params[2][0][3]
            el = params[2][0][2]
            if not (el[0] == "call" and el[1] == "str" and el[2] == (
                    ("elem", allv),)):
                lam = False
        else:
            lam = False
        if allv is not None:
            if not (allv[0] == "binop" and allv[1] == "Add"
                    and allv[2] in listed_vals):
                listed_first = False
            rest = allv[3] if allv[0] == "binop" else allv
            if not contains(rest, lambda t: t[0] == "binop" and t[1] == "Sub"
                            and any(t[3] in (("call", "set", (lv,), ()), lv)
                                    or (t[3][0] == "seq" and lv[0] == "seq"
                                        and t[3][2:] == lv[2:])
                                    for lv in listed_vals if lv is not None)):
                excl_listed = False
            if not contains(rest, lambda t: t[0] == "binop" and t[1] == "Sub"
                            and t[3][0] == "seq" and t[3][2][0] == "call"
                            and t[3][2][1].endswith("var")
                            and (t[3][3][0] == "keys" or contains(
                                t[3][3], lambda u: u[0] == "call" and
                                "context" in str(u[1])))):
                excl_ctx = False
        if not (body[0] == "call" and len(body) >= 5 and body[4] == (
                "call", "CompileMapper", (), ()) and len(body[2]) == 2
                and body[2][0] in expr_vals and body[2][0] is not None
                and body[2][1] == ("global", "PREC_NONE")):
            src_ok = False
    ctx.ob("P/compile/listed-variables-first", listed_first, loc,
           "listed variables, then the remaining free variables" if listed_first
           else "the argument list is not <listed variables> + <remaining free "
           "variables>")
    ctx.ob("P/compile/excludes-listed-and-context", excl_listed and excl_ctx, loc,
           "listed variables and context names are not parameters twice"
           if excl_listed and excl_ctx else
           "listed variables / context names are not removed from the free "
           "variables")
    _reserved_names(ctx, model, ce, fn)
    ctx.ob("P/compile/lambda-text", lam, loc,
           "lambda <all variables>: <expression text>" if lam else
           "the compiled text is not 'lambda <str of all variables, comma "
           "separated>: <source>'")
    ctx.ob("P/compile/source-from-compile-mapper", src_ok, loc,
           "source text comes from CompileMapper at PREC_NONE" if src_ok else
           "expression text is not CompileMapper()(expression, PREC_NONE)")
    # constants by repr
    cmap = model.cls(f"{COMP}:CompileMapper")
    mc = cmap.members.get("map_constant")
    ok = False
    if mc is not None and mc.kind == "func":
        param = mc.node.args.args[1].arg
        calls = [c for c in ast.walk(mc.node) if isinstance(c, ast.Call)
                 and isinstance(c.func, ast.Name) and c.func.id in ("repr", "str")
                 and len(c.args) == 1 and ast.unparse(c.args[0]) == param]
        ok = bool(calls) and all(c.func.id == "repr" for c in calls)
    # the judge: the constant handler interpreted on Python numbers and on
    # numpy scalars of every registered kind -- what it writes is a Python
    # literal of the number's value
    kwit = None
    try:
        kwit = _judge_constant_text(model, cmap, mc)
    except AnalysisError as e:
        ctx.extra["judge_unavailable:CompileMapper.map_constant"] = str(e)
    if kwit is not None:
        ctx.ob("P0/compile/constant-text", not kwit, cmap.loc(),
               "map_constant interpreted on Python numbers and numpy scalars "
               "(bool_, integer, floating, complexfloating): the text is the "
               "repr of the Python scalar" if not kwit else
               "CompileMapper.map_constant: " + "; ".join(kwit[:2]))
    constants_decided = kwit is not None and not kwit
    if not constants_decided:
        ctx.ob("P/compile/constants-by-repr", ok, cmap.loc(),
               "constants are emitted with repr()" if ok else
               "CompileMapper.map_constant does not emit repr(constant)")
    # ... and repr() of a numpy scalar is not a Python literal (numpy 2 writes
    # np.int64(3), np.True_): every numpy class that counts as a constant must
    # have been turned into the Python scalar first
    from .c17 import numpy_constants_not_normalised
    registered, missing = numpy_constants_not_normalised(model, mc)
    if registered and not constants_decided:
        ctx.ob("T/compile/map_constant/numpy-normalised", not missing, cmap.loc(),
               f"numpy constants {sorted(registered)} are converted to Python "
               "scalars before repr()" if not missing else
               "CompileMapper.map_constant converts numpy scalars to Python "
               f"scalars, but not numpy.{', numpy.'.join(missing)}: repr() of "
               "those is 'np.int64(3)' / 'np.True_' under numpy 2, so "
               "compile(x + numpy.int64(3)) builds source that raises NameError")
    # pickling
    gs = ce.members.get("__getstate__")
    ss = ce.members.get("__setstate__")
    from ..rules import rebuild_state_agrees
    ok, _state = rebuild_state_agrees(ce)
    ctx.ob("S/compile/pickle-state", ok, ce.loc(),
           "__getstate__ returns _compile's arguments in order, __setstate__ "
           "re-compiles" if ok else
           "__getstate__'s tuple does not match _compile's parameters in number "
           "and order, or __setstate__ does not re-invoke _compile(*state)")
    init = ce.members.get("__init__")
    ok = False
    if init is not None and init.kind == "func":
        prm = [a.arg for a in init.node.args.args]
        for c in ast.walk(init.node):
            if isinstance(c, ast.Call) and ast.unparse(c.func) == \
                    f"{prm[0]}._compile" and len(c.args) == 2 and \
                    not c.keywords and ast.unparse(c.args[0]) == prm[1]:
                # the variables as given, or an empty list where none were
                a2 = c.args[1]
                names = {x.id for x in ast.walk(a2) if isinstance(x, ast.Name)}
                ok = names <= {prm[2]} and prm[2] in names if len(prm) > 2 \
                    else False
    ctx.ob("P/compile/init", ok, ce.loc(),
           "constructor compiles (expression, variables)" if ok else
           "CompiledExpression.__init__ does not call _compile(expression, "
           "variables)")


# ---------------------------------------------------------------------------
# the source text under Python's own grammar
# ---------------------------------------------------------------------------

PY_KINDS = {
    "Sum": 2, "Product": 2, "Quotient": 2, "FloorDiv": 2, "Remainder": 2,
    "Power": 2, "LeftShift": 2, "RightShift": 2, "BitwiseNot": 1,
    "BitwiseOr": 2, "BitwiseXor": 2, "BitwiseAnd": 2, "Comparison": 2,
    "LogicalNot": 1, "LogicalOr": 2, "LogicalAnd": 2, "If": 3, "Call": 2,
    "Subscript": 2, "Lookup": 1,
}
ASSOC = {"Sum", "Product", "BitwiseOr", "BitwiseXor", "BitwiseAnd", "LogicalOr",
         "LogicalAnd"}


def assoc_flatten(t):
    if not isinstance(t, tuple) or not t:
        return t
    if isinstance(t[0], str):
        name = t[0]
        rest = tuple(assoc_flatten(x) if isinstance(x, tuple) else x
                     for x in t[1:])
        if name in ASSOC:
            out = []
            for c in rest[0]:
                if isinstance(c, tuple) and c and c[0] == name:
                    out.extend(c[1])
                else:
                    out.append(c)
            return (name, tuple(out))
        return (name,) + rest
    return tuple(assoc_flatten(x) if isinstance(x, tuple) else x for x in t)


def _source_vs_python(ctx, model):
    from .c06 import mk, posname
    table = extract_printer_table(model, f"{COMP}:CompileMapper",
                                  node_names=set(PY_KINDS) | {"Variable",
                                                              "Rational"})
    missing = [k for k in PY_KINDS if k not in table.templates]
    if missing:
        raise AnalysisError(f"CompileMapper: no template for {missing} "
                            f"({table.notes})")
    # constants: repr, no parenthesisation rule of its own -> negative
    # constants rely on Python's grammar
    printer = ModelPrinter(model, table)
    V = [("Var", n) for n in "abcdefgh"]
    leaves = {"Var": ("Var", "v"), "Int": ("Const", 3), "NegInt": ("Const", -1),
              "Float": ("Const", 2.5)}
    loc = "pymbolic/compiler.py"
    n = 0
    for P, ar in PY_KINDS.items():
        for pos in range(ar):
            for C in list(PY_KINDS) + list(leaves):
                if C in ("Int", "NegInt", "Float") and (P, pos) in (
                        ("Call", 0), ("Subscript", 0), ("Lookup", 0)):
                    continue   # a number is not called, indexed or looked into
                vs = iter(V)
                kids = [next(vs) for _ in range(ar)]
                kids[pos] = leaves[C] if C in leaves else mk(
                    C, [next(vs) for _ in range(PY_KINDS[C])])
                t = mk(P, kids)
                key = f"T/py-source/{P}.{posname(P, pos)}<-{C}"
                try:
                    s = printer.print(t, 0)
                except Unsupported as e:
                    raise AnalysisError(f"CompileMapper model: {e}")
                try:
                    back = py_tree(s)
                except NotShared as e:
                    ctx.ob(key, False, loc, f"{show(t)} compiles to the source "
                           f"'{s}', which Python does not read back ({e})",
                           {"source": s})
                    continue
                n += 1
                ok = assoc_flatten(back) == assoc_flatten(_negconst(t))
                ctx.ob(key, ok, loc,
                       f"'{s}' means the same tree to Python" if ok else
                       f"{show(t)} compiles to the source '{s}', which Python "
                       f"groups as {show(back)}", {"source": s})
    ctx.floor("python-source nestings", n, 400)
    # powers with the literal exponents 0, 1, 2 (a handler may write them as
    # 1, u, u*u): whichever spelling, the base keeps the parentheses it needs
    # as an operand of that spelling, and the whole those of its place -- for
    # every class of base, under every parent and position
    def small_powers(t):
        if not isinstance(t, tuple) or not t:
            return t
        if isinstance(t[0], str):
            rest = tuple(small_powers(x) if isinstance(x, tuple) else x
                         for x in t[1:])
            if t[0] == "Power" and rest[1] in (("Const", 0), ("Const", 1),
                                               ("Const", 2)):
                e = rest[1][1]
                return ("Const", 1) if e == 0 else rest[0] if e == 1 else (
                    "Product", (rest[0], rest[0]))
            return (t[0],) + rest
        return tuple(small_powers(x) if isinstance(x, tuple) else x for x in t)
    n_pw = 0
    for e_ in (2, 1, 0):
        for P, ar in PY_KINDS.items():
            for pos in range(ar):
                if P in ("Call", "Subscript", "Lookup") and pos == 0 and e_ == 0:
                    continue
                for C in list(PY_KINDS) + ["Var"]:
                    vs = iter(V)
                    kids = [next(vs) for _ in range(ar)]
                    base = leaves[C] if C in leaves else mk(
                        C, [next(vs) for _ in range(PY_KINDS[C])])
                    kids[pos] = ("Power", base, ("Const", e_))
                    t = mk(P, kids)
                    key = f"T/py-source/{P}.{posname(P, pos)}<-{C}**{e_}"
                    try:
                        s = printer.print(t, 0)
                        back = py_tree(s)
                    except Unsupported as e:
                        raise AnalysisError(f"CompileMapper model: {e}")
                    except NotShared as e:
                        ctx.ob(key, False, loc, f"{show(t)} compiles to the "
                               f"source '{s}', which Python does not read back "
                               f"({e})", {"source": s})
                        continue
                    n_pw += 1
                    ok = assoc_flatten(small_powers(back)) == \
                        assoc_flatten(small_powers(t))
                    if not ok or e_ == 2 and C in ("FloorDiv", "Remainder", "Sum"):
                        ctx.ob(key, ok, loc,
                               f"'{s}' means the same to Python" if ok else
                               f"{show(t)} compiles to the source '{s}', which "
                               f"Python groups as {show(back)}", {"source": s})
    ctx.ob("T/py-source/small-literal-exponents", True, loc,
           f"{n_pw} nestings of u**0, u**1, u**2 printed and read back")
    # the exact-quotient node (pymbolic.rational.Rational) is written like a
    # quotient; as an operand it needs whatever parentheses a quotient needs
    if "Rational" in table.templates:
        half = ("Rational", ("Const", 1), ("Const", 2))
        halfq = ("Quotient", ("Const", 1), ("Const", 2))
        for P in ("Product", "Quotient", "FloorDiv", "Remainder", "Power", "Sum"):
            for pos in range(PY_KINDS[P]):
                kids = [V[0], V[1]][:PY_KINDS[P]]
                kids[pos] = half
                t = mk(P, kids)
                kids2 = list(kids)
                kids2[pos] = halfq
                want = mk(P, kids2)
                key = f"T/py-source/{P}.{posname(P, pos)}<-Rational"
                try:
                    s_ = printer.print(t, 0)
                    back = py_tree(s_)
                except (Unsupported, NotShared) as e:
                    raise AnalysisError(f"CompileMapper model on a Rational: {e}")
                ok = assoc_flatten(back) == assoc_flatten(_negconst(want))
                ctx.ob(key, ok, loc,
                       f"'{s_}' means the same tree to Python" if ok else
                       f"{show(t)} compiles to the source '{s_}', which Python "
                       f"groups as {show(back)}: a / Rational(1, 2) computes "
                       "(a / 1) / 2", {"source": s_})
    else:
        raise AnalysisError("CompileMapper: no template for Rational "
                            f"({table.notes})")


def _negconst(t):
    """Python reads '-1' as USub(1), which the oracle turns into Const(-1)
    only for literal operands; normalise (-1)*x spellings alike"""
    return t


# ---------------------------------------------------------------------------

def _to_function(ctx, model):
    m, fn = model.func(f"{IAST}:to_evaluatable_python_function")
    loc = m.loc(fn)
    ok = False
    reads_name = ".name" in ast.unparse(fn)
    for c in ast.walk(fn):
        if isinstance(c, ast.Call) and ast.unparse(c.func).endswith(
                "DependencyMapper"):
            kws = {k.arg: ast.unparse(k.value) for k in c.keywords}
            ok = kws.get("composite_leaves") == "False" or (
                kws.get("include_subscripts") == "False"
                and kws.get("include_lookups") == "False"
                and kws.get("include_calls") in ("False", "'descend_args'"))
    ctx.ob("T/to_function/parameters-are-variables", ok or not reads_name, loc,
           "parameter names come from Variables only" if ok else
           "to_evaluatable_python_function collects dependencies with composite "
           "leaves switched ON and then reads .name off each: a call or subscript "
           "in the expression raises AttributeError, and its variables never "
           "become parameters")
    # (def-use: names are followed to the single expression assigned to them)
    U = lambda n: ast.unparse(n).replace(" ", "")       # noqa: E731

    def resolve(e, depth=0):
        if isinstance(e, ast.Name) and depth < 4:
            vals = [st.value for st in ast.walk(fn) if isinstance(st, ast.Assign)
                    and len(st.targets) == 1 and isinstance(st.targets[0],
                                                            ast.Name)
                    and st.targets[0].id == e.id]
            if len(vals) == 1:
                return resolve(vals[0], depth + 1)
        return e

    fdefs = [c for c in ast.walk(fn) if isinstance(c, ast.Call)
             and U(c.func) == "ast.FunctionDef"]
    if len(fdefs) != 1:
        raise AnalysisError("to_evaluatable_python_function: ast.FunctionDef "
                            "construction not found")
    fkw = {k.arg: resolve(k.value) for k in fdefs[0].keywords}
    sig = fkw.get("args")
    ok = False
    if isinstance(sig, ast.Call) and U(sig.func) == "ast.arguments":
        akw = {k.arg: k.value for k in sig.keywords}
        kwo = resolve(akw.get("kwonlyargs")) if "kwonlyargs" in akw else None
        empties = all(U(akw.get(x, ast.Constant(value=None))) in ("[]", "None")
                      for x in ("args", "posonlyargs", "vararg", "kwarg",
                                "defaults"))
        if isinstance(kwo, ast.ListComp) and len(kwo.generators) == 1 and \
                not kwo.generators[0].ifs and isinstance(kwo.elt, ast.Call) and \
                U(kwo.elt.func) == "ast.arg" and kwo.elt.args and \
                U(kwo.elt.args[0]) == U(kwo.generators[0].target):
            names = resolve(kwo.generators[0].iter)
            sorted_names = isinstance(names, ast.Call) and \
                U(names.func) == "sorted" and len(names.args) == 1 and \
                isinstance(names.args[0], (ast.SetComp, ast.ListComp,
                                           ast.GeneratorExp)) and \
                isinstance(names.args[0].elt, ast.Attribute) and \
                names.args[0].elt.attr == "name"
            ok = empties and sorted_names
    ctx.ob("P/to_function/kwonly-sorted", ok, loc,
           "keyword-only parameters, sorted" if ok else
           "the function's parameters are not the sorted dependency names as "
           "keyword-only arguments")
    body = fkw.get("body")
    ok = False
    if isinstance(body, ast.List) and len(body.elts) == 1:
        ret = resolve(body.elts[0])
        ok = isinstance(ret, ast.Call) and U(ret.func) == "ast.Return" and \
            len(ret.args) == 1 and isinstance(resolve(ret.args[0]), ast.Call) and \
            U(resolve(ret.args[0]).func) == "to_python_ast" and \
            U(resolve(ret.args[0]).args[0]) == fn.args.args[0].arg
    ctx.ob("P/to_function/body", ok, loc,
           "body returns the exported expression" if ok else
           "function body is not 'return <exported expression>'")
