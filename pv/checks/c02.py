"""C02 -- evaluation gives every node type its standard meaning."""
from __future__ import annotations

import ast

from .. import AnalysisError
from ..model import ClassInfo, resolve_handler
from ..oracles import DENOT, OPERATOR_FUNCS
from ..rules import (effective_member, check_attr_existence, child_kinds, handler_summaries,
                     is_raising, mapper_node_pairs, where)
from ..summary import NODE, base_field, contains, rec_fields, summarize

EV = "pymbolic.mapper.evaluator"
PRIM = "pymbolic.primitives"

BINOP = {"/": "Div", "//": "FloorDiv", "%": "Mod", "**": "Pow", "<<": "LShift",
         ">>": "RShift"}
UNOP = {"~": "Invert", "not": "Not"}


def R(f):
    return ("rec", ("field", f), True, ())


def _seq_over(v, f):
    """v is a comprehension/generator of rec(child) over all of expr.f"""
    return (isinstance(v, tuple) and v and v[0] == "seq"
            and v[2] == ("rec", ("elem", ("field", f)), True, ())
            and v[3] == ("field", f) and not v[4])


def run(ctx):
    model = ctx.model
    ctx.decide("per-handler denotation of EvaluationMapper (operator identity and "
               "operand order) for every node type the property lists; comparison "
               "table; only the selected branch of a conditional is evaluated; "
               "unknown variables raise UnknownVariableError(name); no handler "
               "catches arithmetic errors; every child is evaluated; unhandled "
               "node types raise; cached variants add no handlers; the "
               "memoizing evaluator's look-aside (CachedMapper.__call__ and "
               "get_cache_key, the rule instances of C05) keys on the expression "
               "itself and stores what the handler returned")
    ctx.decline("arithmetic of the underlying number types; map_polynomial, "
                "map_nan, map_if_positive (outside the statement)")
    ctx.assume("pytools.product multiplies its arguments in order; "
               "functools.reduce folds left to right")

    ev = model.cls(f"{EV}:EvaluationMapper")
    nt = model.nodes
    ctx.floor("EvaluationMapper slots", len(model.slots(ev)), 33)
    judged = 0
    for cls, (kind, sym, fields) in sorted(DENOT.items()):
        n = nt.get(cls)
        res, chain, mem = resolve_handler(model, ev, n)
        key = f"E/EvaluationMapper/{cls}"
        # the judge: the handler -- a def, an alias, or a function made by a
        # factory in the class body -- interpreted on abstract operands
        jwit = None
        if kind not in ("identity", "lookup") \
                and res.via != "unsupported":
            from .. import evaljudge
            try:
                jwit, n_cases, (jowner, jmem) = evaluate_judge(
                    evaljudge, model, ev, cls, n, kind, sym, fields)
            except AnalysisError as e:
                ctx.extra.setdefault("judge_unavailable:evaluator-handlers",
                                     []).append(f"{cls}: {e}")
        if jwit is not None:
            loc_ = jowner.module.loc(jmem.node)
            ctx.ob(f"E0/EvaluationMapper/{cls}/denotation", not jwit, loc_,
                   f"{cls}: interpreted on {n_cases} operand scenario(s), "
                   f"computes {sym or kind} of the operands' values, evaluating "
                   "what Python would" if not jwit else
                   f"EvaluationMapper's handler for {cls}: " + "; ".join(jwit[:2]))
            if not jwit:
                judged += 1
                ctx.ob(key, True, loc_, f"{cls}: decided by interpretation",
                       {"denotes": sym or kind}, nontrivial=False)
                continue
        if mem is None or mem.kind != "func" or res.via == "unsupported" or \
                is_raising(mem):
            ctx.ob(key, False, ev.loc(),
                   f"EvaluationMapper has no (non-raising) handler for {cls}, "
                   "which the property lists as evaluable")
            continue
        pss = [ps for ps in handler_summaries(model, n, mem.node)]
        ok, why = _judge(model, cls, kind, sym, fields, pss, mem)
        judged += 1
        ctx.ob(key, ok, where(mem),
               f"{cls}: {why}" if ok else
               f"EvaluationMapper.{mem.node.name} ({cls}): {why}",
               {"denotes": sym or kind, "via": "/".join(chain)})
    ctx.floor("denotations judged", judged, 24)
    _comparison_table(ctx, model)
    _foreign(ctx, model, ev)
    _errors(ctx, model, ev)
    _coverage(ctx, model, ev)
    _variants(ctx, model)


def evaluate_judge(evaljudge, model, ev, cls, n, kind, sym, fields):
    return evaljudge.judge(model, ev, cls, n.mapper_method, kind, sym, fields)


def _judge(model, cls, kind, sym, fields, pss, mem):
    rets = [ps for ps in pss if ps.term == "return"]
    if not rets:
        return False, "no returning path"
    if kind == "binary":
        want = ("binop", BINOP[sym], R(fields[0]), R(fields[1]))
        ok = all(ps.retval == want for ps in rets)
        return ok, (f"rec({fields[0]}) {sym} rec({fields[1]})" if ok else
                    f"result is not rec({fields[0]}) {sym} rec({fields[1]}) "
                    f"(operator or operand order): "
                    f"{ast.unparse(rets[0].items[-1][1])}")
    if kind == "unary":
        want = ("unop", UNOP[sym], R(fields[0]))
        ok = all(ps.retval == want for ps in rets)
        return ok, (f"{sym} rec({fields[0]})" if ok else
                    f"result is not {sym} rec({fields[0]})")
    if kind in ("nary", "nary-lazy", "nary-call"):
        rv = rets[0].retval
        f = fields
        acc = ("rec", ("elem", ("field", f)), True, ())
        if sym in ("+", "*") and rv[0] == "binop" and rv[1] == (
                "Add" if sym == "+" else "Mult") and rv[3] == acc and rv[2] in (
                ("const", 0 if sym == "+" else 1),):
            # result = neutral; for child in children: result = result OP rec(child)
            # -- and no exit from the loop that depends on a computed value:
            # a short-circuit skips operands whose evaluation may raise
            for ps in rets:
                if ps.retval != rv:
                    return False, "the fold returns different values on " \
                        "different paths"
                for _, pol, v in ps.conds:
                    if isinstance(v, tuple) and contains(
                            v, lambda t: t[0] in ("rec", "binop")):
                        return False, (
                            "the fold over the children leaves (or branches "
                            "inside) the loop depending on a computed value: "
                            "operands after that point are not evaluated, so "
                            "their errors are swallowed")
            return True, "left fold of the children in order"
        if sym == "+":
            ok = rv[0] == "call" and rv[1] == "sum" and len(rv[2]) == 1 and \
                _seq_over(rv[2][0], f)
            return ok, "sum of the children in order" if ok else \
                "result is not sum(rec(child) for child in children)"
        if sym == "*":
            ok = rv[0] == "call" and rv[1] in ("product", "pytools.product",
                                               "math.prod", "prod") \
                and _seq_over(rv[2][0], f)
            return ok, "product of the children in order" if ok else \
                "result is not product(rec(child) for child in children)"
        if sym in ("|", "^", "&"):
            fn = OPERATOR_FUNCS[sym]
            ok = rv[0] == "call" and rv[1] in ("reduce", "functools.reduce") and \
                len(rv[2]) == 2 and rv[2][0][0] == "attr" and \
                rv[2][0][1][0] == "global" and rv[2][0][1][1] in ("op",
                                                                  "operator") \
                and rv[2][0][2] == fn and _seq_over(rv[2][1], f)
            return ok, f"reduce(operator.{fn}, children)" if ok else \
                (f"result is not reduce(operator.{fn}, rec(children)): "
                 f"{ast.unparse(rets[0].items[-1][1])}")
        if sym in ("or", "and"):
            # the judge: the handler interpreted on every chain of up to three
            # operands drawn from {0, 2, "", "s", False, True}; value, type and
            # the sequence of evaluated operands must be Python's
            from .. import evaljudge
            try:
                wit, n_ = evaljudge.judge_logical(mem.node, sym, mem.owner.node)
            except AnalysisError:
                wit, n_ = None, 0
            if wit is None:
                pass                # judge unavailable: the structural reading
            elif wit:
                return False, (f"'{sym}' chains are not evaluated as Python "
                               f"evaluates them: {wit[0][:260]}"
                               + (f" (and {len(wit) - 1} more of {n_} chains)"
                                  if len(wit) > 1 else ""))
            else:
                return True, (f"as Python's '{sym}' on {n_} operand chains: "
                              "same value, same operands evaluated, in the same "
                              "order")
            fn = {"or": "any", "and": "all"}[sym]
            if rv[0] == "call" and rv[1] == fn and _seq_over(rv[2][0], f):
                if rv[2][0][1] != "gen":
                    # Python's and/or stop at the deciding operand
                    return False, (
                        f"{fn}() is handed a fully built {rv[2][0][1]} of the "
                        "evaluated operands: every operand is evaluated before "
                        f"the first is looked at, so '{sym}' no longer stops at "
                        "the deciding operand (x == 0 or 1/x > y raises at "
                        "x = 0)")
                return False, (
                    f"the result is {fn}(...), a bool, where Python's '{sym}' "
                    "gives the deciding operand itself: (x or y) + 1 at x = 0, "
                    "y = 5 evaluates to 2, the code generated for the same node "
                    "computes 6")
            # the loop form: operands in order, the deciding one is returned
            ELEM = ("rec", ("elem", ("field", f)), True, ())
            stop_pol = sym == "or"
            saw = set()
            for ps in handler_summaries(model, model.nodes.get(cls), mem.node,
                                        loop_mode="01"):
                if ps.term != "return":
                    return False, "a path does not return"
                tests = [(pol, v) for _, pol, v in ps.conds]
                n_rec = sum(1 for e in ps.events if e.kind == "rec")
                if not tests:
                    saw.add("empty")
                    if n_rec:
                        # operands are evaluated although the loop that looks
                        # at them one by one has not started: they are all
                        # evaluated up front
                        return False, (
                            "every operand is evaluated before the first is "
                            f"looked at, so '{sym}' no longer stops at the "
                            "deciding operand (x == 0 or 1/x > y raises at "
                            "x = 0)")
                    if ps.retval != ("const", not stop_pol):
                        return False, (f"no operands: returns {ps.retval}, "
                                       f"Python's empty '{sym}' chain is "
                                       f"{not stop_pol}")
                    continue
                if len(tests) != 1 or n_rec != 1 or ps.retval != ELEM:
                    return False, ("an operand is evaluated more than once, or "
                                   "something other than the operand just "
                                   "evaluated is returned")
                pol, v = tests[0]
                while v[0] == "unop" and v[1] == "Not":
                    v, pol = v[2], not pol
                if v != ELEM:
                    return False, "the loop branches on something other than " \
                        "the operand just evaluated"
                # the deciding operand leaves the loop early; the other
                # polarity goes on to the next operand (here: to the end)
                ret = ps.items[-1][1]
                loops_ = [w for w in ast.walk(model.inlined(mem.node))
                          if isinstance(w, (ast.For, ast.While))]
                early = any(ret is x for w in loops_ for b in w.body
                            for x in ast.walk(b))
                if early != (pol == stop_pol):
                    return False, (
                        f"the loop stops at the first operand that is "
                        f"{'true' if pol else 'false'}: that is not Python's "
                        f"'{sym}'")
                saw.add("stop" if pol == stop_pol else "last")
            ok = saw == {"empty", "stop", "last"}
            return ok, (f"operands in order; the first that is "
                        f"{'true' if stop_pol else 'false'} is returned, else the "
                        "last") if ok else \
                f"'{sym}' chain: paths {sorted(saw)}"
        if sym in ("min", "max"):
            fn = sym
            ok = rv[0] == "call" and rv[1] == fn and _seq_over(rv[2][0], f)
            return ok, f"{fn}(children)" if ok else \
                f"result is not {fn}(rec(child) for child in children)"
    if kind == "compare":
        rv = rets[0].retval
        imports = mem.owner.module.imports
        opmods = {("global", k) for k, v in imports.items()
                  if v == ("module", "operator")} | {("global", "operator")}
        ok = (rv[0] == "call" and len(rv) >= 5 and rv[2] == (R("left"), R("right"))
              and isinstance(rv[4], tuple) and rv[4][:2] == ("call", "getattr")
              and len(rv[4][2]) == 2 and rv[4][2][0] in opmods
              and rv[4][2][1] == ("index", ("attr", NODE, "operator_to_name"),
                                  None, ("field", "operator")))
        return ok, "operator.<name[op]>(rec(left), rec(right))" if ok else \
            ("result is not getattr(operator, operator_to_name[operator])"
             "(rec(left), rec(right))")
    if kind == "ifexp":
        saw = set()
        for ps in rets:
            cond = []
            for _, pol, v in ps.conds:
                while isinstance(v, tuple) and v[0] == "unop" and v[1] == "Not":
                    v, pol = v[2], not pol
                if v == R("condition"):
                    cond.append((pol, v))
            if not cond:
                return False, ("a result is returned without branching on the "
                               "evaluated condition")
            pol = cond[0][0]
            recs = [base_field(e.arg) for e in ps.events if e.kind == "rec"]
            want = "then" if pol else "else_"
            other = "else_" if pol else "then"
            if ps.retval != R(want):
                return False, (f"condition {'true' if pol else 'false'} returns "
                               f"{ps.retval} instead of rec({want})")
            if other in recs:
                return False, (f"the {other} branch is evaluated although the "
                               f"condition selected {want} (not lazy)")
            if recs.index("condition") != 0:
                return False, "a branch is evaluated before the condition"
            saw.add(want)
        ok = saw == {"then", "else_"}
        return ok, "only the selected branch is evaluated" if ok else \
            "one of the two branches is never returned"
    if kind == "call":
        rv = rets[0].retval
        ok = rv[0] == "call" and len(rv) >= 5 and rv[4] == R("function")
        if ok:
            a = rv[2]
            ok = len(a) == 1 and a[0][0] == "star" and _seq_over(a[0][1],
                                                                 "parameters")
        if ok and "kw_parameters" in fields:
            kw = rv[3]
            ok = len(kw) == 1 and kw[0][0] is None and kw[0][1] == (
                "dict", ("key", ("field", "kw_parameters")),
                ("rec", ("val", ("field", "kw_parameters")), True, ()),
                ("items", ("field", "kw_parameters")))
        elif ok:
            ok = not rv[3]
        return ok, "rec(function)(*rec(parameters)" + (
            ", **rec(kw_parameters))" if "kw_parameters" in fields else ")") \
            if ok else "result is not rec(function) applied to all mapped " \
            "positional" + (" and keyword" if "kw_parameters" in fields else "") \
            + " arguments"
    if kind == "getitem":
        ok = any(ps.retval == ("index", R("aggregate"), None, R("index"))
                 for ps in rets)
        for ps in rets:
            rv = ps.retval
            if rv == ("index", R("aggregate"), None, R("index")):
                continue
            # the symbolic-aggregate branch: result.index(rec(index))
            if rv[0] == "call" and rv[1].endswith(".index") and \
                    rv[2] == (R("index"),) and len(rv) >= 5 and \
                    rv[4][1] == R("aggregate"):
                continue
            ok = False
        return ok, "rec(aggregate)[rec(index)]" if ok else \
            "result is not rec(aggregate)[rec(index)]"
    if kind == "getattr":
        ok = all(ps.retval == ("call", "getattr", (R("aggregate"),
                                                   ("field", "name")), ())
                 for ps in rets)
        return ok, "getattr(rec(aggregate), name)" if ok else \
            "result is not getattr(rec(aggregate), name)"
    if kind == "identity":
        # the mix-in caches; the uncached handler evaluates the child
        un = model.lookup(mem.owner if False else model.cls(
            f"{EV}:EvaluationMapper"), "map_common_subexpression_uncached")
        ok = un is not None and un.kind == "func"
        if ok:
            n = model.nodes.get(cls)
            ok = all(ps.retval == R("child") for ps in handler_summaries(
                model, n, un.node) if ps.term == "return")
        return ok, "a wrapper means its child" if ok else \
            "map_common_subexpression_uncached does not return rec(child)"
    if kind == "lookup":
        val = [ps for ps in rets]
        ok = all(ps.retval == ("index", ("self", "context"), None,
                               ("field", "name")) for ps in val)
        return ok, "context[name]" if ok else "result is not self.context[name]"
    return False, f"no rule for {kind}"


def _comparison_table(ctx, model):
    comp = model.nodes.get("Comparison")
    mem = comp.cls.members.get("operator_to_name")
    if mem is None:
        raise AnalysisError("Comparison.operator_to_name not found")
    val = mem.node.value if isinstance(mem.node, ast.AnnAssign) else mem.node
    got = {k.value: v.value for k, v in zip(val.keys, val.values)}
    want = {s: OPERATOR_FUNCS[s] for s in ("==", "!=", "<", "<=", ">", ">=")}
    for s in sorted(want):
        ctx.ob(f"T/operator_to_name/{s}", got.get(s) == want[s],
               comp.cls.loc(val),
               f"'{s}' -> operator.{want[s]}" if got.get(s) == want[s] else
               f"Comparison.operator_to_name maps '{s}' to operator."
               f"{got.get(s)}; Python's '{s}' is operator.{want[s]}")
    extra = sorted(set(got) - set(want))
    ctx.ob("T/operator_to_name/no-extra", not extra, comp.cls.loc(val),
           "exactly the six comparison operators" if not extra else
           f"extra operators {extra}")
    # __post_init__ admits exactly those keys
    # (path rule: a construction path that does not raise has either seen the
    # operator in the table or has replaced it by a table entry)
    pi = comp.cls.members.get("__post_init__")
    ok = pi is not None and pi.kind == "func"
    saw_raise = False
    OPR = ("attr", NODE, "operator")

    def _member(v, pol, table):
        """does (v, pol) establish  operator in <table> ?"""
        if not (isinstance(v, tuple) and v[0] == "compare" and v[2] == OPR
                and len(v[3]) == 1 and v[3][0] == ("attr", NODE, table)):
            return False
        return (v[1] == ("In",) and pol) or (v[1] == ("NotIn",) and not pol)

    if ok:
        for ps in summarize(pi.node, self_is_node=True, loop_mode="1"):
            if ps.term == "raise":
                saw_raise = True
                continue
            in_table = any(_member(v, pol, "operator_to_name")
                           for _, pol, v in ps.conds)
            translated = any(
                _member(v, pol, "name_to_operator") for _, pol, v in ps.conds) \
                and any(e.kind == "call" and e.name == "object.__setattr__"
                        and len(e.args) == 3 and e.args[1] == ("const", "operator")
                        and e.args[2] == ("index", ("attr", NODE,
                                                    "name_to_operator"), None, OPR)
                        for e in ps.events)
            if not (in_table or translated):
                ok = False
        ok = ok and saw_raise
    ctx.ob("T/Comparison/operators-validated", ok, comp.cls.loc(),
           "an operator outside the table is rejected at construction" if ok else
           "Comparison no longer rejects operators outside operator_to_name")


def _foreign(ctx, model, ev):
    for slot, ctor in (("map_tuple", "tuple"), ("map_list", "list")):
        mem = model.lookup(ev, slot)
        swit = None
        try:
            from .. import evaljudge
            swit = evaljudge.judge_sequence(model, ev, slot,
                                            tuple if ctor == "tuple" else list)
        except AnalysisError as e:
            ctx.extra[f"judge_unavailable:{slot}"] = str(e)
        if swit is not None:
            ctx.ob(f"E0/EvaluationMapper/{slot}/elementwise", not swit,
                   where(mem) if mem else ev.loc(),
                   f"interpreted on 0..3 entries: a {ctor} of the entries' "
                   "values in order, each evaluated once" if not swit else
                   f"EvaluationMapper.{slot}: " + "; ".join(swit[:2]))
            if not swit:
                continue
        ok = False
        if mem is not None and mem.kind == "func":
            for ps in summarize(mem.node):
                rv = ps.retval
                ok = ps.term == "return" and rv[0] == "seq" and rv[1] == ctor and \
                    rv[2] == ("rec", ("elem", NODE), True, ()) and rv[3] == NODE \
                    and not rv[4]
        ctx.ob(f"E/EvaluationMapper/{slot}", ok,
               where(mem) if mem else ev.loc(),
               f"{ctor} of the evaluated elements" if ok else
               f"EvaluationMapper.{slot} does not evaluate every element into a "
               f"{ctor}")
    mem = model.lookup(ev, "map_constant")
    ok = mem is not None and all(ps.retval == NODE for ps in summarize(mem.node))
    ctx.ob("E/EvaluationMapper/map_constant", ok, where(mem),
           "a constant evaluates to itself")
    mem = model.lookup(ev, "map_numpy_array")
    ok = False
    awit = None
    try:
        from .. import evaljudge
        awit = evaljudge.judge_array(model, ev)
    except AnalysisError as e:
        ctx.extra["judge_unavailable:map_numpy_array"] = str(e)
    if awit is not None:
        ctx.ob("E0/EvaluationMapper/map_numpy_array/entrywise", not awit,
               where(mem), "interpreted on a 2 x 2 object array: a new array "
               "of that shape holding the value of every entry, each evaluated "
               "once" if not awit else
               "EvaluationMapper.map_numpy_array: " + "; ".join(awit))
    if awit is not None and not awit:
        pass
    elif mem is not None and mem.kind == "func":
        # the result is an array filled, for every index of the operand's
        # shape, with the evaluation of the entry at that index
        ok = True
        for ps in summarize(mem.node):
            rv = ps.retval
            if not (ps.term == "return" and isinstance(rv, tuple)
                    and rv[0] == "dictextend"):
                ok = False
                break
            _, base, key, val, it = rv[:5]
            ok = ok and isinstance(it, tuple) and it[0] == "call" \
                and it[1].endswith("ndindex") \
                and it[2] == (("attr", NODE, "shape"),) \
                and key == ("elem", it) \
                and val == ("rec", ("index", NODE, None, key), True, ())
    if not (awit is not None and not awit):
        ctx.ob("E/EvaluationMapper/map_numpy_array", ok, where(mem),
               "every array entry is evaluated")


def _errors(ctx, model, ev):
    # map_variable: KeyError -> UnknownVariableError(name)
    mem = model.lookup(ev, "map_variable")
    n = model.nodes.get("Variable")
    saw = False
    for ps in handler_summaries(model, n, mem.node):
        if ps.term == "raise":
            caught = [v for _, _, v in ps.conds if isinstance(v, tuple)
                      and v[0] == "except"]
            ok = caught and "KeyError" in caught[0][1] and ps.retval == (
                "call", "UnknownVariableError", (("field", "name"),), ())
            saw = True
            ctx.ob("P/EvaluationMapper/map_variable/unknown", bool(ok), where(mem),
                   "a missing name raises UnknownVariableError(name)" if ok else
                   "a failed context lookup is not turned into "
                   "UnknownVariableError(expr.name)")
    ctx.ob("P/EvaluationMapper/map_variable/raises", saw, where(mem),
           "lookup failure path present" if saw else
           "map_variable has no path that reports a missing variable")
    # no handler swallows arithmetic errors
    n_handlers = 0
    mod_funcs = {st.name: st for st in ev.module.tree.body
                 if isinstance(st, ast.FunctionDef)}
    for name, mem in model.slots(ev).items():
        if mem is None:
            continue
        body = mem.node
        if mem.kind != "func":
            # a handler made by a factory in the class body: the factory's
            # body (with the function it returns) is what runs
            v = mem.node.value if mem.kind == "ann" else mem.node
            if isinstance(v, ast.Call) and isinstance(v.func, ast.Name) and \
                    v.func.id in mod_funcs:
                body = mod_funcs[v.func.id]
            elif isinstance(v, ast.Name) and v.id in mem.owner.members and \
                    mem.owner.members[v.id].kind == "func":
                body = mem.owner.members[v.id].node
            else:
                continue
        if mem.owner.name == "CSECachingMapperMixin":
            continue
        n_handlers += 1
        for h in ast.walk(body):
            if isinstance(h, ast.ExceptHandler):
                t = ast.unparse(h.type) if h.type is not None else "<bare>"
                ok = t == "KeyError" and name == "map_variable"
                ctx.ob(f"P/EvaluationMapper/{name}/except:{t}", ok, where(mem, h),
                       "only the context lookup's KeyError is caught" if ok else
                       f"EvaluationMapper.{name} catches {t}: an arithmetic "
                       "error of the underlying numbers could surface as a value")
    ctx.ob("P/EvaluationMapper/no-swallowed-errors/enumerated", n_handlers >= 30,
           ev.loc(), f"{n_handlers} handlers scanned for except clauses")


def _context_or_empty(v):
    """('value', src) where src is `{} if context is None else context` (or
    the mirror image): the argument, an empty mapping when there is none"""
    if not (isinstance(v, tuple) and len(v) == 2 and v[0] == "value"):
        return False
    try:
        e = ast.parse(v[1], mode="eval").body
    except SyntaxError:
        return False
    if not isinstance(e, ast.IfExp):
        return False
    t = ast.unparse(e.test).replace(" ", "")
    empty = lambda x: ast.unparse(x).replace(" ", "") in ("{}", "dict()")  # noqa: E731
    same = lambda x: isinstance(x, ast.Name) and x.id == "context"      # noqa: E731
    return (t == "contextisNone" and empty(e.body) and same(e.orelse)) or (
        t == "contextisnotNone" and same(e.body) and empty(e.orelse))


def _judge_entry(m, fn):
    """an entry point interpreted: the mapper class is a hook that records
    what it is constructed with and applied to.  -> witnesses"""
    from ..absint import Interp, Opaque, Raised, StepBound, module_env
    glob = module_env(m.tree, {})
    wit = []
    kw_style = fn.args.kwarg is not None and "context" not in [
        a.arg for a in fn.args.args]
    D = {"x": 1, "y": 2}
    for given in ((D,) if kw_style else (D, None, {})):
        made = []

        def mapper_cls(*a, _m=made, **k):
            _m.append((a, k))
            return lambda *a2, **k2: ("applied", len(_m) - 1, a2, k2)
        kwargs = dict(mapper_cls=mapper_cls)
        if kw_style:
            kwargs.update(D)
        else:
            kwargs["context"] = given
        it = Interp(globals_=glob, max_steps=4000,
                    attrs=lambda it_, n_, b, at: Opaque(ast.unparse(n_)))
        label = "keyword bindings" if kw_style else f"context={given!r}"
        try:
            got = it.call_function(fn, ["EXPR"], dict(glob, __kwargs__=kwargs))
        except Raised as r:
            wit.append(f"{label}: raises at line "
                       f"{getattr(r.node, 'lineno', '?')}")
            continue
        except StepBound:
            wit.append(f"{label}: does not terminate")
            continue
        if not (isinstance(got, tuple) and got[:1] == ("applied",) and
                got[2:] == (("EXPR",), {})):
            wit.append(f"{label}: answers {got!r}, not "
                       "mapper_cls(context)(expression)")
            continue
        a, k = made[got[1]]
        ctxv = a[0] if len(a) == 1 and not k else k.get("context") \
            if not a and set(k) == {"context"} else "<?>"
        if len(a) == 0 and not k:
            ctxv = None
        want = D if (kw_style or given is D) else given
        ok = (ctxv is want) if want is D and not kw_style else (
            ctxv == want or (want is None and ctxv in (None, {})) or
            (want == {} and ctxv in (None, {})))
        if not ok:
            wit.append(f"{label}: the mapper is constructed with {ctxv!r}")
    return wit


def _coverage(ctx, model, ev):
    dedupe = set()
    pairs = 0
    for n, res, chain, mem in mapper_node_pairs(model, ev):
        if mem is not None and mem.kind != "func" and any(
                o.key == f"E0/EvaluationMapper/{n.name}/denotation" and o.ok
                for o in ctx.obs):
            pairs += 1      # a handler made in the class body, interpreted
            continue
        if mem is None or mem.kind != "func":
            continue
        tag = f"D4/EvaluationMapper/{n.name}"
        if res.via in ("foreign",):
            continue
        if res.via == "unsupported" or is_raising(mem):
            ok = is_raising(mem)
            ctx.ob(tag, ok, where(mem),
                   f"{n.name} is not evaluable: raises" if ok else
                   f"EvaluationMapper silently maps {n.name} to None",
                   nontrivial=False)
            continue
        pairs += 1
        check_attr_existence(ctx, "X1", model, ev, n, mem, dedupe)
        if mem.owner.name == "CSECachingMapperMixin" or n.legacy or \
                n.name not in DENOT:
            continue
        if any(o.key == f"E0/EvaluationMapper/{n.name}/denotation" and o.ok
               for o in ctx.obs):
            continue    # the judge saw every operand evaluated (once, in order)
        kinds = child_kinds(n)
        covered = set()
        for ps in handler_summaries(model, n, mem.node):
            for e in ps.events:
                if e.kind == "rec":
                    b = base_field(e.arg)
                    if b:
                        covered.add(b)
        missing = sorted(set(kinds) - covered)
        ctx.ob(f"K/EvaluationMapper/{n.name}/children-evaluated", not missing,
               where(mem),
               f"every child of {n.name} is evaluated" if not missing else
               f"EvaluationMapper.{mem.node.name} never evaluates child field(s) "
               f"{missing} of {n.name}")
    ctx.floor("EvaluationMapper handled pairs", pairs, 25)


def _variants(ctx, model):
    ev = model.cls(f"{EV}:EvaluationMapper")
    cev = model.cls(f"{EV}:CachedEvaluationMapper")
    own = [m for m in cev.members if m.startswith("map_")]
    callm = model.lookup(cev, "__call__")
    ok = not own and callm is not None and callm.owner.name == "CachedMapper"
    ctx.ob("S/CachedEvaluationMapper", ok, cev.loc(),
           "the memoizing evaluator adds no handlers and dispatches through "
           "CachedMapper" if ok else
           "CachedEvaluationMapper defines handlers of its own or does not "
           "dispatch through CachedMapper")
    from ..rules import init_effects
    eff = init_effects(model, cev)
    ok = "_cache" in eff and (eff.get("context") == ("param", "context")
                              or _context_or_empty(eff.get("context")))
    ctx.ob("S/CachedEvaluationMapper/init", ok, cev.loc(),
           "cache and context are both initialised" if ok else
           "constructing a CachedEvaluationMapper establishes "
           f"{ {k: v for k, v in eff.items()} }: it needs the cache of "
           "CachedMapper and 'context' bound to the constructor argument")
    for fname in ("evaluate", "evaluate_kw", "evaluate_to_float"):
        m, fn = model.func(f"{EV}:{fname}")
        try:
            ewit = _judge_entry(m, fn)
        except AnalysisError as e:
            ewit = None
            ctx.extra[f"judge_unavailable:{fname}"] = str(e)
        if ewit is not None:
            ctx.ob(f"P0/{fname}/entry-semantics", not ewit, m.loc(fn),
                   f"{fname} interpreted with the mapper class as a hook: "
                   "mapper_cls(<the caller's bindings>)(expression)" if not ewit
                   else f"{fname}: " + "; ".join(ewit[:2]))
            if not ewit:
                continue
        # every return applies mapper_cls(<the context>) to the expression
        ok = True
        n_ret = 0
        for ps in summarize(fn, plain=True):
            if ps.term != "return":
                continue
            n_ret += 1
            rv = ps.retval
            callee = rv[4] if isinstance(rv, tuple) and len(rv) >= 5 else None
            good = isinstance(rv, tuple) and rv[0] == "call" and \
                rv[2] == (("param", "expression"),) and \
                isinstance(callee, tuple) and callee[0] == "call" and \
                (callee[4] == ("param", "mapper_cls") if len(callee) >= 5
                 else callee[1] == "mapper_cls") and len(callee[2]) == 1
            if good:
                c = callee[2][0]
                good = c in (("param", "context"), ("kwargs",),
                             ("litdict", (), ())) or (
                    c[0] == "dictextend" and False)
            ok = ok and good
        ok = ok and n_ret >= 1
        ctx.ob(f"P/{fname}/entry", ok, m.loc(fn),
               "mapper_cls(context)(expression)" if ok else
               f"{fname} does not apply mapper_cls(context) to the expression")
    # cached and uncached agree: the look-aside of the memoizing evaluator
    from .c05 import _cache_key, check_cse_mixin, check_lookaside
    _cache_key(ctx, model, scope=[cev])
    check_lookaside(ctx, model)
    # "a common subexpression meaning its child", however often and in
    # whichever scope it recurs: the wrapper table's rules (C05's instances)
    check_cse_mixin(ctx, model)
    # the mix-in must win in both
    for c in (ev, cev):
        mem = effective_member(model, c, "map_common_subexpression")
        ok = mem is not None and mem.owner.name == "CSECachingMapperMixin"
        ctx.ob(f"S/{c.name}/cse-mixin", ok, c.loc(),
               "wrappers go through the per-evaluation cache" if ok else
               f"in {c.name}, map_common_subexpression does not resolve to the "
               "caching mix-in")
