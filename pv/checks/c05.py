"""C05 -- memoization and mapper optimization are observationally transparent."""
from __future__ import annotations

import ast
import itertools

from .. import AnalysisError
from ..model import ClassInfo
from ..summary import NODE, contains, signature, summarize

M = "pymbolic.mapper"
OPT = "pymbolic.mapper.optimize"

CACHED_VARIANTS = [
    (f"{M}:CachedIdentityMapper", f"{M}:IdentityMapper"),
    (f"{M}:CachedCombineMapper", f"{M}:CombineMapper"),
    (f"{M}:CachedCollector", f"{M}:Collector"),
    (f"{M}:CachedWalkMapper", f"{M}:WalkMapper"),
    ("pymbolic.mapper.evaluator:CachedEvaluationMapper",
     "pymbolic.mapper.evaluator:EvaluationMapper"),
    ("pymbolic.mapper.dependency:CachedDependencyMapper",
     "pymbolic.mapper.dependency:DependencyMapper"),
    ("pymbolic.mapper.substitutor:CachedSubstitutionMapper",
     "pymbolic.mapper.substitutor:SubstitutionMapper"),
    ("pymbolic.mapper.analysis:NodeCountMapper", f"{M}:WalkMapper"),
    ("pymbolic.mapper.flop_counter:FlopCounter",
     "pymbolic.mapper.flop_counter:FlopCounterBase"),
]

# by-design accumulators (the result of these mappers *is* the accumulated
# state); exempt from the purity rule by name
ACCUMULATORS = {("NodeCountMapper", "count")}
CACHE_TABLES = {"_cache", "_cse_cache_dict"}
MUTATORS = {"append", "add", "update", "setdefault", "pop", "clear", "extend",
            "remove", "discard", "insert"}


def run(ctx):
    model = ctx.model
    ctx.decide("cache key covers the call (type(expr), expr, args, frozen "
               "kwargs); look-aside discipline in CachedMapper.__call__ and the "
               "CSE mix-in (one key for lookup and store, store on every "
               "computing path before the return, a hit returns the stored "
               "object)")
    ctx.decide("cached variants add no handlers and dispatch through "
               "CachedMapper; handlers reachable in them keep no state besides "
               "the cache tables")
    ctx.decide("optimizer: *args/**kwargs are removed only under their own "
               "flag, consistently in signatures and call sites; the inlined "
               "cache key accounts for every argument that can remain at a rec "
               "site; inline_rec cannot bypass the cache")
    ctx.decline("behaviour of the class optimize_mapper generates (exists only "
                "at run time)")
    ctx.assume("extra arguments are hashable and immutable, as the docstring of "
               "get_cache_key requires")

    _cache_key(ctx, model)
    check_lookaside(ctx, model)
    check_cse_mixin(ctx, model)
    # the cached dependency mapper is its non-memoizing counterpart plus the
    # look-aside: same handlers, every constructor option forwarded under its
    # own name (C09's rule instances)
    from .c09 import DEP, _check_cached_dep, combine_result_is_fresh
    # a memoizing collector stores the very set combine() returns: combine may
    # not grow a set it was handed (that set is some child's stored result)
    combine_result_is_fresh(ctx, model, model.cls(f"{DEP}:DependencyMapper"))
    _check_cached_dep(ctx, model, model.cls(f"{DEP}:DependencyMapper"),
                      model.cls(f"{DEP}:CachedDependencyMapper"))
    _variants(ctx, model)
    _explicit_base_calls(ctx, model)
    _float_sibling(ctx, model)
    _purity(ctx, model)
    _optimizer(ctx, model)


# ---------------------------------------------------------------------------

def _key_covers(rv):
    """which call inputs does the key mention?  A key written as a conditional
    expression is judged variant by variant: the expression and its type must
    be in every variant, the extra arguments in some variant (the other one is
    the arm taken when there are none)."""
    from ..summary import case_split
    variants = case_split(rv) if isinstance(rv, tuple) else [rv]
    if len(variants) > 1:
        gots = [_key_covers_one(v) for v in variants]
        every = set.intersection(*gots)
        some = set.union(*gots)
        return (every & {"type(expr)", "expr"}) | (some & {"args", "kwargs"})
    return _key_covers_one(rv)


def _key_covers_one(rv):
    got = set()
    if contains(rv, lambda t: t == ("typeof", NODE)):
        got.add("type(expr)")
    if rv[0] == "lit" and NODE in rv[2]:
        got.add("expr")
    if contains(rv, lambda t: t == ("varargs",)):
        got.add("args")
    if contains(rv, lambda t: t == ("kwargs",)):
        got.add("kwargs")
    return got


def _kwargs_wrapper(fn, kwarg):
    """how do the keyword arguments enter the returned key? -> name of the
    innermost call wrapping them, or None if bare"""
    for r in ast.walk(fn):
        if isinstance(r, ast.Return) and r.value is not None:
            for c in ast.walk(r.value):
                if isinstance(c, ast.Call) and any(
                        isinstance(x, ast.Name) and x.id == kwarg
                        for a in c.args for x in ast.walk(a)):
                    inner = [d for a in c.args for d in ast.walk(a)
                             if isinstance(d, ast.Call)]
                    if not any(isinstance(x, ast.Name) and x.id == kwarg
                               for d in inner for a in d.args
                               for x in ast.walk(a)):
                        return ast.unparse(c.func)
    return None


def _cache_key(ctx, model, scope=None):
    """scope: None = every subclass of CachedMapper in the package; otherwise
    only overrides in the MRO of the listed classes are judged"""
    cm = model.cls(f"{M}:CachedMapper")
    mem = cm.members.get("get_cache_key")
    if mem is None or mem.kind != "func":
        raise AnalysisError("CachedMapper.get_cache_key not found")
    sig = signature(mem.node)
    need = {"type(expr)", "expr"}
    if sig.vararg:
        need.add("args")
    if sig.kwarg:
        need.add("kwargs")
    if not (sig.vararg and sig.kwarg):
        ctx.ob("T/get_cache_key/signature", False, cm.module.loc(mem.node),
               "get_cache_key no longer takes (expr, *args, **kwargs): extra "
               "arguments cannot enter the key")
    for ps in summarize(mem.node):
        if ps.term != "return":
            continue
        got = _key_covers(ps.retval)
        missing = sorted(need - got)
        ctx.ob("T/get_cache_key/covers-call", not missing,
               cm.module.loc(mem.node),
               "key = (type(expr), expr, args, frozen kwargs)" if not missing else
               f"CachedMapper.get_cache_key leaves {missing} out of the key: "
               + ("4, 4.0 and True share results" if "type(expr)" in missing else
                  "different expressions can share a cache slot (only their "
                  "hash is compared)" if "expr" in missing else
                  "calls with different extra arguments share results"),
               {"covers": sorted(got)})
        # the node enters the key as itself, and nodes compare field by field
        # with == (C01): 1 == 1.0 == True, so two nodes that differ only in
        # the *type* of a constant somewhere below the root are one key;
        # type(expr) tells types apart at the root only.  The key would have
        # to carry something computed from the whole tree that is sensitive to
        # the types in it.
        deep = contains(ps.retval, lambda t: t[0] == "call" and isinstance(
            t[1], str) and t[1] not in ("type", "hash", "id", "immutabledict",
                                        "frozenset", "tuple")
            and any(a == NODE for a in t[2]))
        ctx.ob("T/get_cache_key/nested-constant-types", deep,
               cm.module.loc(mem.node),
               "the key carries a type-sensitive signature of the whole tree"
               if deep else
               "the cache key is (type(expr), expr, ...): the expression is "
               "compared with ==, which does not tell 1, 1.0 and True apart "
               "inside a node, so Sum((x, 1)) and Sum((x, 1.0)) share one "
               "entry and whichever comes second gets the first one's result")
        # kwargs must enter through an order-insensitive hashable
        w = _kwargs_wrapper(mem.node, sig.kwarg) if sig.kwarg else "n/a"
        ok = w in ("immutabledict", "frozenset", "n/a") or (
            w is not None and w.endswith("frozenset"))
        ctx.ob("T/get_cache_key/kwargs-order-insensitive", ok,
               cm.module.loc(mem.node),
               f"keyword arguments enter the key through {w}(...)" if ok else
               f"keyword arguments enter the cache key through {w or 'nothing'}: "
               "not an order-insensitive hashable, so f(a=1, b=2) and "
               "f(b=2, a=1) miss each other or the key is unhashable")
    # overrides anywhere in the package
    n = 0
    if scope is None:
        todo = model.subclasses(cm)
    else:
        todo = []
        for k in scope:
            for b in model.mro(k):
                if not isinstance(b, str) and model.is_subclass(b, cm) and \
                        b not in todo:
                    todo.append(b)
    for c in todo:
        if c is cm:
            continue
        own = c.members.get("get_cache_key")
        if own is None or own.kind != "func":
            continue
        n += 1
        sig = signature(own.node)
        for ps in summarize(own.node):
            if ps.term != "return":
                continue
            got = _key_covers(ps.retval)
            need2 = {"type(expr)", "expr"} | ({"args"} if sig.vararg else set()) \
                | ({"kwargs"} if sig.kwarg else set())
            missing = sorted(need2 - got)
            ctx.ob(f"T/get_cache_key/override:{c.name}", not missing,
                   c.module.loc(own.node),
                   f"{c.name}.get_cache_key covers its inputs" if not missing else
                   f"{c.name}.get_cache_key narrows the key: {missing} missing")
    ctx.extra["get_cache_key_overrides"] = n


def _uncached_container_dispatch(ps, rv):
    from ..summary import facts_of
    if not (isinstance(rv, tuple) and rv[0] == "call"
            and rv[1] in ("Mapper.__call__", "super.__call__")):
        return False
    args = rv[2][1:] if rv[1] == "Mapper.__call__" else rv[2]
    fwd = [e for e in ps.events if e.kind in ("basecall", "supercall", "call")
           and e.name in ("__call__", "Mapper.__call__")]
    full = args[:1] == (NODE,) and len(fwd) == 1 and fwd[0].fwd_args and \
        fwd[0].fwd_kwargs
    if not full:
        return False
    facts = [f for _, pol0, v0 in ps.conds if isinstance(v0, tuple)
             for f in facts_of(v0, pol0)]

    def container_test(v):
        if v[0] == "call" and v[1] == "isinstance" and v[2][0] == NODE:
            # (not tuples: a tuple is a key like any other, and each key is
            # computed once per instance)
            return all(c in ("list", "ndarray", "numpy.ndarray", "np.ndarray")
                       for c in _class_names_of(v[2][1]))
        return v[0] == "call" and v[1] == "is_numpy_array" and v[2] == (NODE,)
    # the guard may be a disjunction of container tests taken as a whole
    for v, pol in facts:
        if not pol:
            continue
        if container_test(v):
            return True
        if v[0] == "boolop" and v[1] == "Or" and all(container_test(x)
                                                    for x in v[2]):
            return True
    return False


def check_container_inputs(ctx, model, prop_note=""):
    """Lists and numpy arrays are inputs every mapper accepts (map_foreign
    routes them to map_list / map_numpy_array) and neither can be a dictionary
    key.  The memoizing dispatcher therefore needs a way round its look-up for
    exactly the unhashable kinds map_foreign routes: a guarded path that hands
    the container to the uncached dispatcher before any key is built."""
    from ..summary import facts_of
    base = model.cls(f"{M}:Mapper")
    mf = base.members.get("map_foreign")
    if mf is None or mf.kind != "func":
        raise AnalysisError("Mapper.map_foreign not found")
    routed = set()
    for ps in summarize(mf.node):
        if ps.term != "return":
            continue
        rv = ps.retval
        if not (rv[0] == "call" and rv[1] in ("self.map_list",
                                              "self.map_numpy_array")):
            continue
        routed.add("list" if rv[1] == "self.map_list" else "ndarray")
    if routed != {"list", "ndarray"}:
        # not the if-chain known: where a list / an array goes is read off
        # the interpreted map_foreign
        try:
            from .. import dispatch
            _w, routes = dispatch.judge_foreign(model)
            routed = {k_ for k_ in ("list", "ndarray") if routes.get(k_) == {
                "list": "map_list", "ndarray": "map_numpy_array"}[k_]}
        except AnalysisError:
            pass
    if routed != {"list", "ndarray"}:
        raise AnalysisError(f"map_foreign routes {sorted(routed)}: expected list "
                            "and ndarray handlers")
    cm = model.cls(f"{M}:CachedMapper")
    mem = cm.members.get("__call__")
    if mem is None or mem.kind != "func":
        raise AnalysisError("CachedMapper.__call__ not found")
    covered = set()
    for ps in summarize(mem.node, loop_mode="01"):
        if ps.term != "return" or not _uncached_container_dispatch(
                ps, ps.retval):
            continue
        if any(e.kind == "selfcall" and e.name == "get_cache_key"
               for e in ps.events):
            continue        # the key (hash of the container) came first
        for _, pol0, v0 in ps.conds:
            if not isinstance(v0, tuple):
                continue
            for v, pol in facts_of(v0, pol0):
                if not pol:
                    continue
                for t in ([v] if v[0] != "boolop" else list(v[2])):
                    if t[0] == "call" and t[1] == "is_numpy_array":
                        covered.add("ndarray")
                    if t[0] == "call" and t[1] == "isinstance" and \
                            t[2][0] == NODE:
                        for c in _class_names_of(t[2][1]):
                            covered.add("list" if c == "list" else "ndarray"
                                        if "ndarray" in c else c)
    missing = sorted(routed - covered)
    ctx.ob("P/CachedMapper.__call__/unhashable-containers-bypass-the-table",
           not missing, cm.module.loc(mem.node),
           "lists and numpy arrays are dispatched without a table look-up "
           "(their entries are memoized one by one)" if not missing else
           f"CachedMapper.__call__ builds a dictionary key from every input, "
           f"and {' / '.join(missing)} inputs are unhashable: every memoizing "
           "mapper (evaluate(), CachedIdentityMapper, CachedWalkMapper, "
           "CachedCollector, ...) raises TypeError on [x, x + y] where the plain "
           "mapper goes to map_list" + prop_note)


def _class_names_of(c):
    if c[0] == "lit" and c[1] == "tuple":
        return [n for x in c[2] for n in _class_names_of(x)]
    if c[0] == "global":
        return [c[1]]
    if c[0] == "attr":
        return [c[2]]
    return ["?"]


def check_lookaside(ctx, model):
    cm = model.cls(f"{M}:CachedMapper")
    check_container_inputs(ctx, model)
    # the look-aside table is created per instance by the constructor and never
    # declared as a class-level mutable object
    from ..rules import init_effects
    eff = init_effects(model, cm)
    shared = []
    for c in model.classes.values():
        if model.is_subclass(c, cm):
            m_ = c.members.get("_cache")
            if m_ is not None and m_.kind in ("ann", "value"):
                v = m_.node.value if m_.kind == "ann" else m_.node
                if v is not None and _is_mutable_literal(v):
                    shared.append(c.name)
    ok = "_cache" in eff and not shared
    ctx.ob("O/CachedMapper/table-per-instance", ok, cm.loc(),
           "CachedMapper.__init__ creates the table for each instance" if ok else
           ("a class-level mutable _cache is declared in " + ", ".join(shared) +
            ": all instances share one table although the key leaves out what "
            "an instance was constructed with" if shared else
            "CachedMapper.__init__ no longer creates self._cache"))
    _tables_created_fresh(ctx, model, cm, {"_cache"}, "CachedMapper")
    mem = cm.members.get("__call__")
    if mem is None or mem.kind != "func":
        raise AnalysisError("CachedMapper.__call__ not found")
    loc = cm.module.loc(mem.node)
    pss = summarize(mem.node, loop_mode="01")
    n_hit = n_miss = 0
    key_values = set()
    for ps in pss:
        if ps.term == "raise":
            continue
        if ps.term != "return":
            ctx.ob("P/CachedMapper.__call__/falls-off", False, loc,
                   "CachedMapper.__call__ can fall off the end")
            continue
        rv = ps.retval
        # an unhashable container (list, numpy array) cannot be a key: handing
        # it to the uncached dispatcher, unchanged and with all arguments, is
        # what the non-memoizing counterpart does (its entries come back
        # through rec and are memoized there)
        if _uncached_container_dispatch(ps, rv):
            continue
        stores = [e for e in ps.events if e.kind == "itemwrite"
                  and e.arg == ("self", "_cache")]
        lookups = [e for e in ps.events if e.kind == "selfattrcall"
                   and e.value == ("self", "_cache") and e.name == "get"]
        try_form = False
        if not lookups:
            # try: return self._cache[key] / except KeyError: compute
            key = ps.env.get("cache_key") or ps.env.get("key")
            missed = any(isinstance(v, tuple) and v[0] == "except"
                         and "KeyError" in v[1] for _, _, v in ps.conds)
            hit_rv = rv[0] == "index" and rv[1] == ("self", "_cache")
            if key is not None and (missed or hit_rv):
                try_form = True
                if hit_rv:
                    key = rv[3] if len(rv) > 3 else key
            else:
                ctx.ob("P/CachedMapper.__call__/lookup-first", False, loc,
                       "a path through CachedMapper.__call__ never consults the "
                       "cache")
                continue

        class _LK:
            args = (key, ("global", "_NOT_IN_CACHE")) if try_form else None
        lk = lookups[0] if lookups else _LK
        key = lk.args[0]
        key_values.add(key)
        key_ok = key[0] == "call" and key[1] == "self.get_cache_key" and \
            key[2] == (NODE,)
        kev = [e for e in ps.events if e.kind == "selfcall"
               and e.name == "get_cache_key"]
        key_ok = key_ok and kev and kev[0].fwd_args and kev[0].fwd_kwargs
        ctx.ob("P/CachedMapper.__call__/key-from-all-inputs", bool(key_ok), loc,
               "key = get_cache_key(expr, *args, **kwargs)" if key_ok else
               "the cache key is not get_cache_key(expr, *args, **kwargs)")
        is_hit = (rv[0] == "call" and rv[1].endswith("_cache.get")) or (
            try_form and rv[0] == "index" and rv[1] == ("self", "_cache"))
        if is_hit:
            n_hit += 1
            guard = try_form or any(
                pol and isinstance(v, tuple) and v[0] == "compare"
                and v[1] == ("IsNot",) and v[3][0] == ("global", "_NOT_IN_CACHE")
                for _, pol, v in ps.conds) or any(
                (not pol) and isinstance(v, tuple) and v[0] == "compare"
                and v[1] == ("Is",) and v[3][0] == ("global", "_NOT_IN_CACHE")
                for _, pol, v in ps.conds)
            ok = guard and not stores and lk.args[1] == ("global", "_NOT_IN_CACHE")
            ctx.ob("P/CachedMapper.__call__/hit-returns-stored", ok, loc,
                   "a hit returns the stored object, nothing recomputed" if ok else
                   "the cache-hit exit is not guarded by the sentinel test or "
                   "recomputes/stores")
            handler_calls = [e for e in ps.events if e.kind in ("call", "dyncall")
                             and e.name == "method"]
            ctx.ob("P/CachedMapper.__call__/hit-computes-nothing",
                   not handler_calls and not any(
                       e.kind == "selfcall" and e.name == "rec_fallback"
                       for e in ps.events), loc,
                   "no handler runs on a hit")
        else:
            n_miss += 1
            ok = len(stores) == 1 and stores[0].args[0] == key and \
                stores[0].value == rv
            # store precedes the return by construction of the path; it must
            # follow the computation
            ctx.ob("P/CachedMapper.__call__/miss-stores-result", ok, loc,
                   "every computing path stores the returned result under the "
                   "looked-up key" if ok else
                   "a path computes a result but does not store exactly that "
                   "result under the key it looked up (recomputation or result "
                   "sharing)")
    ctx.ob("P/CachedMapper.__call__/paths", n_hit >= 1 and n_miss >= 2, loc,
           f"{n_hit} hit / {n_miss} computing paths" if n_hit and n_miss >= 2 else
           "CachedMapper.__call__ lacks its hit or computing paths")
    ctx.ob("P/CachedMapper.__call__/single-key", len(key_values) == 1, loc,
           "one key definition reaches lookup and store")
    # __init__ creates a fresh cache per instance
    init = cm.members.get("__init__")
    ok = False
    if init is not None and init.kind == "func":
        ok = True
        n_paths = 0
        for ps in summarize(init.node, node_param=False):
            if ps.term == "raise":
                continue
            n_paths += 1
            ws = [e.value for e in ps.events if e.kind == "attrwrite"
                  and e.arg == ("selfobj",) and e.name == "_cache"]
            # the last store on the path is a new, empty mapping
            ok = ok and bool(ws) and ws[-1] == ("litdict", (), ())
        ok = ok and n_paths >= 1
    ctx.ob("P/CachedMapper.__init__/fresh-cache", ok, cm.loc(),
           "each instance starts with an empty cache" if ok else
           "CachedMapper.__init__ does not create a fresh per-instance cache")


def _key_is_injective(key, need_varargs):
    """every variant of the key (conditional expressions resolved) is built
    from the wrapper itself and -- in some variant -- the extra arguments, by
    tuple construction only: such a key determines its inputs"""
    from ..summary import case_split

    def atoms(v):
        if v == NODE:
            return {"node"}
        if v == ("varargs",) or v == ("star", ("varargs",)):
            return {"args"}
        if isinstance(v, tuple) and v and v[0] == "lit" and v[1] == "tuple":
            out = set()
            for x in v[2]:
                a = atoms(x)
                if a is None:
                    return None
                out |= a
            return out
        if isinstance(v, tuple) and v and v[0] == "star":
            return atoms(v[1])
        if isinstance(v, tuple) and v and v[0] == "binop" and v[1] == "Add":
            a, b = atoms(v[2]), atoms(v[3])
            return None if a is None or b is None else a | b
        return None
    variants = case_split(key) if isinstance(key, tuple) else [key]
    got = [atoms(v) for v in variants]
    if any(a is None or "node" not in a for a in got):
        return False
    return not need_varargs or any("args" in a for a in got)


def _judge_cse_mixin(model, mx, fn):
    """interpretive judge (pv/absint.py): the mix-in's handler interpreted on
    one abstract mapper through histories of requests -- wrappers that are equal
    or different, with extra positional (and, where the signature takes them,
    keyword) arguments that are equal or different.  Checked: the first request
    for a (wrapper, arguments) combination calls
    map_common_subexpression_uncached exactly once with exactly these
    arguments and returns its result; a repeated request returns the same
    result without calling it again; a request that differs in the wrapper or
    in any argument does call it; a value that is falsy (0, empty) is served
    from the table like any other.  -> (witnesses, n_cases)"""
    from ..absint import Interp, Opaque, Raised, StepBound, module_env
    import itertools
    sig = signature(fn)

    class W:                # a wrapper node: hashable, equal by name
        def __init__(self, nm):
            self.nm = nm

        def __eq__(self, o):
            return isinstance(o, W) and o.nm == self.nm

        def __hash__(self):
            return hash(("W", self.nm))

        def __repr__(self):
            return f"<CSE {self.nm}>"

    from ..absint import Obj

    class Mp(Obj):
        def __init__(self):
            Obj.__init__(self, "mapper")
            self.calls = []

    helpers = {}
    for k in reversed(model.mro(mx)):
        if hasattr(k, "node") and k.module is mx.module:
            for st in k.node.body:
                if isinstance(st, ast.FunctionDef) and st.name.startswith("_") \
                        and not st.name.startswith("__"):
                    helpers[st.name] = st
    glob = module_env(mx.module.tree, {})
    wit = []
    n = 0
    kwsets = [{}, {"k": 1}, {"k": 2}] if sig.kwarg else [{}]
    argsets = [(), ("a",), ("b",)] if sig.vararg else [()]
    results = {"x": 0, "y": "value-of-y"}       # x evaluates to a falsy value

    def run(mp, store, w, args, kw):
        def uncached(*a, **k):
            mp.calls.append((a, tuple(sorted(k.items()))))
            return results[a[0].nm]

        def attrs(it, node, base, attr):
            return Opaque(ast.unparse(node))

        def setattr_hook(it, node, args_, kw_):
            args_[0].fields[args_[1]] = args_[2]
            return None

        def resolve(cls, nm):
            if cls == "mapper" and nm in helpers:
                return ("func", helpers[nm])
            return None
        me = fn.args.args[0].arg
        it = Interp(calls={
            "setattr": setattr_hook, "object.__setattr__": setattr_hook,
            "immutabledict": lambda it_, n_, a, k: frozenset(
                dict(*a, **k).items()),
            "frozenset": lambda it_, n_, a, k: frozenset(*a),
            f"{me}.map_common_subexpression_uncached":
                lambda it_, n_, a, k: uncached(*a, **k)},
            attrs=attrs, resolve=resolve, globals_=glob, max_steps=20000)
        return it.call_function(fn, [mp, w] + list(args),
                                {"__kwargs__": dict(kw)})

    reqs = [(nm, a, kw) for nm in ("x", "y") for a in argsets for kw in kwsets]
    for first, second in itertools.product(reqs, repeat=2):
        n += 1
        mp, store = Mp(), {}
        label = (f"request ({first[0]}, {first[1]}, {first[2]}) then "
                 f"({second[0]}, {second[1]}, {second[2]})")
        try:
            r1 = run(mp, store, W(first[0]), first[1], first[2])
            c1 = len(mp.calls)
            r2 = run(mp, store, W(second[0]), second[1], second[2])
        except Raised as r:
            wit.append(f"{label}: raises at line {getattr(r.node, 'lineno', '?')}")
            continue
        except StepBound:
            wit.append(f"{label}: does not terminate")
            continue
        if c1 != 1 or mp.calls[0] != ((W(first[0]),) + tuple(first[1]),
                                       tuple(sorted(first[2].items()))):
            wit.append(f"{label}: the first request does not call "
                       "map_common_subexpression_uncached once with exactly "
                       f"(expr, *args, **kwargs) (calls: {mp.calls[:2]})")
            continue
        if r1 != results[first[0]]:
            wit.append(f"{label}: the first request does not return the "
                       "computed value")
            continue
        same = first == second
        if same and (len(mp.calls) != 1 or r2 != r1):
            wit.append(f"{label}: the repeated request is computed again "
                       "(or answered with something else)")
        if not same and (len(mp.calls) != 2 or r2 != results[second[0]]):
            wit.append(f"{label}: the second, different request is answered "
                       f"from the first one's entry ({r2!r})")
    return wit, n


def check_cse_mixin(ctx, model):
    mx = model.cls(f"{M}:CSECachingMapperMixin")
    mem = mx.members.get("map_common_subexpression")
    if mem is None or mem.kind != "func":
        raise AnalysisError("CSECachingMapperMixin.map_common_subexpression "
                            "not found")
    loc = mx.module.loc(mem.node)
    try:
        jwit, jn = _judge_cse_mixin(model, mx, mem.node)
    except AnalysisError as e:
        jwit = None
        ctx.extra["judge_unavailable:CSECachingMapperMixin"] = str(e)
    if jwit is not None:
        ctx.ob("P0/cse-mixin/once-per-wrapper-and-arguments", not jwit, loc,
               f"the mix-in's handler interpreted through {jn} two-request "
               "histories: computed once per (wrapper, arguments), served from "
               "the table afterwards, never across different wrappers or "
               "arguments" if not jwit else
               "CSECachingMapperMixin.map_common_subexpression: " +
               "; ".join(jwit[:3]))
    mark_mx = len(ctx.obs)
    try:
        _check_cse_mixin_structural(ctx, model, mx, mem, loc)
    except AnalysisError:
        if jwit is None or jwit:
            raise
    if jwit is not None and not jwit:
        ctx.withdraw_failures_since(
            mark_mx, "decided by interpreting the handler through request "
            "histories", "T/cse-mixin/")
        ctx.withdraw_failures_since(
            mark_mx, "decided by interpreting the handler through request "
            "histories", "P/cse-mixin/")


def _check_cse_mixin_structural(ctx, model, mx, mem, loc):
    sig = signature(mem.node)
    ok_sig = sig.kwarg is None
    ctx.ob("T/cse-mixin/no-kwargs", ok_sig, loc,
           "takes no **kwargs, so every input is in the key" if ok_sig else
           "map_common_subexpression accepts **kwargs that are not part of its "
           "cache key")
    want_key = ("lit", "tuple", (NODE, ("star", ("varargs",)))) if sig.vararg \
        else ("lit", "tuple", (NODE,))
    n_hit = n_miss = 0

    def norm_key(k):
        """(expr,) + args  ==  (expr, *args)"""
        if isinstance(k, tuple) and k and k[0] == "binop" and k[1] == "Add" and \
                k[2][0] == "lit" and k[2][1] == "tuple" and k[3] == ("varargs",):
            return ("lit", "tuple", tuple(k[2][2]) + (("star", ("varargs",)),))
        return k

    for ps in summarize(mem.node):
        if ps.term != "return":
            continue
        stores = [e for e in ps.events if e.kind == "itemwrite"]
        computes = [e for e in ps.events if e.kind == "selfcall"
                    and e.name == "map_common_subexpression_uncached"]
        from ..rules import lookup_case
        missed = lookup_case(ps, lambda t: True) == "miss"
        # the key: what the table is indexed with (hit) / stored under (miss)
        if not missed:
            key = ps.retval[-1] if ps.retval[0] == "index" else None
        else:
            key = stores[0].args[0] if stores else None
        key = norm_key(key)
        key_ok = key == want_key or _key_is_injective(key, bool(sig.vararg))
        ctx.ob("T/cse-mixin/key", key_ok, loc,
               "the key determines (expr, *args)" if key_ok else
               f"the CSE cache key does not determine (expr, *args)")
        if not missed:
            n_hit += 1
            ok = ps.retval[0] == "index" and not stores and not computes
            ctx.ob("P/cse-mixin/hit", ok, loc,
                   "a hit returns the stored result" if ok else
                   "the hit path of the CSE cache computes or stores")
        else:
            n_miss += 1
            ok = len(computes) == 1 and len(stores) == 1 and \
                stores[0].value == ps.retval and \
                computes[0].args[0] == NODE and computes[0].fwd_args
            ctx.ob("P/cse-mixin/miss", ok, loc,
                   "a miss computes once, stores under the key, returns it"
                   if ok else
                   "the miss path of the CSE cache does not store exactly the "
                   "computed result under the key")
    ctx.ob("P/cse-mixin/paths", n_hit >= 1 and n_miss >= 1, loc,
           f"{n_hit} hit / {n_miss} miss paths")
    # the table lives in the mapper *instance*: the key leaves out everything
    # the instance was constructed with (evaluation context, differentiation
    # variable, flags), so a table shared between instances hands one
    # instance's results to another
    tables = set()
    for n in ast.walk(mem.node):
        if isinstance(n, ast.Attribute) and isinstance(n.value, ast.Name) and \
                n.value.id == "self" and not isinstance(n.ctx, ast.Del):
            # attributes of self that are subscripted (directly or through a
            # local alias)
            tables.add(n.attr)
    tables = {t for t in tables if _is_table_use(mem.node, t)}
    shared = []
    for c in model.classes.values():
        if not (c is mx or model.is_subclass(c, mx)):
            continue
        for t in tables:
            m_ = c.members.get(t)
            if m_ is not None and m_.kind in ("ann", "value"):
                v = m_.node.value if m_.kind == "ann" else m_.node
                if _is_mutable_literal(v):
                    shared.append(f"{c.name}.{t}")
    ctx.ob("O/cse-mixin/table-per-instance", not shared and bool(tables), loc,
           f"the table ({sorted(tables)}) is an instance attribute" if not shared
           and tables else
           f"the CSE table is a class-level mutable object ({shared}): it is "
           "shared by every instance (and every mapper class using the mix-in), "
           "but its key holds only the wrapper and the extra arguments, not what "
           "the instance was constructed with -- a second differentiation with "
           "respect to another variable, or a second evaluation in another "
           "context, gets the first one's results")
    _tables_created_fresh(ctx, model, mx, tables, "cse-mixin")


def _tables_created_fresh(ctx, model, family, tables, tag):
    """every place in the package that binds a look-aside table of a memoizing
    family to an instance binds a container made there and then: a value
    fetched from module- or class-level state (directly, or an entry of it) is
    shared by all instances that fetch the same entry, and the table's key
    leaves out what the instance was constructed with"""
    shared = []
    n_sites = 0
    for c in model.classes.values():
        if not (c is family or model.is_subclass(c, family)):
            continue
        for name, mem in c.members.items():
            if mem.kind != "func":
                continue
            for n in ast.walk(mem.node):
                if isinstance(n, ast.Assign):
                    tgts = n.targets
                elif isinstance(n, ast.AnnAssign) and n.value is not None:
                    tgts = [n.target]
                else:
                    continue
                for t in tgts:
                    if isinstance(t, ast.Attribute) and isinstance(
                            t.value, ast.Name) and t.value.id == "self" and \
                            t.attr in tables:
                        n_sites += 1
                        if not _is_mutable_literal(n.value):
                            shared.append((c, name, t.attr, n))
    for c, name, attr, n in shared:
        ctx.ob(f"O/{tag}/table-created-fresh:{c.name}.{name}", False,
               c.module.loc(n),
               f"{c.name}.{name} binds self.{attr} to {ast.unparse(n.value)[:80]}"
               ", which is not a container made on the spot: instances that get "
               "the same object share one table, although its key holds only "
               "the node and the extra arguments, not what each instance was "
               "constructed with (flags, function table, context)")
    if not shared:
        # (no site of the form self.<table> = ...: the table is reached some
        # other way -- through a helper, say -- and this rule has nothing to
        # look at; how requests are served is the mix-in judge's matter)
        ctx.ob(f"O/{tag}/table-created-fresh", True, family.loc(),
               f"{n_sites} sites bind {sorted(tables)}; each creates the "
               "container" if n_sites else
               "no attribute of the instance is bound to a table directly",
               nontrivial=bool(n_sites))


def _is_mutable_literal(v):
    if isinstance(v, (ast.Dict, ast.List, ast.Set)):
        return True
    return isinstance(v, ast.Call) and ast.unparse(v.func) in (
        "dict", "list", "set", "defaultdict", "collections.defaultdict",
        "OrderedDict", "collections.OrderedDict")


def _is_table_use(fn, attr):
    """is self.<attr> subscripted in fn, directly or through a local alias?"""
    aliases = set()
    for n in ast.walk(fn):
        if isinstance(n, ast.Assign):
            vals = [n.value]
            # chained  a = self.x = {}
            for v in vals:
                # self.x itself, or something obtained from it
                # (self.x.setdefault(...), self.x[k]): a part of the same object
                if any(isinstance(x, ast.Attribute) and isinstance(
                        x.value, ast.Name) and x.value.id == "self" and
                        x.attr == attr for x in ast.walk(v)):
                    aliases.update(t.id for t in n.targets
                                   if isinstance(t, ast.Name))
            if any(isinstance(t, ast.Attribute) and isinstance(t.value, ast.Name)
                   and t.value.id == "self" and t.attr == attr
                   for t in n.targets):
                aliases.update(t.id for t in n.targets if isinstance(t, ast.Name))
    for n in ast.walk(fn):
        if isinstance(n, ast.Subscript):
            b = n.value
            if isinstance(b, ast.Name) and b.id in aliases:
                return True
            if isinstance(b, ast.Attribute) and isinstance(b.value, ast.Name) \
                    and b.value.id == "self" and b.attr == attr:
                return True
    return False


def _explicit_base_calls(ctx, model):
    """Every memoizing mapper class of the package -- whichever module it lives
    in -- that reaches a base class's method by naming the class
    (`CachedMapper.__call__(self, expr, ...)`) hands over itself as the
    receiver.  A call that starts with one of the method's other parameters
    (`CachedMapper.__call__(expr, prec, ...)`) takes the expression for the
    mapper: the class cannot be used at all, so it does not return what its
    non-memoizing counterpart returns."""
    cm = model.cls(f"{M}:CachedMapper")
    n_calls = 0
    for c in model.classes.values():
        if not (model.is_subclass(c, cm) or c is cm):
            continue
        bases = {k.name: k for k in model.mro(c) if isinstance(k, ClassInfo)}
        for name, mem in c.members.items():
            if mem.kind != "func" or not mem.node.args.args or \
                    {"staticmethod", "classmethod"} & set(mem.decorators):
                continue
            me = mem.node.args.args[0].arg
            others = {a.arg for a in mem.node.args.args[1:]}
            for call in ast.walk(mem.node):
                if not (isinstance(call, ast.Call) and
                        isinstance(call.func, ast.Attribute) and
                        isinstance(call.func.value, ast.Name) and
                        call.func.value.id in bases):
                    continue
                target = model.lookup(bases[call.func.value.id],
                                      call.func.attr)
                if target is None or target.kind != "func" or \
                        {"staticmethod", "classmethod"} & set(target.decorators):
                    continue
                n_calls += 1
                first = call.args[0] if call.args else None
                ok = isinstance(first, ast.Name) and first.id == me
                definite = first is None or (isinstance(first, ast.Name)
                                             and first.id in others)
                if ok or not definite:
                    continue
                ctx.ob(f"S/explicit-base-call/{c.name}.{name}/receiver", False,
                       c.module.loc(call),
                       f"{c.name}.{name} calls {ast.unparse(call.func)}("
                       f"{', '.join(ast.unparse(a) for a in call.args)}) "
                       f"without handing over '{me}': the first argument is "
                       "taken for the mapper, so every call of this memoizing "
                       "mapper fails (AttributeError: ... has no attribute "
                       "'_cache') where its non-memoizing counterpart answers")
    ctx.floor("explicit base-class calls in memoizing mappers", n_calls, 8)
    ctx.ob("S/explicit-base-call/receiver", True, cm.loc(),
           f"{n_calls} calls of the form Base.method(self, ...) in memoizing "
           "mapper classes looked at")


def _variants(ctx, model):
    cm = model.cls(f"{M}:CachedMapper")
    for ckey, bkey in CACHED_VARIANTS:
        c = model.cls(ckey)
        b = model.cls(bkey)
        own = sorted(m for m in c.members
                     if m.startswith("map_") or m in ("rec", "__call__",
                                                      "get_cache_key",
                                                      "rec_fallback"))
        callm = model.lookup(c, "__call__")
        recm = model.lookup(c, "rec")
        # an entry-point override that only wraps the inherited __call__
        # (recursion stays bound to CachedMapper's) changes nothing here
        from ..rules import call_wrapper_result
        if "__call__" in c.members and recm is not None and recm.owner is cm \
                and call_wrapper_result(c.members["__call__"]) is not None:
            own = [m for m in own if m != "__call__"]
            callm = model.lookup(cm, "__call__")
        ok = (not own and callm is not None and callm.owner is cm
              and recm is not None and recm.owner is cm
              and model.is_subclass(c, b))
        diffs = []
        for slot, mem in model.slots(b).items():
            m2 = model.lookup(c, slot)
            if mem is not None and (m2 is None or m2.node is not mem.node):
                diffs.append(slot)
        ctx.ob(f"S/cached-variant/{c.name}", ok and not diffs, c.loc(),
               f"{c.name}: {b.name}'s handlers, CachedMapper's dispatch"
               if ok and not diffs else
               f"{c.name} " + (f"defines {own}; " if own else "") +
               (f"handlers {diffs} differ from {b.name}'s; " if diffs else "") +
               ("does not dispatch through CachedMapper" if callm is None
                or callm.owner is not cm else ""))


def _float_sibling(ctx, model):
    """CachedFloatEvaluationMapper re-defines FloatEvaluationMapper's two
    handlers: the copies must be identical"""
    a = model.cls("pymbolic.mapper.evaluator:CachedFloatEvaluationMapper")
    b = model.cls("pymbolic.mapper.evaluator:FloatEvaluationMapper")
    cm = model.cls(f"{M}:CachedMapper")
    slots = sorted(set(a.members) | set(b.members))
    for s_ in slots:
        if not s_.startswith("map_"):
            continue
        ma, mb = a.members.get(s_), b.members.get(s_)
        same = ma is not None and mb is not None and ast.dump(ma.node) == \
            ast.dump(mb.node)
        ctx.ob(f"S/cached-variant/CachedFloatEvaluationMapper/{s_}", same, a.loc(),
               "same handler body as FloatEvaluationMapper" if same else
               f"CachedFloatEvaluationMapper.{s_} differs from "
               f"FloatEvaluationMapper.{s_}: cached and plain float evaluation "
               "disagree")
    callm = model.lookup(a, "__call__")
    ctx.ob("S/cached-variant/CachedFloatEvaluationMapper/dispatch",
           callm is not None and callm.owner is cm, a.loc(),
           "dispatch through CachedMapper")


def _purity(ctx, model):
    n_handlers = 0
    for ckey, _ in CACHED_VARIANTS:
        c = model.cls(ckey)
        for name, mem in model.slots(c).items():
            if mem is None or mem.kind != "func":
                continue
            n_handlers += 1
            _purity_of(ctx, c, name, mem)
        for extra in ("visit", "post_visit", "combine"):
            mem = model.lookup(c, extra)
            if mem is not None and mem.kind == "func":
                _purity_of(ctx, c, extra, mem)
    ctx.floor("handlers checked for hidden state", n_handlers, 200)


def _purity_of(ctx, c, name, mem):
    bad = []
    for a in ast.walk(mem.node):
        attr = None
        if isinstance(a, ast.Attribute) and isinstance(a.ctx, (ast.Store, ast.Del)) \
                and isinstance(a.value, ast.Name) and a.value.id == "self":
            attr = a.attr
        if isinstance(a, ast.Call) and isinstance(a.func, ast.Attribute) \
                and a.func.attr in MUTATORS and isinstance(
                a.func.value, ast.Attribute) and isinstance(
                a.func.value.value, ast.Name) and a.func.value.value.id == "self":
            attr = a.func.value.attr
        if isinstance(a, ast.Subscript) and isinstance(a.ctx, (ast.Store, ast.Del)) \
                and isinstance(a.value, ast.Attribute) and isinstance(
                a.value.value, ast.Name) and a.value.value.id == "self":
            attr = a.value.attr
        if attr and attr not in CACHE_TABLES and (c.name, attr) not in ACCUMULATORS \
                and (mem.owner.name, attr) not in ACCUMULATORS:
            bad.append(attr)
    if bad:
        ctx.ob(f"O/purity/{c.name}/{mem.owner.name}.{name}", False,
               mem.owner.module.loc(mem.node),
               f"{mem.owner.name}.{name} (reachable in the memoizing mapper "
               f"{c.name}) modifies self.{sorted(set(bad))}: a cached result then "
               "depends on call history, not only on its key")
    else:
        ctx.ob(f"O/purity/{c.name}/{mem.owner.name}.{name}", True,
               mem.owner.module.loc(mem.node), "no hidden state",
               nontrivial=False)


# ---------------------------------------------------------------------------
# optimizer
# ---------------------------------------------------------------------------

def _bool_eval(e, env):
    """evaluate a boolean formula over flags; unknown atoms -> env['?']"""
    if isinstance(e, ast.BoolOp):
        vals = [_bool_eval(v, env) for v in e.values]
        return all(vals) if isinstance(e.op, ast.And) else any(vals)
    if isinstance(e, ast.UnaryOp) and isinstance(e.op, ast.Not):
        return not _bool_eval(e.operand, env)
    src = ast.unparse(e)
    if src in env:
        return env[src]
    if isinstance(e, ast.Attribute) and isinstance(e.value, ast.Name) \
            and e.value.id == "self" and e.attr in env:
        return env[e.attr]
    if isinstance(e, ast.Constant):
        return bool(e.value)
    return env.get("?", True)


def _cached_ast_ownership(ctx, model, m):
    """the parsed module AST is memoized (lru_cache) and therefore shared by
    every application of the decorator; ast.NodeTransformer.generic_visit
    rewrites child lists *in place*.  A transformer may therefore only be
    applied to a deep copy of what the cached loaders hand out, else the first
    application changes what every later one sees (who-may-write rule)."""
    funcs = {k.split(":", 1)[1]: f for k, (mm, f) in model.functions.items()
             if mm is m}
    U = lambda n: ast.unparse(n).replace(" ", "")      # noqa: E731
    cached = {name for name, f in funcs.items()
              if any(U(d).split("(")[0].split(".")[-1] in ("lru_cache", "cache")
                     for d in f.decorator_list)}
    if not cached:
        ctx.ob("O/optimizer/cached-ast-not-mutated", True, m.loc(m.tree),
               "the module AST is not memoized: every application parses afresh")
        return
    DEEP = ("deepcopy", "copy.deepcopy")

    def hands_out_shared(f, seen=()):
        """does f return (a part of) a cached value without deep-copying it?"""
        for r in ast.walk(f):
            if isinstance(r, ast.Return) and r.value is not None:
                if isinstance(r.value, ast.Call) and U(r.value.func) in DEEP:
                    continue
                for c in ast.walk(r.value):
                    if isinstance(c, ast.Call) and isinstance(c.func, ast.Name):
                        if c.func.id in shared or c.func.id in cached:
                            return True
                    if isinstance(c, ast.Name) and c.id in tainted_locals(f):
                        return True
        return False

    def tainted_locals(f):
        t = set()
        for _ in range(4):
            for st in ast.walk(f):
                if isinstance(st, ast.Assign):
                    v = st.value
                    if isinstance(v, ast.Call) and U(v.func) in DEEP:
                        continue
                    src_taint = any(
                        (isinstance(c, ast.Call) and isinstance(c.func, ast.Name)
                         and (c.func.id in shared or c.func.id in cached))
                        or (isinstance(c, ast.Name) and c.id in t)
                        for c in ast.walk(v))
                    if src_taint:
                        for tg in st.targets:
                            for n_ in ast.walk(tg):
                                if isinstance(n_, ast.Name):
                                    t.add(n_.id)
                if isinstance(st, ast.For):
                    if any(isinstance(c, ast.Name) and c.id in t
                           for c in ast.walk(st.iter)):
                        for n_ in ast.walk(st.target):
                            if isinstance(n_, ast.Name):
                                t.add(n_.id)
        return t

    shared = set()
    for _ in range(6):          # transitive closure over the loader helpers
        for name, f in funcs.items():
            if name not in cached and name not in shared and \
                    name != "optimize_mapper" and hands_out_shared(f):
                shared.add(name)
    # in-place transformers of the module
    mutators = set()
    for c in model.classes.values():
        if c.module is m and any("NodeTransformer" in U(b) for b in c.node.bases):
            if any(isinstance(x, ast.Call) and U(x.func) == "self.generic_visit"
                   for x in ast.walk(c.node)):
                mutators.add(c.name)
    _, opt = model.func(f"{OPT}:optimize_mapper")
    taint = tainted_locals(opt)
    bad = []
    n_visits = 0
    for c in ast.walk(opt):
        if isinstance(c, ast.Call) and isinstance(c.func, ast.Attribute) and \
                c.func.attr == "visit" and isinstance(c.func.value, ast.Call) and \
                U(c.func.value.func) in mutators and c.args:
            n_visits += 1
            if any(isinstance(n_, ast.Name) and n_.id in taint
                   for n_ in ast.walk(c.args[0])):
                bad.append(U(c.func.value.func))
    ctx.floor("optimizer: transformer applications", n_visits, 2)
    ctx.ob("O/optimizer/cached-ast-not-mutated", not bad, m.loc(opt),
           "in-place transformers are applied to private copies of the memoized "
           "module AST" if not bad else
           f"{sorted(set(bad))} (ast.NodeTransformer with generic_visit, which "
           "rewrites child lists in place) are applied to method definitions "
           f"taken from the memoized loaders {sorted(cached)} without a deep copy: "
           "the first application of optimize_mapper changes the AST every later "
           "application starts from -- after one class was optimized with "
           "drop_args/drop_kwargs, optimizing another class *without* them still "
           "strips the extra arguments from inherited methods")


def _generated_inlinings(model, m, rin, fn):
    """_RecInliner.visit_Call interpreted (pv/absint.py) on the call site
    self.rec(expr, *args, **kwargs) under the four flag settings, with the
    constructors of the ast module building real nodes: the code the
    optimizer generates, whatever helpers produce it.
    -> {(inline_rec, inline_cache): expression}"""
    import copy
    from ..absint import (Interp, Obj, Opaque, Raised, StepBound, module_env,
                          default_isinstance)

    def resolve(cls, nm):
        if cls == "_RecInliner":
            mem = model.lookup(rin, nm)
            if mem is not None and mem.kind == "func":
                return ("func", mem.node)
        return None

    def ast_cls(v):
        for c in (v if isinstance(v, tuple) else (v,)):
            w = getattr(c, "what", "").replace(".", " ").split(" ")
            k = getattr(ast, w[-1], None) if w and w[-1] else None
            if not (isinstance(k, type) and issubclass(k, ast.AST)):
                return None
            yield k

    def _isinst(it, n, a, k):
        ks = list(ast_cls(a[1]) or ())
        if ks and None not in ks:
            return isinstance(a[0], tuple(ks))
        r = default_isinstance(a[0], a[1])
        if r is None:
            raise AnalysisError(f"isinstance(..., {a[1]!r})")
        return r

    def _repl(it, n, a, k):
        if not isinstance(a[0], ast.AST):
            raise AnalysisError("_replace of a non-node")
        o = copy.copy(a[0])
        for kk, v in k.items():
            setattr(o, kk, v)
        return o

    def _attrs(it, n, base, at):
        if isinstance(base, ast.AST):
            if not hasattr(base, at):
                raise Raised(n, "AttributeError")
            return getattr(base, at)
        return Opaque(ast.unparse(n))
    calls = {"isinstance": _isinst, "_replace": _repl,
             "self.generic_visit": lambda it_, n_, a, k: a[0],
             "super().generic_visit": lambda it_, n_, a, k: a[0]}
    for nm in dir(ast):
        k_ = getattr(ast, nm)
        if isinstance(k_, type) and issubclass(k_, ast.AST):
            mk = (lambda K: lambda it_, n_, a, k: K(*a, **k))(k_)
            calls[nm] = mk
            calls["ast." + nm] = mk
    out = {}
    glob = module_env(m.tree, {"ast": Opaque("ast")})
    for ir, ic in itertools.product([True, False], repeat=2):
        me = Obj("_RecInliner", {"inline_rec": ir, "inline_cache": ic})
        site = ast.parse("self.rec(expr, *args, **kwargs)", mode="eval").body
        it = Interp(calls=calls, attrs=_attrs, resolve=resolve, max_steps=40000,
                    globals_=glob)
        try:
            r = it.call_function(fn, [me, site], dict(glob))
        except (Raised, StepBound) as e:
            raise AnalysisError(f"_RecInliner.visit_Call(inline_rec={ir}, "
                                f"inline_cache={ic}) on self.rec(...): {e!r}")
        if not isinstance(r, ast.expr):
            raise AnalysisError("_RecInliner.visit_Call returns no expression")
        try:
            r = ast.parse(ast.unparse(ast.fix_missing_locations(
                copy.deepcopy(r))), mode="eval").body
        except Exception as e:      # noqa: BLE001
            raise AnalysisError(f"generated code does not unparse: {e}")
        out[ir, ic] = r
    return out


def _judge_generated(ctx, model, m, gen, where):
    """the generated expressions decided as dispatch routines (pv/dispatch.py):
    each stands for  self.rec(expr, *args, **kwargs)"""
    from .. import dispatch
    base = ast.unparse(gen[False, False]).replace(" ", "")
    ctx.ob("P0/optimizer/no-flags-no-rewrite",
           base == "self.rec(expr,*args,**kwargs)", where,
           "without inline_rec / inline_cache a rec site is left as it is")
    for (ir, ic), e in sorted(gen.items(), key=lambda kv: [not x for x in kv[0]]):
        if not (ir or ic):
            continue
        src = ast.unparse(e)
        fn = ast.parse("def rec(self, expr, *args, **kwargs):\n    return "
                       + src).body[0]
        wit, n = dispatch.judge(fn, cached=ic, module_tree=m.tree,
                                foreign=not ic, rec_is_plain=not ir)
        ctx.ob(f"P0/optimizer/generated-code/inline_rec={ir},inline_cache={ic}",
               not wit, where,
               f"the expression generated for a rec site dispatches like "
               f"{'CachedMapper' if ic else 'Mapper'}.__call__ on {n} node-class/"
               "handler-set cases" + (", and serves the second request from "
               "the table" if ic else "") if not wit else
               f"the code generated for self.rec(...) under inline_rec={ir}, "
               f"inline_cache={ic} does not behave like the call it replaces: "
               + "; ".join(wit[:3]), {"generated": src[:400]})


def _temporaries_hygienic(ctx, model, m, inliner_fn, gen=None):
    """The inlined code assigns temporaries (by :=) in the scope of the method
    it is inlined into.  Their names must not be names that mapper methods of
    this package bind themselves -- those methods are exactly what gets
    rewritten (a subclass of a stock mapper inherits them): a captured local
    is silently overwritten by every inlined rec call."""
    consts = {}
    for st in m.tree.body:
        if isinstance(st, ast.Assign) and len(st.targets) == 1 and \
                isinstance(st.targets[0], ast.Name) and \
                isinstance(st.value, ast.Constant) and \
                isinstance(st.value.value, str):
            consts[st.targets[0].id] = st.value.value

    def text(e):
        if isinstance(e, ast.Constant) and isinstance(e.value, str):
            return e.value
        if isinstance(e, ast.Name) and e.id in consts:
            return consts[e.id]
        if isinstance(e, ast.BinOp) and isinstance(e.op, ast.Add):
            a, b = text(e.left), text(e.right)
            return None if a is None or b is None else a + b
        return None
    temps = {}
    if gen is not None:
        for e in gen.values():
            for c in ast.walk(e):
                if isinstance(c, ast.NamedExpr) and isinstance(c.target, ast.Name):
                    temps[c.target.id] = c
    for c in ast.walk(inliner_fn) if gen is None else ():
        if isinstance(c, ast.Call) and isinstance(c.func, ast.Name) and \
                c.func.id == "expr_assign" and c.args:
            t = text(c.args[0])
            if t is None:
                raise AnalysisError("_RecInliner: name of a generated temporary "
                                    "is not a constant string")
            temps[t] = c
    if len(temps) < 2:
        raise AnalysisError("_RecInliner: generated temporaries not found")
    mapper_base = model.cls(f"{M}:Mapper")
    users = {}
    n_methods = 0
    for c in model.classes.values():
        if not model.is_subclass(c, mapper_base):
            continue
        for name, mem in c.members.items():
            if mem.kind != "func" or not (name.startswith("map_") or name in (
                    "__call__", "rec", "rec_fallback")):
                continue
            n_methods += 1
            for n_ in ast.walk(mem.node):
                if isinstance(n_, ast.Name) and isinstance(n_.ctx, ast.Store) \
                        and n_.id in temps:
                    users.setdefault(n_.id, f"{c.name}.{name}")
    ctx.floor("mapper methods scanned for local names", n_methods, 300)
    ctx.ob("T/optimizer/temporaries-cannot-capture-locals", not users,
           m.loc(inliner_fn),
           f"generated temporaries {sorted(temps)} are no local of any mapper "
           "method" if not users else
           "the inlined look-aside/dispatch assigns the temporaries "
           f"{sorted(users)} in the rewritten method's own scope, and "
           + ", ".join(f"{v} binds '{k}' itself" for k, v in sorted(users.items()))
           + ": every inlined self.rec(...) overwrites that local (an "
           "inherited map_numpy_array then stores into the cached value "
           "instead of its result array; a handler holding 'result' across a "
           "rec call returns the cache sentinel)")


def _judge_varargs_remover(model, var, fn):
    """interpretive judge: visit_Call interpreted on abstract ast.Call nodes.
    -> witnesses"""
    from ..absint import Interp, Obj, Opaque, Raised, StepBound, default_isinstance

    def name(i):
        return Obj("Name", {"id": i})
    arg_pool = [
        ("*VA", Obj("Starred", {"value": name("VA")}), True),
        ("*other", Obj("Starred", {"value": name("other")}), False),
        ("*[..]", Obj("Starred", {"value": Obj("List", {"elts": []})}), False),
        ("VA", name("VA"), False),
        ("*KW", Obj("Starred", {"value": name("KW")}), False),
    ]
    kw_pool = [
        ("**KW", Obj("keyword", {"arg": None, "value": name("KW")}), True),
        ("**other", Obj("keyword", {"arg": None, "value": name("other")}), False),
        ("**{..}", Obj("keyword", {"arg": None, "value": Obj("Dict", {})}), False),
        ("x=KW", Obj("keyword", {"arg": "x", "value": name("KW")}), False),
        ("**VA", Obj("keyword", {"arg": None, "value": name("VA")}), False),
    ]

    def resolve(cls, nm):
        if cls == "_VarArgsRemover":
            mem = model.lookup(var, nm)
            if mem is not None and mem.kind == "func":
                return ("func", mem.node)
        return None

    def _isinst(it, n, a, k):
        cs = a[1] if isinstance(a[1], tuple) else (a[1],)
        if all(getattr(c, "what", "").startswith("ast.") for c in cs):
            return isinstance(a[0], Obj) and any(
                c.what == "ast." + str(a[0].cls) for c in cs)
        r = default_isinstance(a[0], a[1])
        if r is None:
            raise AnalysisError(f"isinstance(..., {a[1]!r})")
        return r

    def _repl(it, n, a, k):
        o = a[0]
        if not isinstance(o, Obj):
            raise AnalysisError("_replace of a non-node")
        f = dict(o.fields)
        f.update(k)
        return Obj(o.cls, f)

    def _attrs(it, n, base, at):
        if isinstance(base, Obj) and at in base.fields:
            return base.fields[at]
        return Opaque(ast.unparse(n))
    wit = []
    n_cases = 0
    orders = [(0, 1, 2, 3, 4), (3, 0, 1, 0, 4), (1, 2), (0,), ()]
    for da, dk in itertools.product([True, False], repeat=2):
        for oa, ok_ in itertools.product(orders, repeat=2):
            me = Obj("_VarArgsRemover", {
                "drop_args": da, "drop_kwargs": dk,
                "vararg_name": "VA", "kwarg_name": "KW"})
            args = [arg_pool[i] for i in oa]
            kws = [kw_pool[i] for i in ok_]
            node = Obj("Call", {"func": name("f"),
                                "args": [x[1] for x in args],
                                "keywords": [x[1] for x in kws]})
            it = Interp(calls={"isinstance": _isinst, "_replace": _repl,
                               "self.generic_visit": lambda it_, n_, a, k: a[0]},
                        attrs=_attrs, resolve=resolve, max_steps=20000,
                        globals_={"ast": Opaque("ast")})
            n_cases += 1
            label = (f"drop_args={da}, drop_kwargs={dk}, call f("
                     + ", ".join(x[0] for x in args + kws) + ")")
            try:
                out = it.call_function(fn, [me, node], {"ast": Opaque("ast")})
            except (Raised, StepBound) as e:
                wit.append(f"{label}: {type(e).__name__}")
                continue
            if not isinstance(out, Obj) or out.cls != "Call":
                raise AnalysisError("visit_Call returns no call node")
            want_a = [x[1] for x in args if not (da and x[2])]
            want_k = [x[1] for x in kws if not (dk and x[2])]
            got_a, got_k = out.fields.get("args"), out.fields.get("keywords")
            same = (lambda g, w: isinstance(g, (list, tuple)) and len(g) == len(w)
                    and all(a is b for a, b in zip(g, w)))
            if not same(got_a, want_a):
                wit.append(f"{label}: positional arguments left are not those "
                           "other than the dropped *args")
            if not same(got_k, want_k):
                wit.append(f"{label}: keywords left are not those other than "
                           "the dropped **kwargs")
    if n_cases < 50:
        raise AnalysisError("_VarArgsRemover: too few cases")
    return wit


def _optimizer_gathers_every_method(ctx, model, m):
    """The generated class carries its own definition of every method the
    decorated class responds to -- inherited ones and aliases
    (`map_product = map_sum` in a base class) included, each made from the
    source of the function that attribute *is* (an alias bound by name in the
    generated class would follow an override of the aliased method instead).
    Path rule over one general round of the gathering loop in
    optimize_mapper: a round either stores a definition under the attribute's
    name or skips the attribute for being a dunder or a property."""
    from .. import cfg
    from ..rules import loop_body_fn
    _, opt = model.func(f"{OPT}:optimize_mapper")
    loops = []
    for fn in ast.walk(opt):
        if not isinstance(fn, ast.FunctionDef):
            continue
        for st in fn.body:
            if isinstance(st, ast.For) and isinstance(st.iter, ast.Call) and \
                    ast.unparse(st.iter.func) == "dir" and \
                    isinstance(st.target, ast.Name):
                loops.append((fn, st))
    if len(loops) != 1:
        raise AnalysisError("optimize_mapper: the loop over dir(cls) that "
                            "gathers the method definitions was not found")
    fn, loop = loops[0]
    name = loop.target.id
    stores = {t.value.id for st in ast.walk(loop) if isinstance(st, ast.Assign)
              for t in st.targets if isinstance(t, ast.Subscript)
              and isinstance(t.value, ast.Name)}
    if len(stores) > 1:
        # the table of definitions is the one the class's own methods went
        # into before the loop
        inside = {id(x) for x in ast.walk(loop)}
        outside = {t.value.id for st in ast.walk(fn)
                   if isinstance(st, ast.Assign) and id(st) not in inside
                   for t in st.targets if isinstance(t, ast.Subscript)
                   and isinstance(t.value, ast.Name)}
        stores &= outside
    if len(stores) != 1:
        raise AnalysisError("optimize_mapper: the table the gathering loop "
                            "stores definitions into was not identified")
    table = stores.pop()
    body = loop_body_fn(fn, loop)
    skipped, n_store, n_paths = [], 0, 0
    for path in cfg.paths(body, loop_mode="1"):
        if path and path[-1][0] in ("raise",):
            continue
        n_paths += 1
        stored = False
        kind_guard = False
        guards = []
        # the names the loop must not pass over: a path that such a name
        # cannot take (its tests on the name alone say "a dunder other than
        # __call__") is no skip of a method
        feasible = {"map_foo": True, "__call__": True, "rec": True}
        for it in path:
            if it[0] == "stmt" and isinstance(it[1], ast.Assign) and any(
                    isinstance(t, ast.Subscript) and isinstance(t.value, ast.Name)
                    and t.value.id == table for t in it[1].targets):
                stored = True
            if it[0] == "cond":
                src = ast.unparse(it[1])
                guards.append(("" if it[2] else "not ") + f"({src})")
                calls = {ast.unparse(c.func).split(".")[-1]
                         for c in ast.walk(it[1]) if isinstance(c, ast.Call)}
                names = {x.id for x in ast.walk(it[1])
                         if isinstance(x, ast.Name)} | {
                    x.attr for x in ast.walk(it[1])
                    if isinstance(x, ast.Attribute)}
                free = {x.id for x in ast.walk(it[1]) if isinstance(x, ast.Name)}
                if free == {name} and calls <= {"startswith", "endswith"}:
                    from ..absint import Interp, Raised
                    for sample in feasible:
                        try:
                            v = bool(Interp(max_steps=200).eval(
                                it[1], {name: sample}))
                        except (AnalysisError, Raised):
                            continue
                        if v != it[2]:
                            feasible[sample] = False
                if it[2] and "isinstance" in calls and \
                        names & {"property", "cached_property"}:
                    kind_guard = True
        if not any(feasible.values()):
            kind_guard = True
        if stored:
            n_store += 1
        elif not kind_guard:
            skipped.append(" and ".join(guards) or "unconditionally")
    ctx.floor("optimizer: gathering rounds that store a definition", n_store, 1)
    ctx.ob("P/optimizer/every-attribute-gets-its-own-definition", not skipped,
           m.loc(loop),
           f"{n_paths} ways through a round of the gathering loop: each stores "
           f"a definition in {table} or skips a dunder / a property" if not skipped
           else "optimize_mapper leaves an attribute of the class without a "
           "definition of its own in the generated class when "
           + "; ".join(skipped[:2]) + ": what the generated class answers for "
           "that method is then whatever the name resolves to there (an alias "
           "such as IdentityMapper.map_product = map_sum follows a subclass's "
           "override of map_sum, which the original class does not)")


def _optimizer(ctx, model):
    m = model.repo.module(OPT)
    _cached_ast_ownership(ctx, model, m)
    _optimizer_gathers_every_method(ctx, model, m)
    # (a) _VarArgsRemover
    var = model.cls(f"{OPT}:_VarArgsRemover")
    vc = var.members.get("visit_Call")
    if vc is None:
        raise AnalysisError("_VarArgsRemover.visit_Call not found")
    comps = [n for n in ast.walk(vc.node) if isinstance(n, ast.ListComp)]
    try:
        wit = _judge_varargs_remover(model, var, vc.node)
    except AnalysisError as e:
        wit = None
        ctx.extra["judge_unavailable:_VarArgsRemover.visit_Call"] = str(e)
    if wit is not None:
        ctx.ob("P0/optimizer/_VarArgsRemover/call-sites", not wit, m.loc(vc.node),
               "visit_Call interpreted on call sites mixing the dropped "
               "parameter's splat with other splats, same-named plain arguments "
               "and named keywords, under the four flag settings: exactly the "
               "dropped splats go, the rest stays in order" if not wit else
               "_VarArgsRemover.visit_Call: " + "; ".join(wit[:3]))
    vr_judged = wit is not None and not wit
    if wit is not None and len(comps) != 2:
        comps = []          # the interpretation decides
    elif len(comps) != 2:
        raise AnalysisError("_VarArgsRemover: expected two filters")
    for comp in comps:
        gen = comp.generators[0]
        it = ast.unparse(gen.iter)
        if len(gen.ifs) != 1:
            raise AnalysisError("_VarArgsRemover: filter shape")
        test = gen.ifs[0]
        v = gen.target.id if isinstance(gen.target, ast.Name) else "?"
        if it == "node.args":
            flag, what = "drop_args", "*args"
        elif it == "node.keywords":
            flag, what = "drop_kwargs", "**kwargs"
        else:
            raise AnalysisError(f"_VarArgsRemover: iterates {it}")
        ok = True
        for fl, special in itertools.product([True, False], repeat=2):
            # special: the element is the splat of the dropped parameter; every
            # test a filter makes about the element (is it starred, has it no
            # keyword name, is it the dropped name) holds for it and fails for
            # an ordinary argument
            env = {flag: fl,
                   f"isinstance({v}, ast.Starred)": special,
                   f"{v}.arg is None": special,
                   f"{v}.arg is not None": not special,
                   "?": special,
                   "drop_args" if flag == "drop_kwargs" else "drop_kwargs": True}
            keep = _bool_eval(test, env)
            want = not (fl and special)
            if keep != want:
                ok = False
        ctx.ob(f"T/optimizer/_VarArgsRemover/{what}", ok, m.loc(comp),
               f"{what} is removed from call sites exactly under {flag}" if ok else
               f"_VarArgsRemover removes or keeps {what} at call sites under the "
               f"wrong condition (must be: removed iff {flag})")
    # (b) signature rewrite uses the same flags
    _, opt = model.func(f"{OPT}:optimize_mapper")
    U = lambda n: ast.unparse(n).replace(" ", "")     # noqa: E731

    def dropped_under(value, flag, attr):
        """value is  None if <flag> else <x>.<attr>  (or the negated form)"""
        if not isinstance(value, ast.IfExp):
            return False
        t, a_, b_ = value.test, value.body, value.orelse
        if isinstance(t, ast.UnaryOp) and isinstance(t.op, ast.Not):
            t, a_, b_ = t.operand, b_, a_
        return isinstance(t, ast.Name) and t.id == flag and isinstance(
            a_, ast.Constant) and a_.value is None and isinstance(
            b_, ast.Attribute) and b_.attr == attr
    sig_ok = {"vararg": False, "kwarg": False}
    for c in ast.walk(opt):
        if isinstance(c, ast.Call):
            for k in c.keywords:
                if k.arg == "vararg" and dropped_under(k.value, "drop_args",
                                                       "vararg"):
                    sig_ok["vararg"] = True
                if k.arg == "kwarg" and dropped_under(k.value, "drop_kwargs",
                                                      "kwarg"):
                    sig_ok["kwarg"] = True
    ok = all(sig_ok.values())
    ctx.ob("T/optimizer/signature-matches-call-sites", ok, m.loc(opt),
           "signatures drop *args/**kwargs under the same flags as call sites"
           if ok else
           "the rewritten signatures do not drop *args/**kwargs under the same "
           f"flags as the call sites ({sig_ok})")

    # (b') a parameter removed from a signature must not stay behind as a name
    # in the body: the default get_cache_key builds its key from args/kwargs,
    # so dropping them from the signature alone makes every call a NameError.
    # The rewriter turns loads of the dropped names into the empty tuple /
    # mapping they would have held.
    vn = var.members.get("visit_Name")
    body_ok = {"drop_args": False, "drop_kwargs": False}
    if vn is not None and vn.kind == "func":
        for ps in summarize(vn.node, node_param=False):
            if ps.term != "return" or not isinstance(ps.retval, tuple):
                continue
            rv = ps.retval
            kind = "drop_args" if rv[0] == "call" and rv[1] == "ast.Tuple" else \
                "drop_kwargs" if rv[0] == "call" and rv[1] == "ast.Dict" else None
            if kind is None:
                continue
            from ..summary import facts_of
            facts = [f for _, pol0, v0 in ps.conds if isinstance(v0, tuple)
                     for f in facts_of(v0, pol0)]
            flag_on = any(v == ("self", kind) and pol for v, pol in facts)
            name_par = "vararg_name" if kind == "drop_args" else "kwarg_name"
            name_ok = any(
                pol and v[0] == "compare" and v[1] == ("Eq",)
                and {v[2], v[3][0]} == {("attr", ("param", vn.node.args.args[1].arg),
                                         "id"), ("self", name_par)}
                for v, pol in facts)
            empty = not [k for k in rv[3] if k[0] in ("elts", "keys", "values")
                         and k[1] not in (("lit", "list", ()),)]
            if flag_on and name_ok and empty:
                body_ok[kind] = True
    names_passed = False
    for c in ast.walk(opt):
        if isinstance(c, ast.Call) and U(c.func) == "_VarArgsRemover":
            kws = {k.arg: U(k.value) for k in c.keywords}
            names_passed = kws.get("vararg_name") == "vararg_name" and \
                kws.get("kwarg_name") == "kwarg_name"
    taken = {st.targets[0].id: U(st.value) for st in ast.walk(opt)
             if isinstance(st, ast.Assign) and len(st.targets) == 1
             and isinstance(st.targets[0], ast.Name)
             and st.targets[0].id in ("vararg_name", "kwarg_name")}
    names_read = "mdef.args.vararg.arg" in taken.get("vararg_name", "") and \
        "mdef.args.kwarg.arg" in taken.get("kwarg_name", "")
    ok = all(body_ok.values()) and names_passed and names_read
    if not ok:
        # definite only if nothing in the module looks at Name nodes or at the
        # names of the dropped parameters; any other mechanism is unread
        handles_names = any(
            isinstance(f, ast.FunctionDef) and f.name == "visit_Name"
            for f in ast.walk(m.tree)) or any(
            isinstance(a, ast.Attribute) and a.attr == "arg"
            and isinstance(a.value, ast.Attribute)
            and a.value.attr in ("vararg", "kwarg") for a in ast.walk(m.tree))
        if handles_names:
            raise AnalysisError("optimize_mapper: how the names of dropped "
                                "*args/**kwargs parameters are removed from "
                                "method bodies is not understood")
    ctx.ob("T/optimizer/dropped-parameters-rewritten-in-bodies", ok, m.loc(opt),
           "loads of a dropped *args / **kwargs name become () / {}" if ok else
           "optimize_mapper drops *args/**kwargs from signatures but leaves the "
           "names in the method bodies: with the default get_cache_key "
           "((type(expr), expr, args, immutabledict(kwargs))) every call of a "
           "rewritten CachedMapper ends in NameError: name 'args' is not "
           "defined -- for every option set with drop_args or drop_kwargs")

    # ... and at call sites only the splats of the dropped parameters go: a
    # filter that looks at nothing but "is it starred" / "has it no keyword
    # name" also removes  mk(*[...])  and  f(**{...})
    vc = var.members.get("visit_Call")
    if vc is None or vc.kind != "func":
        raise AnalysisError("_VarArgsRemover.visit_Call not found")
    n_filters = 0
    for comp in ast.walk(vc.node):
        if not isinstance(comp, (ast.ListComp, ast.GeneratorExp)) or \
                len(comp.generators) != 1:
            continue
        g = comp.generators[0]
        src = U(g.iter)
        kind = "args" if src.endswith(".args") else \
            "keywords" if src.endswith(".keywords") else None
        if kind is None or not isinstance(g.target, ast.Name) or not g.ifs:
            continue
        n_filters += 1
        v = g.target.id
        cond = ast.BoolOp(op=ast.And(), values=list(g.ifs))
        looks_inside = any(
            isinstance(a, ast.Attribute) and a.attr == "value"
            and isinstance(a.value, ast.Name) and a.value.id == v
            for a in ast.walk(cond)) or any(
            isinstance(a, ast.Attribute) and a.attr in ("vararg_name",
                                                        "kwarg_name")
            for a in ast.walk(cond)) or any(
            isinstance(c, ast.Call) and any(
                isinstance(x, ast.Name) and x.id == v for x in c.args)
            and U(c.func) != "isinstance" for c in ast.walk(cond))
        what = "starred argument" if kind == "args" else "** mapping"
        ctx.ob(f"T/optimizer/only-dropped-splats-removed:{kind}", looks_inside,
               m.loc(comp),
               f"a {what} is removed from a call only if it is the dropped "
               "parameter" if looks_inside else
               f"_VarArgsRemover.visit_Call removes every {what} from every "
               "call, whatever is splatted: a handler that rebuilds its node "
               "with mk(*[self.rec(c) for c in expr.children]) loses all "
               "operands in the optimized mapper (Sum(()) instead of x + y + 3)")
    if n_filters < 2 and not vr_judged:
        raise AnalysisError("_VarArgsRemover.visit_Call: the filters over "
                            "node.args / node.keywords were not recognised")

    def passes_flags(cls_name, flags):
        """the transformer is constructed with every flag passed under its own
        name (keyword) or in declaration order (positional)"""
        cls_ = model.cls(f"{OPT}:{cls_name}")
        init_ = cls_.members.get("__init__")
        order = [a.arg for a in init_.node.args.args[1:]] + \
            [a.arg for a in init_.node.args.kwonlyargs] if init_ else flags
        found = False
        good = True
        for c in ast.walk(opt):
            if isinstance(c, ast.Call) and U(c.func) == cls_name:
                found = True
                got = {}
                for i, a_ in enumerate(c.args):
                    if i < len(order):
                        got[order[i]] = a_
                for k in c.keywords:
                    got[k.arg] = k.value
                for f in flags:
                    v = got.get(f)
                    if not (isinstance(v, ast.Name) and v.id == f):
                        good = False
        return found and good
    ok = passes_flags("_VarArgsRemover", ["drop_args", "drop_kwargs"])
    ctx.ob("T/optimizer/flags-passed", ok, m.loc(opt),
           "flags are passed to the call-site rewriter unchanged" if ok else
           "optimize_mapper does not hand drop_args / drop_kwargs to "
           "_VarArgsRemover under their own names")
    ok = passes_flags("_RecInliner", ["inline_rec", "inline_cache"])
    ctx.ob("T/optimizer/inliner-flags-passed", ok, m.loc(opt),
           "flags are passed to the rec inliner unchanged" if ok else
           "optimize_mapper does not hand inline_rec / inline_cache to "
           "_RecInliner under their own names")
    # (c)/(d) hazards and guards
    rin = model.cls(f"{OPT}:_RecInliner")
    rv = rin.members.get("visit_Call")
    try:
        gen = _generated_inlinings(model, m, rin, rv.node)
    except AnalysisError as e:
        gen = None
        ctx.extra["judge_unavailable:_RecInliner.visit_Call"] = str(e)
    if gen is not None:
        try:
            _judge_generated(ctx, model, m, gen, m.loc(rv.node))
        except AnalysisError as e:
            gen = None
            ctx.extra["judge_unavailable:_RecInliner.visit_Call"] = str(e)
    key_tuple = None
    for n in ast.walk(rv.node):
        if isinstance(n, ast.Assign) and ast.unparse(n.targets[0]) == \
                "cache_key_expr":
            key_tuple = n.value
    if gen is not None:
        # the key of the generated look-aside: what .get() is handed
        keys = []
        for c in ast.walk(gen[False, True]):
            if isinstance(c, ast.Call) and isinstance(c.func, ast.Attribute) \
                    and c.func.attr == "get" and c.args:
                k_ = c.args[0]
                keys.append(k_.value if isinstance(k_, ast.NamedExpr) else k_)
        if len(keys) != 1:
            raise AnalysisError("generated look-aside: the table look-up was "
                                "not found")
        key_tuple = key_tuple or rv.node
        names_ = {x.id for x in ast.walk(keys[0]) if isinstance(x, ast.Name)}
        key_has_rest = {"args", "kwargs"} <= names_
        ksrc = ast.unparse(keys[0]).replace(" ", "")
        key_has_type = "type(expr)" in ksrc and \
            "expr" in ksrc.replace("type(expr)", "")
    else:
      if key_tuple is None:
        raise AnalysisError("_RecInliner: cache_key_expr not found")
      ksrc = ast.unparse(key_tuple)
      key_has_rest = "node.args[1:]" in ksrc and "node.keywords" in ksrc
      key_has_type = "expr_type" in ksrc and "expr" in ksrc.replace("expr_type", "")
    ctx.ob("T/optimizer/inlined-key/type-and-expr", key_has_type, m.loc(key_tuple),
           "inlined key contains type(expr) and expr" if key_has_type else
           "the inlined cache key lacks type(expr) or expr")
    guards = _guards(opt)
    flags = ["drop_args", "drop_kwargs", "inline_rec", "inline_cache"]
    unguardedA = []
    unguardedB = []
    for vals in itertools.product([True, False], repeat=4):
        env = dict(zip(flags, vals))
        env["?"] = True    # "the class is a cached mapper" and similar tests
        rejected = any(_bool_eval(g, env) for g in guards)
        if env["inline_cache"] and not (env["drop_args"] and env["drop_kwargs"]) \
                and not key_has_rest and not rejected:
            unguardedA.append({k: v for k, v in env.items() if k != "?"})
        if env["inline_rec"] and not env["inline_cache"] and not rejected:
            unguardedB.append({k: v for k, v in env.items() if k != "?"})
    ctx.ob("T/optimizer/inlined-key/covers-remaining-args", not unguardedA,
           m.loc(key_tuple),
           "inline_cache is only possible when no extra argument can remain at a "
           "rec site (or the key includes them)" if not unguardedA else
           "with inline_cache the inlined look-aside keys on (type(expr), expr) "
           "only, while *args/**kwargs may still be passed at the rec site: "
           "results are shared between calls with different extra arguments "
           f"(e.g. options {unguardedA[0]})", {"unguarded": unguardedA[:4]})
    ctx.ob("T/optimizer/inline_rec/keeps-cache", not unguardedB, m.loc(rv.node),
           "inline_rec cannot be combined with an un-inlined cache" if
           not unguardedB else
           "inline_rec without inline_cache replaces self.rec(...) by direct "
           "handler dispatch, bypassing CachedMapper.__call__: a cached mapper "
           "recomputes shared subexpressions "
           f"(e.g. options {unguardedB[0]})", {"unguarded": unguardedB[:4]})
    # the inlined look-aside itself
    # (the generated code assigns the key to a temporary -- expr_assign(<name>,
    # cache_key_expr) -- and the store helper is handed Name(id=<the same name>))
    key_names = [c.args[0] for c in ast.walk(rv.node) if isinstance(c, ast.Call)
                 and isinstance(c.func, ast.Name) and c.func.id == "expr_assign"
                 and len(c.args) == 2 and ast.unparse(c.args[1]) == "cache_key_expr"]
    stores = []
    for c in ast.walk(rv.node):
        if isinstance(c, ast.Call) and isinstance(c.func, ast.Name) and \
                c.func.id == "Call":
            kw = {k.arg: k.value for k in c.keywords}
            f_ = kw.get("func")
            if f_ is not None and "_set_and_return" in ast.unparse(f_) and \
                    isinstance(kw.get("args"), ast.List) and \
                    len(kw["args"].elts) == 3:
                stores.append(kw["args"].elts[1])
    ok = len(key_names) == 1 and len(stores) == 1
    if ok:
        st = stores[0]
        idv = next((k.value for k in st.keywords if k.arg == "id"), None) \
            if isinstance(st, ast.Call) else None
        ok = idv is not None and ast.dump(idv) == ast.dump(key_names[0])
    _temporaries_hygienic(ctx, model, m, rv.node, gen)
    judged_ok = gen is not None and not any(
        o.key.startswith("P0/optimizer/generated-code/") and not o.ok
        for o in ctx.obs)
    if ok or not judged_ok:
        ctx.ob("P/optimizer/inlined-lookaside/same-key", ok, m.loc(rv.node),
               "inlined lookup and store use one cache_key" if ok else
               "the inlined look-aside does not store under the key it looked up")
    try:
        _, sar = model.func(f"{OPT}:_set_and_return")
    except Exception:                       # noqa: BLE001
        if not judged_ok:
            raise
        return
    body = [ast.unparse(s).replace(" ", "") for s in sar.body]
    ok = body == ["mapping[key]=value", "returnvalue"]
    if ok or not judged_ok:
      ctx.ob("P/optimizer/_set_and_return", ok, m.loc(sar),
           "_set_and_return stores then returns the value" if ok else
           "_set_and_return does not store the value under the key and return it")


def _guards(fn):
    """tests of 'if <test>: raise ...' statements in fn (incl. nested defs)"""
    out = []
    for n in ast.walk(fn):
        if isinstance(n, ast.If) and n.body and isinstance(n.body[0], ast.Raise):
            names = {x.id for x in ast.walk(n.test) if isinstance(x, ast.Name)}
            if names & {"drop_args", "drop_kwargs", "inline_rec", "inline_cache"}:
                out.append(n.test)
    return out
