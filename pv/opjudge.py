"""Interpretive judge for the overloaded operators (C03; carried by C07, C10).

Each operator method of Expression (and the overrides in Sum / Product) is
interpreted (pv/absint.py) on abstract operands -- a variable, a sum, a
product, the constants 0, 1, 2, -1, 0.0, 1.0, True and an unsupported object
on the other side -- and what comes back is compared, in a *value normal
form*, with the node the operator denotes (table GENERAL of pv/checks/c03.py).
The normal form applies exactly the rewritings that never change the value
and keeps the order of operands: nested sums / products flattened in place,
0 dropped from sums, 1 from products, a product with a 0 factor is 0,
x**0 = 1, x**1 = x, x/1 = x, 0/x = 0, and over the integers x//1 = x,
x%1 = 0, 0//x = 0, 0%x = 0, x<<0 = x, x>>0 = x, 0<<x = 0, 0>>x = 0.
Whatever combination of these shortcuts and splices a method uses, and however
it is written (guard clauses, helpers, methods made by a factory), it passes;
anything else -- another node, swapped operands, a fold that is not an
identity ((b**m)**n -> b**(m*n), 0**x -> 0) -- does not.  An unsupported
operand must give NotImplemented.
"""
from __future__ import annotations

import ast

from . import AnalysisError
from .absint import (Closure, Interp, Obj, Opaque, Raised, StepBound,
                     module_env)
from .model import ClassInfo

PRIM = "pymbolic.primitives"


def _var(name):
    return Obj("Variable", {"name": name})


def _node(cls, *children):
    return Obj(cls, {"children": tuple(children)})


def _num(v):
    return isinstance(v, (int, float, complex)) or isinstance(v, bool)


def nf(v):
    """value normal form (see the module docstring)"""
    if _num(v):
        return ("num", complex(v) if isinstance(v, complex) else
                (int(v) if float(v).is_integer() else float(v)))
    if not isinstance(v, Obj):
        return ("other", repr(v))
    c, f = v.cls, v.fields
    if c == "Variable":
        return ("var", f["name"])
    if c in ("Sum", "Product", "BitwiseOr", "BitwiseXor", "BitwiseAnd"):
        items = []
        for ch in f["children"]:
            x = nf(ch)
            if x[0] == c:
                items += list(x[1])
            else:
                items.append(x)
        if c == "Sum":
            items = [x for x in items if x != ("num", 0)]
            if not items:
                return ("num", 0)
        if c == "Product":
            if any(x == ("num", 0) for x in items):
                return ("num", 0)
            items = [x for x in items if x != ("num", 1)]
            # (-1)*(-1) = 1, exactly, wherever the two factors stand
            while sum(1 for x in items if x == ("num", -1)) >= 2:
                items.remove(("num", -1))
                items.remove(("num", -1))
            if not items:
                return ("num", 1)
        if len(items) == 1:
            return items[0]
        return (c, tuple(items))
    if c == "Power":
        b, e = nf(f["base"]), nf(f["exponent"])
        if b[0] == "Power" and b[2][0] == "num" and e[0] == "num" and \
                isinstance(b[2][1], int) and isinstance(e[1], int):
            # (x**m)**n = x**(m*n) for integers m, n
            b, e = b[1], ("num", b[2][1] * e[1])
        if e == ("num", 0):
            return ("num", 1)
        if e == ("num", 1):
            return b
        if b == ("num", 1):
            return ("num", 1)
        return ("Power", b, e)
    if c in ("Quotient", "FloorDiv", "Remainder", "Rational"):
        n_ = nf(f.get("numerator", f.get("Numerator")))
        d_ = nf(f.get("denominator", f.get("Denominator")))
        if n_ == ("num", 0):
            return ("num", 0)
        if d_ == ("num", 1):
            return ("num", 0) if c == "Remainder" else n_
        return ("Quotient" if c == "Rational" else c, n_, d_)
    if c in ("LeftShift", "RightShift"):
        a, b = nf(f["shiftee"]), nf(f["shift"])
        if b == ("num", 0):
            return a
        if a == ("num", 0):
            return ("num", 0)
        return (c, a, b)
    return (c,) + tuple((k, nf(x) if isinstance(x, Obj) or _num(x) else repr(x))
                        for k, x in sorted(f.items()))


def _neg(v):
    if _num(v):
        return -v
    return _node("Product", -1, v)


def _reference(node, order, S, O):
    vals = []
    for x in order:
        vals.append({"S": S, "O": O, "-S": _neg(S), "-O": _neg(O)}[x])
    if node in ("Sum", "Product", "BitwiseOr", "BitwiseXor", "BitwiseAnd"):
        return _node(node, *vals)
    if node == "quotient":
        return Obj("Quotient", {"numerator": vals[0], "denominator": vals[1]})
    if node in ("FloorDiv", "Remainder"):
        return Obj(node, {"numerator": vals[0], "denominator": vals[1]})
    if node == "Power":
        return Obj("Power", {"base": vals[0], "exponent": vals[1]})
    if node in ("LeftShift", "RightShift"):
        return Obj(node, {"shiftee": vals[0], "shift": vals[1]})
    raise AnalysisError(f"operator judge: node {node}")


def _no_traits(it, nd, a, k):
    # one operand is always an expression node here: nodes have no traits
    raise Raised(nd, "NoTraitsError")


class World:
    def __init__(self, model):
        self.model = model
        self.m = model.repo.module(PRIM)
        self.nodes = {x.name: x for x in model.nodes.all()}
        glob = module_env(self.m.tree, {})
        glob["VALID_CONSTANT_CLASSES"] = (Opaque("class int"),
                                          Opaque("class float"),
                                          Opaque("class complex"))
        glob["_BOOL_CLASSES"] = (Opaque("class bool"),)
        glob["VALID_OPERANDS"] = (Opaque("class Expression"),)
        glob["NotImplemented"] = NotImplemented
        self.glob = glob

    def isinstance_(self, it, node, a, k):
        v, c = a
        cs = list(c) if isinstance(c, (tuple, list)) else [c]
        flat = []
        for x in cs:
            flat += list(x) if isinstance(x, (tuple, list)) else [x]
        for x in flat:
            what = getattr(x, "what", None)
            if what is None:
                raise AnalysisError(f"isinstance(..., {x!r})")
            nm = what.replace(".", " ").split(" ")[-1]
            if nm in ("int", "float", "complex", "bool", "str", "tuple", "list"):
                t = {"int": int, "float": float, "complex": complex,
                     "bool": bool, "str": str, "tuple": tuple,
                     "list": list}[nm]
                if not isinstance(v, Obj) and isinstance(v, t):
                    return True
                continue
            if nm == "Expression":
                if isinstance(v, Obj):
                    return True
                continue
            if nm in self.nodes or nm in ("QuotientBase", "AlgebraicLeaf",
                                          "Leaf"):
                if isinstance(v, Obj) and v.cls in self.nodes:
                    k_ = self.nodes[v.cls].cls
                    if any(isinstance(b, ClassInfo) and b.name == nm
                           for b in self.model.mro(k_)):
                        return True
                continue
            if nm in ("number", "bool_", "ndarray", "generic", "integer",
                      "floating", "Rational", "MultiVector"):
                continue
            raise AnalysisError(f"isinstance(..., {what})")
        return False

    def resolve(self, cls, nm):
        n = self.nodes.get(cls)
        if n is None:
            return None
        for k in self.model.mro(n.cls):
            if isinstance(k, ClassInfo) and nm in k.members:
                mem = k.members[nm]
                if mem.kind == "func":
                    if "property" in mem.decorators:
                        return ("prop", mem.node)
                    return ("func", mem.node)
                return None
        return None

    def build(self, cls):
        n = self.nodes[cls]
        names = list(n.field_names)

        def f(it, node, a, k):
            if len(a) + len(k) != len(names):
                raise Raised(node, "TypeError")
            d = dict(zip(names, a))
            d.update(k)
            return Obj(cls, d)
        return f

    def interp(self, owner=None):
        calls = {"isinstance": self.isinstance_,
                 "type": lambda it, nd, a, k: Opaque(
                     "class " + (a[0].cls if isinstance(a[0], Obj)
                                 else type(a[0]).__name__)),
                 "intern": lambda it, nd, a, k: a[0],
                 "traits.common_traits": _no_traits,
                 "globals": lambda it, nd, a, k: self.glob,
                 "cast": lambda it, nd, a, k: a[1],
                 "typing.cast": lambda it, nd, a, k: a[1]}
        for nm in self.nodes:
            if not self.nodes[nm].legacy:
                calls[nm] = self.build(nm)
                calls[f"primitives.{nm}"] = calls[nm]
        # the inherited operator, reached explicitly from an override
        E = self.model.cls(f"{PRIM}:Expression")
        for nm, mem in E.members.items():
            if mem.kind == "func" and nm.startswith("__"):
                calls[f"Expression.{nm}"] = (
                    lambda it, nd, a, k, fn_=mem.node: it.call_function(
                        fn_, list(a), dict(self.glob, __kwargs__=dict(k))))
        if owner is not None:
            for k_ in self.model.mro(owner)[1:]:
                if not isinstance(k_, ClassInfo):
                    continue
                for nm, mem in k_.members.items():
                    key = f"super().{nm}"
                    if mem.kind == "func" and key not in calls:
                        calls[key] = (
                            lambda it, nd, a, k, fn_=mem.node: it.call_function(
                                fn_, [(getattr(it, "_self_stack", None) or
                                       [it._self])[-1]] + list(a),
                                dict(self.glob, __kwargs__=dict(k))))
        return Interp(calls=calls,
                      attrs=lambda it, nd, b, at: Opaque(ast.unparse(nd)),
                      resolve=self.resolve, globals_=self.glob,
                      max_steps=60000)

    def method(self, cls: ClassInfo, name):
        """the function value behind cls.<name>: a def, or what a class-body
        expression (a factory call, an alias) evaluates to"""
        for k in self.model.mro(cls):
            if not isinstance(k, ClassInfo) or name not in k.members:
                continue
            mem = k.members[name]
            if mem.kind == "func":
                return Closure(mem.node, self.glob), k
            v = mem.node.value if mem.kind == "ann" else mem.node
            if isinstance(v, ast.Name) and v.id in k.members and \
                    k.members[v.id].kind == "func":
                return Closure(k.members[v.id].node, self.glob), k
            if isinstance(v, ast.expr):
                it = self.interp()
                env = dict(self.glob)
                # names of the class body defined before
                for nm2, m2 in k.members.items():
                    if m2.kind == "func":
                        env.setdefault(nm2, Closure(m2.node, self.glob))
                val = it.eval(v, env)
                if isinstance(val, Closure):
                    return val, k
                raise AnalysisError(f"{k.name}.{name} is bound to {val!r}")
            raise AnalysisError(f"{k.name}.{name}: not a function")
        return None, None


def judge_operator(model, cls, name, node, order, world=None, reflected=None):
    """-> (witnesses, n_cases)"""
    w = world or World(model)
    f, owner = w.method(cls, name)
    if f is None:
        return [f"{cls.name}.{name} is missing"], 0
    if reflected is None:
        reflected = name.startswith("__r") and name not in (
            "__rshift__",)
    a, b, c, d = _var("a"), _var("b"), _var("c"), _var("d")
    if cls.name == "Expression":
        selves = [_var("s")]
        overrides = {"Sum": model.cls(f"{PRIM}:Sum"),
                     "Product": model.cls(f"{PRIM}:Product")}
        for kn, kc in overrides.items():
            if name not in kc.members:
                selves.append(_node(kn, a, b))
        # instances of node classes that inherit the method: what they are
        # made of may not be folded into the result ((a**2)**0.5 is |a|)
        pw = model.cls(f"{PRIM}:Power")
        if name not in pw.members:
            selves.append(Obj("Power", {"base": a, "exponent": 2}))
        qt = model.cls(f"{PRIM}:Quotient")
        if name not in qt.members:
            selves.append(Obj("Quotient", {"numerator": a, "denominator": b}))
    elif cls.name in ("Sum", "Product"):
        # (a nested node of the same class among the operands: splicing must
        # keep the operands in the order they were written)
        selves = [_node(cls.name, a, b),
                  _node(cls.name, a, _node(cls.name, b, _var("b2")))]
    else:
        # an override in another node class: an instance with variables for
        # children (a power gets the exponent 2: (a**2)**0.5 is |a|, not a)
        nd = w.nodes[cls.name]
        from .rules import child_kinds
        kinds = child_kinds(nd)
        flds = {}
        for i, fname in enumerate(nd.field_names):
            k = kinds.get(fname)
            flds[fname] = (_var(f"c{i}") if k == "child" else
                           (_var(f"c{i}a"), _var(f"c{i}b")) if k == "child-tuple"
                           else f"<data {fname}>")
        if cls.name == "Power":
            flds["exponent"] = 2
        selves = [Obj(cls.name, flds)]
    others = [_var("o"), _node("Sum", c, d), _node("Product", c, d),
              0, 1, 2, -1, 0.0, 1.0, 0.5, True]
    wit = []
    n = 0
    for S in selves:
        for O in others + ["<unsupported>"]:
            n += 1
            it = w.interp(owner)
            it._self = S
            label = f"{cls.name}.{name}({nf(S)}, {nf(O) if O != '<unsupported>' else 'an unsupported object'})"
            try:
                res = it.apply(f, [S, O])
            except Raised as r:
                if O == "<unsupported>" or (reflected and isinstance(O, Obj)):
                    continue        # refused by raising: nothing was built
                wit.append(f"{label}: raises at line "
                           f"{getattr(r.node, 'lineno', '?')}")
                continue
            except StepBound:
                wit.append(f"{label}: does not terminate")
                continue
            if O == "<unsupported>":
                if res is not NotImplemented:
                    wit.append(f"{label}: returns {res!r} instead of "
                               "NotImplemented")
                continue
            if res is NotImplemented:
                if reflected and isinstance(O, Obj):
                    # Python asks the left operand's own method first; a
                    # reflected method may leave expressions to it
                    continue
                wit.append(f"{label}: refuses a supported operand")
                continue
            want = nf(_reference(node, order, S, O))
            got = nf(res)
            if got != want:
                wit.append(f"{label}: builds {got}, the operator means {want}")
    return wit, n


def judge_negation_helper(model, module, fn, world=None):
    """A module-level helper `h(e)` that stands where the parser (or another
    builder) wrote `-e`: interpreted on a variable, sums, products -- among
    them products that start with the factor -1 and have one, two and three
    further factors --, and numbers.  -> (is_negation, witnesses): whether
    some operand comes back negated at all (the helper is meant as negation),
    and the operands for which what comes back is not `-e` in value normal
    form."""
    w = world or World(model)
    a, b, c = _var("a"), _var("b"), _var("c")
    operands = [a, _node("Sum", a, b), _node("Product", a, b),
                _node("Product", -1, a), _node("Product", -1, a, b),
                _node("Product", -1, a, b, c), _node("Product", 2, a),
                _node("Product", a, -1), 2, -1, 0.5, 0]
    glob = module_env(module.tree, dict(w.glob))
    wit, hits = [], 0
    for e in operands:
        it = w.interp()
        it.globals = dict(glob)
        try:
            res = it.call_function(fn, [e], dict(glob))
        except Raised as r:
            wit.append(f"{fn.name}({nf(e)}) raises at line "
                       f"{getattr(r.node, 'lineno', '?')}")
            continue
        want = nf(_neg(e))
        if nf(res) == want:
            hits += 1
        else:
            wit.append(f"{fn.name}({_show(e)}) gives {_show(res)}, and "
                       f"-({_show(e)}) is {_show(_neg(e))}")
    return hits > 0, wit


def _show(v):
    if _num(v):
        return repr(v)
    if isinstance(v, Obj):
        if v.cls == "Variable":
            return v.fields["name"]
        if v.cls in ("Sum", "Product"):
            op = " + " if v.cls == "Sum" else "*"
            return "(" + op.join(_show(x) for x in v.fields["children"]) + ")"
    return repr(v)
