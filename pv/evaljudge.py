"""Interpretive judge for the evaluator's handlers (C02).

A handler `map_<node>(self, expr)` of the evaluation mapper is interpreted
(pv/absint.py) on an abstract node whose children are opaque tokens; `self.rec`
answers each child with a *term leaf* -- a value that records every Python
operator applied to it -- and notes the order in which children were asked
for.  What the handler returns is compared, in a normal form, with the Python
construct the node denotes (table DENOT of pv/oracles.py):

* binary / unary operators: exactly that operator on the children's values,
  left operand first;
* n-ary +, *, |, ^, &: the children's values joined by that operator in the
  order of the children (nesting and a neutral start value do not matter),
  for 0..3 (bitwise: 1..3) children, every child evaluated once;
* min / max: that function over the children's values in order;
* or / and / not / conditional: for every assignment of truth values to the
  children, the very value Python's construct yields, and only the children
  Python would have evaluated, in order;
* calls: the function's value applied to the arguments' values in order and
  the keyword arguments' values under their names.

However the handler is written -- generator or loop, reduce or fold, helper
methods, handlers made by a factory in the class body -- it passes iff it
computes that.  Nothing of the repository is executed.
"""
from __future__ import annotations

import ast
import itertools

from . import AnalysisError
from .absint import (Closure, Interp, Obj, Opaque, Raised, StepBound,
                     module_env)
from .model import ClassInfo

_OPS = {ast.Add: "+", ast.Sub: "-", ast.Mult: "*", ast.Div: "/",
        ast.FloorDiv: "//", ast.Mod: "%", ast.Pow: "**", ast.LShift: "<<",
        ast.RShift: ">>", ast.BitOr: "|", ast.BitXor: "^", ast.BitAnd: "&",
        ast.MatMult: "@"}
_NEUTRAL = {"+": 0, "*": 1}
_OPERATOR_MODULE = {
    "add": "+", "sub": "-", "mul": "*", "truediv": "/", "floordiv": "//",
    "mod": "%", "pow": "**", "lshift": "<<", "rshift": ">>", "or_": "|",
    "xor": "^", "and_": "&", "__or__": "|", "__xor__": "^", "__and__": "&",
    "__add__": "+", "__mul__": "*", "ior": "|", "ixor": "^", "iand": "&",
    "iadd": "+", "imul": "*",
    "eq": "==", "ne": "!=", "lt": "<", "le": "<=", "gt": ">", "ge": ">=",
}
_CMP = ("==", "!=", "<", "<=", ">", ">=")


class Tm:
    """a term: an operator applied to terms / numbers, or a leaf"""

    def __init__(self, op, *args, truth=None):
        self.op, self.args, self.truth = op, args, truth

    def __repr__(self):
        if self.op == "leaf":
            return self.args[0]
        if self.op == "call":
            return f"{self.args[0]!r}(...)"
        return f"{self.op}({', '.join(map(repr, self.args))})"

    def __call__(self, /, *a, **k):
        return Tm("call", self, tuple(a), tuple(sorted(k.items())))


def nf(v):
    """normal form: n-ary flattening of + * | ^ & min max, neutral start
    values dropped; everything else structural"""
    if not isinstance(v, Tm):
        return ("const", repr(v), type(v).__name__)
    if v.op == "leaf":
        return ("leaf", v.args[0])
    if v.op == "call":
        return ("call", nf(v.args[0]), tuple(nf(x) for x in v.args[1]),
                tuple((k, nf(x)) for k, x in v.args[2]))
    if v.op in ("+", "*", "|", "^", "&", "min", "max"):
        items = []
        for a in v.args:
            x = nf(a)
            if x[0] == v.op:
                items += list(x[1])
            elif v.op in _NEUTRAL and x == nf(_NEUTRAL[v.op]):
                continue
            else:
                items.append(x)
        if not items and v.op in _NEUTRAL:
            return nf(_NEUTRAL[v.op])
        if len(items) == 1:
            return items[0]
        return (v.op, tuple(items))
    return (v.op,) + tuple(nf(a) for a in v.args)


def _apply(sym, a, b):
    """the operator on two values: a term if either is one, Python's own
    result for two plain numbers"""
    if isinstance(a, Tm) or isinstance(b, Tm):
        return Tm(sym, a, b)
    import operator as _o
    if sym in _CMP and isinstance(a, (int, float)) and isinstance(
            b, (int, float)):
        return {"==": _o.eq, "!=": _o.ne, "<": _o.lt, "<=": _o.le,
                ">": _o.gt, ">=": _o.ge}[sym](a, b)
    num = (int, float, complex)
    if isinstance(a, num) and isinstance(b, num):
        f = {"+": _o.add, "-": _o.sub, "*": _o.mul, "/": _o.truediv,
             "//": _o.floordiv, "%": _o.mod, "**": _o.pow, "<<": _o.lshift,
             ">>": _o.rshift, "|": _o.or_, "^": _o.xor, "&": _o.and_}[sym]
        try:
            return f(a, b)
        except (ZeroDivisionError, TypeError, ValueError, OverflowError):
            raise Raised(None, "ArithmeticError")
    raise AnalysisError(f"operator {sym} on {a!r}, {b!r}")


class _EvalInterp(Interp):
    def _binop(self, node, op, a, b):
        num = (int, float, complex)
        if isinstance(a, Tm) or isinstance(b, Tm) or (
                isinstance(a, num) and isinstance(b, num)):
            sym = _OPS.get(type(op))
            if sym is None:
                raise AnalysisError(f"operator {type(op).__name__}")
            return _apply(sym, a, b)
        return Interp._binop(self, node, op, a, b)

    def eval(self, e, env):
        if isinstance(e, ast.Subscript) and isinstance(e.ctx, ast.Load):
            base = self.eval(e.value, env)
            if isinstance(base, Tm):
                return Tm("[]", base, self.eval(e.slice, env))
            # (evaluated once more below: operands here are pure)
        if isinstance(e, ast.UnaryOp) and not isinstance(e.op, ast.Not):
            v = self.eval(e.operand, env)
            if isinstance(v, Tm):
                return Tm({ast.Invert: "~", ast.USub: "neg",
                           ast.UAdd: "pos"}[type(e.op)], v)
            if isinstance(e.op, ast.Invert) and isinstance(v, int):
                return ~v
            # (fall through with the operand evaluated once more is harmless
            # only for pure operands; constants and names are)
            if isinstance(e.operand, (ast.Constant, ast.Name)):
                return Interp.eval(self, e, env)
            raise AnalysisError(f"unary {type(e.op).__name__} on {v!r}")
        return Interp.eval(self, e, env)

    def truth(self, node, v):
        if isinstance(v, Tm):
            if v.truth is None:
                raise AnalysisError("branch on a computed value: "
                                    + ast.unparse(node))
            return v.truth
        return Interp.truth(self, node, v)

    def compare(self, node, op, a, b):
        if isinstance(a, Tm) or isinstance(b, Tm):
            if isinstance(op, (ast.Is, ast.IsNot)):
                return (a is b) == isinstance(op, ast.Is)
            raise AnalysisError("comparison of computed values: "
                                + ast.unparse(node))
        return Interp.compare(self, node, op, a, b)


def _isinstance_tm(it, nd, a, k):
    """a computed value is no expression node, and of no class the handler
    could name"""
    if isinstance(a[0], Tm):
        return False
    from .absint import default_isinstance
    r = default_isinstance(a[0], a[1])
    if r is None:
        raise AnalysisError(f"isinstance(..., {a[1]!r})")
    return r


def _fold(sym, items, start=None):
    items = list(items)
    if start is None:
        if not items:
            raise Raised(None, "TypeError")
        acc, rest = items[0], items[1:]
    else:
        acc, rest = start, items
    for x in rest:
        acc = _apply(sym, acc, x)
    return acc


def eval_module_env(tree):
    """module_env plus the module-level tables that are built from the
    operator module (dict(zip(symbols, (op.eq, ...))))"""
    glob = module_env(tree, {})
    for nm in ("op", "operator"):
        glob[nm] = Opaque("module operator")
    for st in tree.body:
        if isinstance(st, ast.Assign) and len(st.targets) == 1 and isinstance(
                st.targets[0], ast.Name) and st.targets[0].id not in glob:
            try:
                glob[st.targets[0].id] = _EvalInterp(
                    globals_=glob, attrs=_module_attrs,
                    max_steps=3000).eval(st.value, dict(glob))
            except (AnalysisError, Raised, StepBound):
                pass
    return glob


def handler_value(model, cls: ClassInfo, name, glob):
    """the function behind cls.<name>: a def, an alias of one, or what a
    class-body expression (a factory call) evaluates to.  -> Closure | None"""
    for k in model.mro(cls):
        if not isinstance(k, ClassInfo) or name not in k.members:
            continue
        mem = k.members[name]
        if mem.kind == "func":
            return Closure(mem.node, glob), k, mem
        v = mem.node.value if mem.kind == "ann" else mem.node
        if isinstance(v, ast.Name) and v.id in k.members and \
                k.members[v.id].kind == "func":
            return Closure(k.members[v.id].node, glob), k, mem
        if isinstance(v, ast.expr):
            env = dict(glob)
            for nm2, m2 in k.members.items():
                if m2.kind == "func":
                    env.setdefault(nm2, Closure(m2.node, glob))
            it = _EvalInterp(globals_=glob, attrs=_module_attrs, max_steps=5000)
            val = it.eval(v, env)
            if isinstance(val, Closure):
                return val, k, mem
            raise AnalysisError(f"{k.name}.{name} is bound to {val!r}")
        raise AnalysisError(f"{k.name}.{name}: not a function")
    return None, None, None


def _module_attrs(it, node, base, attr):
    if isinstance(base, Tm):
        return Tm(".", base, attr)
    if isinstance(base, Opaque) and "operator" in base.what and \
            attr in _OPERATOR_MODULE:
        sym = _OPERATOR_MODULE[attr]
        return lambda a, b: _apply(sym, a, b)
    if isinstance(base, Opaque) and "operator" in base.what and \
            attr in ("invert", "inv", "__invert__", "neg", "pos"):
        sym = {"neg": "neg", "pos": "pos"}.get(attr, "~")

        def un(a, sym=sym):
            if isinstance(a, Tm):
                return Tm(sym, a)
            if isinstance(a, (int, float)):
                return {"~": lambda v: ~v, "neg": lambda v: -v,
                        "pos": lambda v: +v}[sym](a)
            raise AnalysisError(f"operator.{attr} on {a!r}")
        return un
    if isinstance(base, Opaque) and "operator" in base.what and \
            attr in ("not_", "truth"):
        def tr(a, neg=(attr == "not_")):
            if isinstance(a, Tm):
                if a.truth is None:
                    raise AnalysisError("truth of a computed value")
                return (not a.truth) if neg else a.truth
            return (not a) if neg else bool(a)
        return tr
    return Opaque(ast.unparse(node))


class Case:
    def __init__(self, label, fields, order, want, evaluated):
        self.label, self.fields, self.order = label, fields, order
        self.want, self.evaluated = want, evaluated


def _leaf(name, truth=None):
    return Tm("leaf", name, truth=truth)


class Child:
    def __init__(self, name, truth=None, value=None):
        self.name = name
        self.value = _leaf(f"v[{name}]", truth) if value is None else value

    def __repr__(self):
        return f"<child {self.name}>"


def cases_for(kind, sym, fields, kw_names=()):
    """-> [Case]"""
    out = []
    import operator as _o
    pyop = {"+": _o.add, "*": _o.mul, "/": _o.truediv, "//": _o.floordiv,
            "%": _o.mod, "**": _o.pow, "<<": _o.lshift, ">>": _o.rshift,
            "|": _o.or_, "^": _o.xor, "&": _o.and_, "min": min, "max": max}
    if kind == "binary":
        a, b = Child(fields[0]), Child(fields[1])
        out.append(Case("", {fields[0]: a, fields[1]: b}, [a, b],
                        Tm(sym, a.value, b.value), [a, b]))
        # operands that are numbers of different types: a handler that treats
        # one type specially (a bool, a float) does not compute the operator
        for va, vb in ((True, 3), (3, True), (7, 2)):
            a, b = Child(fields[0], value=va), Child(fields[1], value=vb)
            out.append(Case(f"operands {va!r}, {vb!r}",
                            {fields[0]: a, fields[1]: b}, [a, b],
                            pyop[sym](va, vb), [a, b]))
    elif kind == "unary" and sym == "~":
        a = Child(fields[0])
        out.append(Case("", {fields[0]: a}, [a], Tm("~", a.value), [a]))
        for va in (True, False, 5):
            a = Child(fields[0], value=va)
            out.append(Case(f"operand {va!r}", {fields[0]: a}, [a],
                            -va - 1, [a]))
    elif kind == "unary" and sym == "not":
        for t in (True, False):
            a = Child(fields[0], t)
            out.append(Case(f"operand {'true' if t else 'false'}",
                            {fields[0]: a}, [a], not t, [a]))
    elif kind in ("nary", "nary-call"):
        lo = 0 if sym in _NEUTRAL else 1
        for n in range(lo, 4):
            kids = [Child(f"{fields}[{i}]") for i in range(n)]
            if n == 0:
                want = _NEUTRAL[sym]
            else:
                want = Tm(sym, *[k.value for k in kids])
            out.append(Case(f"{n} operands", {fields: tuple(kids)}, kids, want,
                            kids))
        for vals in ((True, 3), (3, True, 2), (False, True)):
            kids = [Child(f"{fields}[{i}]", value=v) for i, v in enumerate(vals)]
            want = vals[0]
            for v in vals[1:]:
                want = pyop[sym](want, v)
            out.append(Case(f"operands {list(vals)!r}", {fields: tuple(kids)},
                            kids, want, kids))
    elif kind == "nary-lazy":
        for n in range(0, 4):
            for truths in itertools.product((True, False), repeat=n):
                kids = [Child(f"{fields}[{i}]", t) for i, t in enumerate(truths)]
                if n == 0:
                    want, ev = (sym == "and"), []
                else:
                    stop = next((i for i, t in enumerate(truths)
                                 if t == (sym == "or")), n - 1)
                    want, ev = kids[stop].value, kids[:stop + 1]
                out.append(Case(f"operands {list(truths)}",
                                {fields: tuple(kids)}, kids, want, ev))
    elif kind == "ifexp":
        for t in (True, False):
            c, th, el = Child(fields[0], t), Child(fields[1]), Child(fields[2])
            out.append(Case(f"condition {'true' if t else 'false'}",
                            {fields[0]: c, fields[1]: th, fields[2]: el},
                            [c, th, el], (th if t else el).value,
                            [c, th if t else el]))
    elif kind == "getitem":
        a, b = Child(fields[0]), Child(fields[1])
        out.append(Case("", {fields[0]: a, fields[1]: b}, [a, b],
                        Tm("[]", a.value, b.value), [a, b]))
    elif kind == "getattr":
        a = Child(fields[0])
        out.append(Case("", {fields[0]: a, fields[1]: "attr_name"}, [a],
                        Tm(".", a.value, "attr_name"), [a]))
    elif kind == "compare":
        for o_ in _CMP:
            a, b = Child(fields[0]), Child(fields[1])
            out.append(Case(f"operator {o_}", {fields[0]: a, fields[1]: b,
                                               "operator": o_}, [a, b],
                            Tm(o_, a.value, b.value), [a, b]))
    elif kind == "call":
        f, p1, p2 = Child("function"), Child("parameters[0]"), \
            Child("parameters[1]")
        flds = {"function": f, "parameters": (p1, p2)}
        kw = ()
        ev = [f, p1, p2]
        if "kw_parameters" in fields:
            k1, k2 = Child("kw_parameters[b]"), Child("kw_parameters[a]")
            flds["kw_parameters"] = {"b": k1, "a": k2}
            kw = (("a", k2.value), ("b", k1.value))
            ev += [k1, k2]
        out.append(Case("", flds, ev, Tm("call", f.value,
                                         (p1.value, p2.value), kw), ev))
        # keyword arguments named like parameters of the evaluator's own
        # methods: they are the called function's business, not the mapper's
        if "kw_parameters" in fields and kw_names:
            f2, q1 = Child("function"), Child("parameters[0]")
            kws = {nm: Child(f"kw_parameters[{nm}]") for nm in kw_names}
            out.append(Case(
                f"keywords named {sorted(kw_names)}",
                {"function": f2, "parameters": (q1,), "kw_parameters": kws},
                [f2, q1] + list(kws.values()),
                Tm("call", f2.value, (q1.value,),
                   tuple(sorted((k_, c_.value) for k_, c_ in kws.items()))),
                [f2, q1] + list(kws.values())))
    else:
        raise AnalysisError(f"evaluator judge: kind {kind}")
    return out


def judge(model, ev: ClassInfo, node_name, handler_name, kind, sym, fields,
          cases=None):
    """-> (witnesses, n_cases, where) ; AnalysisError if not interpretable"""
    glob = eval_module_env(ev.module.tree)
    f, owner, mem = handler_value(model, ev, handler_name, glob)
    if f is None:
        raise AnalysisError(f"no handler {handler_name}")
    order_matters = kind in ("binary", "nary", "nary-call", "nary-lazy",
                             "ifexp", "compare")
    extra_fields = {}
    if kind == "compare":
        extra_fields = _class_tables(model, node_name)

    def resolve(cls, nm):
        if cls == "__evaluator__" and nm not in ("rec", "__call__",
                                                 "rec_fallback"):
            m_ = model.lookup(ev, nm)
            if m_ is not None and m_.kind == "func":
                return ("func", m_.node)
        return None
    wit = []
    if cases is None:
        kw_names = set()
        if kind == "call":
            for k_ in model.mro(ev):
                if isinstance(k_, ClassInfo) and k_.module is ev.module:
                    for m_ in k_.members.values():
                        if m_.kind == "func":
                            kw_names |= {a_.arg for a_ in m_.node.args.args
                                         + m_.node.args.kwonlyargs}
            kw_names = set(sorted(kw_names)[:12])
        cases = cases_for(kind, sym, fields, kw_names)
    for c in cases:
        asked = []

        def rec(*a, _asked=asked, **k):
            if not a or not isinstance(a[0], Child) or len(a) > 1 or k:
                raise AnalysisError("rec of something that is not a child "
                                    "(or with extra arguments)")
            _asked.append(a[0])
            return a[0].value

        def hook(it, nd, a, k):
            return rec(*a, **k)

        def sum_(it, nd, a, k):
            return _fold("+", list(a[0]), a[1] if len(a) > 1 else
                         k.get("start", 0))

        def prod_(it, nd, a, k):
            return _fold("*", list(a[0]), a[1] if len(a) > 1 else
                         k.get("start", 1))

        def reduce_(it, nd, a, k):
            fn_ = a[0]
            items = list(a[1])
            acc_given = len(a) > 2
            if not items and not acc_given:
                raise Raised(nd, "TypeError")
            acc = a[2] if acc_given else items[0]
            for x in (items if acc_given else items[1:]):
                acc = it.apply(fn_, [acc, x]) if isinstance(
                    fn_, Closure) else fn_(acc, x)
            return acc

        def minmax(which):
            def f_(it, nd, a, k):
                if k:
                    raise AnalysisError(f"{which}(..., key=/default=)")
                items = list(a[0]) if len(a) == 1 else list(a)
                if not items:
                    raise Raised(nd, "ValueError")
                if not any(isinstance(x, Tm) for x in items):
                    return (max if which == "max" else min)(items)
                return items[0] if len(items) == 1 else Tm(which, *items)
            return f_
        # the same functions as values (handed to a helper: pick = min)
        glob_c = dict(glob)
        for nm_, hk_ in (("min", minmax("min")), ("max", minmax("max")),
                         ("sum", sum_)):
            glob_c[nm_] = (lambda *a_, _h=hk_, **k_: _h(None, None, list(a_),
                                                        k_))
        me = Obj("__evaluator__", {"rec": rec, "context": {},
                                   "common_subexp_cache": {}})
        it = _EvalInterp(calls={
            "self.rec": hook, "self": hook, "sum": sum_, "product": prod_,
            "pytools.product": prod_, "math.prod": prod_, "prod": prod_,
            "reduce": reduce_, "functools.reduce": reduce_,
            "max": minmax("max"), "min": minmax("min"),
            "bool": lambda it_, nd, a, k: it_.truth(nd, a[0]),
            "isinstance": _isinstance_tm},
            attrs=_module_attrs, resolve=resolve, globals_=glob_c,
            max_steps=20000)
        # handlers made in the class body, as bound values of the mapper
        for k_ in model.mro(ev):
            if not isinstance(k_, ClassInfo):
                continue
            for nm_, m_ in k_.members.items():
                if m_.kind != "func" and nm_.startswith("map_") and \
                        nm_ not in me.fields:
                    try:
                        cl_, _o, _m = handler_value(model, k_, nm_, glob)
                    except AnalysisError:
                        continue
                    if cl_ is not None:
                        me.fields[nm_] = (
                            lambda *a_, _c=cl_, **k2: it.apply(
                                _c, [me] + list(a_), k2))
        expr = Obj(node_name, dict(extra_fields, **c.fields))
        label = f"{node_name}" + (f" ({c.label})" if c.label else "")
        try:
            got = it.apply(f, [me, expr])
        except Raised as r:
            wit.append(f"{label}: raises at line "
                       f"{getattr(r.node, 'lineno', '?')}")
            continue
        except StepBound:
            wit.append(f"{label}: does not terminate")
            continue
        if isinstance(c.want, Tm) and c.want.op == "leaf":
            ok = got is c.want
        elif isinstance(c.want, bool):
            ok = got is c.want
        elif not isinstance(c.want, Tm):
            ok = type(got) is type(c.want) and got == c.want
        else:
            ok = nf(got) == nf(c.want)
        if not ok:
            wit.append(f"{label}: gives {got!r}, {_py(kind, sym)} gives "
                       f"{c.want!r}")
            continue
        names = [x.name for x in asked]
        wantn = [x.name for x in c.evaluated]
        if sorted(names) != sorted(wantn):
            wit.append(f"{label}: evaluates {names}, {_py(kind, sym)} "
                       f"evaluates {wantn}")
        elif order_matters and names != wantn:
            wit.append(f"{label}: evaluates the operands in the order {names}")
    return wit, len(cases), (owner, mem)


def _class_tables(model, node_name):
    """class-level dict literals of the node class (operator_to_name, ...)"""
    out = {}
    n = model.nodes.get(node_name)
    for k in model.mro(n.cls):
        if not isinstance(k, ClassInfo):
            continue
        for nm, mem in k.members.items():
            v = mem.node.value if mem.kind == "ann" else mem.node
            if mem.kind != "func" and isinstance(v, ast.Dict) and nm not in out:
                try:
                    out[nm] = ast.literal_eval(v)
                except (ValueError, SyntaxError):
                    pass
    return out


def _py(kind, sym):
    return f"Python's '{sym}'" if sym else {
        "ifexp": "Python's conditional expression",
        "call": "the call"}.get(kind, "Python")


# ---------------------------------------------------------------------------
# the logical operators on concrete preset values (the older, narrower judge)

VALUES = [0, 2, "", "s", False, True]


def judge_logical(fn, sym, class_node, module_tree=None):
    """-> (witnesses, n_cases)"""
    helpers = {st.name: st for st in class_node.body
               if isinstance(st, ast.FunctionDef) and st.name.startswith("_")
               and not st.name.startswith("__")}
    wit = []
    n = 0
    for k in range(0, 4):
        for vals in itertools.product(VALUES, repeat=k):
            n += 1
            kids = [("child", i) for i in range(k)]
            log = []

            class Mp:
                pass
            mp = Mp()

            def rec(ch, *a, **kw):
                log.append(ch[1])
                return vals[ch[1]]

            def attrs(it, node, base, attr):
                if base is mp:
                    if attr == "rec":
                        return rec
                    if attr in helpers:
                        return lambda *a, **kw: it.call_function(
                            helpers[attr], [mp] + list(a),
                            {"__kwargs__": dict(kw)})
                    raise AnalysisError(f"mapper attribute {attr}")
                if base == "NODE" and attr == "children":
                    return tuple(kids)
                return Opaque(ast.unparse(node))
            it = Interp(calls={"bool": lambda it_, n_, a, k_: bool(a[0])},
                        attrs=attrs, max_steps=20000)
            # Python's own chain, with the same bookkeeping
            plog = []
            if sym == "or":
                want = False
                for i, v in enumerate(vals):
                    plog.append(i)
                    want = v
                    if v:
                        break
            else:
                want = True
                for i, v in enumerate(vals):
                    plog.append(i)
                    want = v
                    if not v:
                        break
            try:
                got = it.call_function(fn, [mp, "NODE"], {})
            except Raised as r:
                wit.append(f"operands {vals!r}: raises at line {r.node.lineno}")
                continue
            except StepBound:
                wit.append(f"operands {vals!r}: does not terminate")
                continue
            if hasattr(got, "__next__"):
                raise AnalysisError("handler returns a generator")
            same = type(got) is type(want) and got == want
            if not same or log != plog:
                chain = f" {sym} ".join(repr(v) for v in vals) or "(no operands)"
                wit.append(f"{chain}: evaluates operands {log}, result {got!r}; "
                           f"Python evaluates {plog}, result {want!r}")
    return wit, n


# ---------------------------------------------------------------------------
# object arrays

from .absint import Native  # noqa: E402


class _Arr(Native):
    """a 2 x 2 object array: entries by index tuple"""

    def __init__(self, shape, entries=None):
        self.shape = tuple(shape)
        self.entries = dict(entries or {})

    def indices(self):
        return list(itertools.product(*[range(k) for k in self.shape]))

    def __len__(self):
        return self.shape[0] if self.shape else 0

    def __getitem__(self, i):
        if isinstance(i, tuple) and len(i) == len(self.shape):
            return self.entries[i]
        raise AnalysisError("array indexed with other than a full index")

    def __setitem__(self, i, v):
        if isinstance(i, tuple) and len(i) == len(self.shape):
            self.entries[i] = v
        else:
            raise AnalysisError("array assigned with other than a full index")


def judge_array(model, ev: ClassInfo, handler_name="map_numpy_array"):
    """the array handler interpreted on a 2 x 2 object array with numpy's
    empty / empty_like / ndindex / ndenumerate modelled: the result has the
    operand's shape and holds, at every index, the value of the entry there;
    every entry is evaluated once.  -> witnesses"""
    glob = module_env(ev.module.tree, {})
    mem = model.lookup(ev, handler_name)
    if mem is None or mem.kind != "func":
        raise AnalysisError(f"{handler_name} not found")
    kids = {i: Child(f"entry{list(i)}") for i in
            itertools.product(range(2), range(2))}
    arr = _Arr((2, 2), kids)
    asked = []

    def rec(*a, **k):
        if len(a) != 1 or k or not isinstance(a[0], Child):
            raise AnalysisError("rec of something that is not an entry")
        asked.append(a[0])
        return a[0].value

    def np_attr(it, node, base, attr):
        if isinstance(base, Opaque) and "numpy" in base.what:
            if attr == "empty":
                return lambda shape, dtype=None: _Arr(shape)
            if attr == "empty_like":
                return lambda a, dtype=None: _Arr(a.shape)
            if attr == "ndindex":
                return lambda *shape: _Arr(
                    shape[0] if len(shape) == 1 and isinstance(
                        shape[0], tuple) else shape).indices()
            if attr == "ndenumerate":
                return lambda a: [(i, a.entries[i]) for i in a.indices()]
            raise AnalysisError(f"numpy.{attr} is not modelled")
        if isinstance(base, _Arr) and attr == "shape":
            return base.shape
        if isinstance(base, _Arr):
            raise AnalysisError(f"array attribute {attr} is not modelled")
        return Opaque(ast.unparse(node))
    for nm in ("numpy", "np"):
        glob[nm] = Opaque("module numpy")

    class _I(_EvalInterp):
        def stmt(self, st, env):
            if isinstance(st, ast.Import):
                for al in st.names:
                    if al.name == "numpy":
                        env[al.asname or "numpy"] = Opaque("module numpy")
                        return
            return _EvalInterp.stmt(self, st, env)
    me = Obj("__evaluator__", {"rec": rec})
    it = _I(calls={"self.rec": lambda it_, nd, a, k: rec(*a, **k)},
            attrs=np_attr, globals_=glob, max_steps=20000)
    try:
        got = it.call_function(mem.node, [me, arr], dict(glob))
    except Raised as r:
        return [f"raises at line {getattr(r.node, 'lineno', '?')}"]
    except StepBound:
        return ["does not terminate"]
    if not isinstance(got, _Arr) or got is arr or got.shape != arr.shape:
        return [f"returns {got!r}, not a new array of the operand's shape"]
    bad = [i for i in arr.indices()
           if got.entries.get(i) is not kids[i].value]
    if bad:
        return [f"entry {list(bad[0])} of the result is "
                f"{got.entries.get(bad[0])!r}, not the value of the entry there"]
    if sorted(x.name for x in asked) != sorted(k.name for k in kids.values()):
        return [f"evaluates {[x.name for x in asked]}: not every entry once"]
    return []


def judge_sequence(model, ev: ClassInfo, handler_name, ctor):
    """map_tuple / map_list interpreted on sequences of 0..3 entries: a new
    sequence of that type holding the entries' values in order, each entry
    evaluated once.  -> witnesses"""
    glob = eval_module_env(ev.module.tree)
    f, owner, mem = handler_value(model, ev, handler_name, glob)
    if f is None:
        raise AnalysisError(f"no handler {handler_name}")

    def resolve(cls, nm):
        if cls == "__evaluator__" and nm not in ("rec", "__call__"):
            m_ = model.lookup(ev, nm)
            if m_ is not None and m_.kind == "func":
                return ("func", m_.node)
        return None
    wit = []
    for n in range(0, 4):
        kids = [Child(f"[{i}]") for i in range(n)]
        asked = []

        def rec(*a, _asked=asked, **k):
            if len(a) != 1 or k or not isinstance(a[0], Child):
                raise AnalysisError("rec of something that is not an entry")
            _asked.append(a[0])
            return a[0].value
        me = Obj("__evaluator__", {"rec": rec})
        it = _EvalInterp(calls={"self.rec": lambda it_, nd, a, k: rec(*a, **k)},
                         attrs=_module_attrs, resolve=resolve, globals_=glob,
                         max_steps=10000)
        try:
            got = it.apply(f, [me, ctor(kids)])
        except Raised as r:
            wit.append(f"{n} entries: raises at line "
                       f"{getattr(r.node, 'lineno', '?')}")
            continue
        except StepBound:
            wit.append(f"{n} entries: does not terminate")
            continue
        if type(got) is not ctor or len(got) != n or any(
                g is not k.value for g, k in zip(got, kids)):
            wit.append(f"{n} entries: gives {got!r}, expected a {ctor.__name__} "
                       "of the entries' values in order")
        elif [x.name for x in asked] != [k.name for k in kids]:
            wit.append(f"{n} entries: evaluates {[x.name for x in asked]}")
    return wit
