"""Interpretive judges for EvaluationMapper handlers (C02) whose meaning is a
matter of *which operands are evaluated* as much as of the value: the logical
operators.  The handler is interpreted (pv/absint.py) on a node whose operands
evaluate to preset values; result and the sequence of evaluated operands are
compared with Python's own `or` / `and` chain."""
from __future__ import annotations

import ast
import itertools

from . import AnalysisError
from .absint import Interp, Opaque, Raised, StepBound

VALUES = [0, 2, "", "s", False, True]


def judge_logical(fn, sym, class_node, module_tree=None):
    """-> (witnesses, n_cases)"""
    helpers = {st.name: st for st in class_node.body
               if isinstance(st, ast.FunctionDef) and st.name.startswith("_")
               and not st.name.startswith("__")}
    wit = []
    n = 0
    for k in range(0, 4):
        for vals in itertools.product(VALUES, repeat=k):
            n += 1
            kids = [("child", i) for i in range(k)]
            log = []

            class Mp:
                pass
            mp = Mp()

            def rec(ch, *a, **kw):
                log.append(ch[1])
                return vals[ch[1]]

            def attrs(it, node, base, attr):
                if base is mp:
                    if attr == "rec":
                        return rec
                    if attr in helpers:
                        return lambda *a, **kw: it.call_function(
                            helpers[attr], [mp] + list(a),
                            {"__kwargs__": dict(kw)})
                    raise AnalysisError(f"mapper attribute {attr}")
                if base == "NODE" and attr == "children":
                    return tuple(kids)
                return Opaque(ast.unparse(node))
            it = Interp(calls={"bool": lambda it_, n_, a, k_: bool(a[0])},
                        attrs=attrs, max_steps=20000)
            # Python's own chain, with the same bookkeeping
            plog = []
            if sym == "or":
                want = False
                for i, v in enumerate(vals):
                    plog.append(i)
                    want = v
                    if v:
                        break
            else:
                want = True
                for i, v in enumerate(vals):
                    plog.append(i)
                    want = v
                    if not v:
                        break
            try:
                got = it.call_function(fn, [mp, "NODE"], {})
            except Raised as r:
                wit.append(f"operands {vals!r}: raises at line {r.node.lineno}")
                continue
            except StepBound:
                wit.append(f"operands {vals!r}: does not terminate")
                continue
            if hasattr(got, "__next__"):
                raise AnalysisError("handler returns a generator")
            same = type(got) is type(want) and got == want
            if not same or log != plog:
                chain = f" {sym} ".join(repr(v) for v in vals) or "(no operands)"
                wit.append(f"{chain}: evaluates operands {log}, result {got!r}; "
                           f"Python evaluates {plog}, result {want!r}")
    return wit, n
