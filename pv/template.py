"""Symbolic instantiation of the code template in
primitives._augment_expression_dataclass.

The three string holes (attr tuple, field-name tuple, comparison) are computed
from the statements that build them, with a symbolic field list
[FLD0, FLD1, ...]; the f-string template is then rendered with sentinels and
parsed, so that the *generated* functions can be analysed as ordinary code.
Nothing is executed: the interpretation covers only string literals, f-strings,
str.join over a generator on fields(cls), and if/else on emptiness.
"""
from __future__ import annotations

import ast
import textwrap
from dataclasses import dataclass, field

from . import AnalysisError

PRIM = "pymbolic.primitives"


@dataclass
class Instantiation:
    nfields: int
    fields: list
    holes: dict                 # name -> rendered string
    code: str
    module: ast.Module
    funcs: dict                 # generated function name -> FunctionDef
    assigns: dict               # "cls.__eq__" -> (value source, guarded_by)
    problems: list = field(default_factory=list)


class TemplateError(AnalysisError):
    pass


def _find_template(fn):
    """the JoinedStr passed to remove_common_indentation"""
    for n in ast.walk(fn):
        if isinstance(n, ast.Call) and ast.unparse(n.func).endswith(
                "remove_common_indentation") and n.args and isinstance(
                n.args[0], ast.JoinedStr):
            return n.args[0], n
    raise TemplateError("_augment_expression_dataclass: template f-string not "
                        "found")


class _Return(Exception):
    def __init__(self, value):
        self.value = value


class _StrInterp:
    """evaluates the hole-building statements for a symbolic field list.

    A small interpreter over the constructs such code is written with: string
    and list values, f-strings, ``sep.join(...)``, ``str.format`` / ``%``,
    concatenation, comprehensions and generators over ``fields(cls)``,
    if/else and conditional expressions on emptiness, and calls to private
    module-level helper functions (evaluated with their parameters bound)."""

    def __init__(self, fields, helpers=None):
        self.fields = fields
        self.env = {}
        self.problems = []
        self.helpers = helpers or {}
        self.depth = 0

    # -- expressions ---------------------------------------------------------
    def ev(self, e):
        if isinstance(e, ast.Constant) and isinstance(e.value, (str, int, bool)):
            return e.value
        if isinstance(e, ast.Name) and e.id in self.env:
            return self.env[e.id]
        if isinstance(e, ast.JoinedStr):
            out = ""
            for p in e.values:
                if isinstance(p, ast.Constant):
                    out += p.value
                else:
                    v = self.ev(p.value)
                    if p.conversion == 114:          # !r
                        v = repr(v)
                    out += str(v)
            return out
        if isinstance(e, (ast.GeneratorExp, ast.ListComp)):
            return self._comp(e)
        if isinstance(e, (ast.List, ast.Tuple)):
            return [self.ev(x) for x in e.elts]
        if isinstance(e, ast.Call) and isinstance(e.func, ast.Attribute):
            recv = e.func.value
            if e.func.attr == "join" and len(e.args) == 1:
                sep = self.ev(recv)
                items = self.ev(e.args[0])
                if isinstance(sep, str) and isinstance(items, list):
                    return sep.join(str(x) for x in items)
            if e.func.attr == "format" and not e.keywords:
                fmt = self.ev(recv)
                if isinstance(fmt, str):
                    return fmt.format(*[self.ev(a) for a in e.args])
        if isinstance(e, ast.Call) and isinstance(e.func, ast.Name):
            name = e.func.id
            if name == "fields" and len(e.args) == 1 and not e.keywords and \
                    isinstance(e.args[0], ast.Name) and e.args[0].id == "cls":
                return [("FIELD", f) for f in self.fields]
            if name in ("list", "tuple") and len(e.args) == 1:
                v = self.ev(e.args[0])
                if isinstance(v, list):
                    return list(v)
            if name == "len" and len(e.args) == 1:
                v = self.ev(e.args[0])
                if isinstance(v, (list, str)):
                    return len(v)
            if name in ("bool",) and len(e.args) == 1:
                return bool(self.ev(e.args[0]))
            if name in ("repr", "str") and len(e.args) == 1:
                v = self.ev(e.args[0])
                return repr(v) if name == "repr" else str(v)
            if name in self.helpers and not e.keywords:
                return self._call_helper(self.helpers[name],
                                         [self.ev(a) for a in e.args])
        if isinstance(e, ast.BinOp) and isinstance(e.op, ast.Add):
            l_, r_ = self.ev(e.left), self.ev(e.right)
            if type(l_) is type(r_) and isinstance(l_, (str, list)):
                return l_ + r_
        if isinstance(e, ast.BinOp) and isinstance(e.op, ast.Mod):
            l_, r_ = self.ev(e.left), self.ev(e.right)
            if isinstance(l_, str):
                return l_ % (tuple(r_) if isinstance(r_, list) else r_)
        if isinstance(e, ast.UnaryOp) and isinstance(e.op, ast.Not):
            return not self.ev(e.operand)
        if isinstance(e, ast.BoolOp):
            # Python's value semantics of and / or
            val = None
            for i, x in enumerate(e.values):
                val = self.ev(x)
                if isinstance(e.op, ast.Or) and val:
                    return val
                if isinstance(e.op, ast.And) and not val:
                    return val
            return val
        if isinstance(e, ast.IfExp):
            return self.ev(e.body) if self.ev(e.test) else self.ev(e.orelse)
        if isinstance(e, ast.Compare) and len(e.ops) == 1:
            l_, r_ = self.ev(e.left), self.ev(e.comparators[0])
            op = e.ops[0]
            if isinstance(op, ast.Eq):
                return l_ == r_
            if isinstance(op, ast.NotEq):
                return l_ != r_
            if isinstance(op, ast.Gt):
                return l_ > r_
        if isinstance(e, ast.Attribute) and isinstance(e.value, ast.Name) \
                and e.value.id in self.env and isinstance(
                self.env[e.value.id], tuple) and e.attr == "name":
            return self.env[e.value.id][1]
        if isinstance(e, ast.Attribute) and isinstance(e.value, ast.Name) \
                and e.value.id == "cls" and e.attr in (
                    "__match_args__", "__annotations__", "__slots__"):
            from . import ModelViolation
            raise ModelViolation(
                "T/template/field-source",
                f"pymbolic/primitives.py:{e.lineno}",
                f"the generated methods are instantiated from cls.{e.attr}, "
                "not from dataclasses.fields(cls): "
                + {"__match_args__": "keyword-only and init=False fields are "
                   "not in it",
                   "__annotations__": "the fields of base classes are not in "
                   "it (and ClassVars are)",
                   "__slots__": "a dataclass has none unless asked"}[e.attr]
                + ", so a node class that declares such a field compares and "
                "hashes without it (Tagged((x, y), tag='u') == "
                "Tagged((x, y), tag='v'))")
        raise TemplateError(f"cannot interpret {ast.unparse(e)} in the "
                            "hole-building code")

    def _comp(self, g):
        if len(g.generators) != 1:
            raise TemplateError("hole is not built by one generator")
        gen = g.generators[0]
        it = ast.unparse(gen.iter)
        if it == "fields(cls)":
            flds = [("FIELD", f) for f in self.fields]
        elif isinstance(gen.iter, ast.Name) and isinstance(
                self.env.get(gen.iter.id), list):
            flds = list(self.env[gen.iter.id])
        else:
            self.problems.append(
                f"line {g.lineno}: the generator iterates '{it}' instead of "
                "fields(cls): the field list is sliced, filtered or reordered")
            # interpret common deviations so the result still shows them
            flds = [("FIELD", f) for f in self._deviant_fields(gen.iter)]
        if gen.ifs:
            self.problems.append(
                f"line {g.lineno}: the generator over fields(cls) has a "
                f"filter ({ast.unparse(gen.ifs[0])})")
            flds = [f for f in flds if self._filter_keeps(gen.ifs[0], f)]
        if not isinstance(gen.target, ast.Name):
            raise TemplateError("generator target is not a name")
        out = []
        for f in flds:
            saved = dict(self.env)
            self.env[gen.target.id] = f
            out.append(self.ev(g.elt))
            self.env = saved
        return out

    def _call_helper(self, fn, args):
        if self.depth > 4:
            raise TemplateError("helper recursion in the hole-building code")
        params = [a.arg for a in fn.args.args]
        if len(params) != len(args):
            raise TemplateError(f"helper {fn.name}: arity")
        saved = self.env
        self.env = dict(zip(params, args))
        self.depth += 1
        try:
            self.run(fn.body)
            raise TemplateError(f"helper {fn.name} does not return")
        except _Return as r:
            return r.value
        finally:
            self.env = saved
            self.depth -= 1

    def _deviant_fields(self, it):
        src = ast.unparse(it)
        if src.startswith("fields(cls)[") and src.endswith("]"):
            try:
                return eval("x" + src[len("fields(cls)"):], {"x": list(self.fields)})
            except Exception:
                return []
        if src in ("reversed(fields(cls))",):
            return list(reversed(self.fields))
        if src.startswith("sorted(fields(cls)"):
            return sorted(self.fields)
        return []

    def _filter_keeps(self, test, f):
        return False

    # -- statements ----------------------------------------------------------
    def run(self, stmts):
        for st in stmts:
            if isinstance(st, ast.Assign) and len(st.targets) == 1 and \
                    isinstance(st.targets[0], ast.Name):
                self.env[st.targets[0].id] = self.ev(st.value)
            elif isinstance(st, ast.AnnAssign) and isinstance(
                    st.target, ast.Name) and st.value is not None:
                self.env[st.target.id] = self.ev(st.value)
            elif isinstance(st, ast.If):
                self.run(st.body if self.ev(st.test) else st.orelse)
            elif isinstance(st, ast.Return):
                raise _Return(self.ev(st.value) if st.value is not None else None)
            elif isinstance(st, ast.Expr) and isinstance(st.value, ast.Constant):
                pass
            elif isinstance(st, (ast.Import, ast.ImportFrom, ast.Pass)):
                pass
            elif isinstance(st, ast.FunctionDef):
                # a local helper of the hole-building code
                self.helpers = dict(self.helpers)
                self.helpers[st.name] = st
            else:
                raise TemplateError(f"unexpected statement "
                                    f"{ast.unparse(st)[:60]} in hole-building code")


def instantiate(model, nfields=2) -> Instantiation:
    m, fn = model.func(f"{PRIM}:_augment_expression_dataclass")
    tmpl, call = _find_template(fn)
    # statements before the template assignment build the holes
    pre = []
    for st in fn.body:
        if any(n is call for n in ast.walk(st)):
            break
        if isinstance(st, (ast.Import, ast.ImportFrom)):
            continue
        pre.append(st)
    fields = [f"FLD{i}" for i in range(nfields)]
    helpers = {k.split(":", 1)[1]: f for k, (mm, f) in model.functions.items()
               if mm is m}
    interp = _StrInterp(fields, helpers)
    interp.run(pre)
    env = dict(interp.env)
    # render the template
    out = ""
    for p in tmpl.values:
        if isinstance(p, ast.Constant):
            out += p.value
        else:
            src = ast.unparse(p.value)
            if src == "cls.__name__":
                out += "CLSNAME"
            elif src == "cls":
                out += "CLS"
            elif src == "hash":
                out += "HASH_ENABLED"
            elif src in env and isinstance(env[src], str):
                out += env[src]
            else:
                # any other hole: a value computed from the field list
                try:
                    v = interp.ev(p.value)
                except TemplateError:
                    raise TemplateError(
                        f"template hole {{{src}}} not understood") from None
                if not isinstance(v, (str, int, bool)):
                    raise TemplateError(
                        f"template hole {{{src}}} is not text or a number")
                out += repr(v) if p.conversion == 114 else str(v)
    code = textwrap.dedent(out)
    try:
        mod = ast.parse(code)
    except SyntaxError as e:
        raise TemplateError(f"instantiated template does not parse: {e}")
    funcs = {}
    assigns = {}

    def scan(body, guard):
        for st in body:
            if isinstance(st, ast.FunctionDef):
                funcs[st.name] = st
            elif isinstance(st, ast.Assign) and len(st.targets) == 1:
                assigns[ast.unparse(st.targets[0])] = (ast.unparse(st.value),
                                                       guard)
            elif isinstance(st, ast.If):
                scan(st.body, ast.unparse(st.test))
    scan(mod.body, None)
    return Instantiation(nfields, fields, env, code, mod, funcs, assigns,
                         interp.problems)
