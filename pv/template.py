"""Symbolic instantiation of the code template in
primitives._augment_expression_dataclass.

The three string holes (attr tuple, field-name tuple, comparison) are computed
from the statements that build them, with a symbolic field list
[FLD0, FLD1, ...]; the f-string template is then rendered with sentinels and
parsed, so that the *generated* functions can be analysed as ordinary code.
Nothing is executed: the interpretation covers only string literals, f-strings,
str.join over a generator on fields(cls), and if/else on emptiness.
"""
from __future__ import annotations

import ast
import textwrap
from dataclasses import dataclass, field

from . import AnalysisError

PRIM = "pymbolic.primitives"


@dataclass
class Instantiation:
    nfields: int
    fields: list
    holes: dict                 # name -> rendered string
    code: str
    module: ast.Module
    funcs: dict                 # generated function name -> FunctionDef
    assigns: dict               # "cls.__eq__" -> (value source, guarded_by)
    problems: list = field(default_factory=list)


class TemplateError(AnalysisError):
    pass


def _find_template(fn):
    """the JoinedStr passed to remove_common_indentation"""
    for n in ast.walk(fn):
        if isinstance(n, ast.Call) and ast.unparse(n.func).endswith(
                "remove_common_indentation") and n.args and isinstance(
                n.args[0], ast.JoinedStr):
            return n.args[0], n
    raise TemplateError("_augment_expression_dataclass: template f-string not "
                        "found")


class _StrInterp:
    """evaluates the hole-building statements for a symbolic field list"""

    def __init__(self, fields):
        self.fields = fields
        self.env = {}
        self.problems = []

    def ev(self, e):
        if isinstance(e, ast.Constant) and isinstance(e.value, str):
            return e.value
        if isinstance(e, ast.Name) and e.id in self.env:
            return self.env[e.id]
        if isinstance(e, ast.JoinedStr):
            out = ""
            for p in e.values:
                if isinstance(p, ast.Constant):
                    out += p.value
                else:
                    out += self.ev(p.value)
            return out
        if isinstance(e, ast.Call) and isinstance(e.func, ast.Attribute) \
                and e.func.attr == "join" and isinstance(e.func.value,
                                                         ast.Constant):
            sep = e.func.value.value
            g = e.args[0]
            if not isinstance(g, (ast.GeneratorExp, ast.ListComp)) or \
                    len(g.generators) != 1:
                raise TemplateError("hole is not built by one generator")
            gen = g.generators[0]
            it = ast.unparse(gen.iter)
            if it != "fields(cls)":
                self.problems.append(
                    f"line {e.lineno}: the generator iterates '{it}' instead of "
                    "fields(cls): the field list is sliced, filtered or "
                    "reordered")
                # interpret common deviations so the result still shows them
                flds = self._deviant_fields(gen.iter)
            else:
                flds = list(self.fields)
            if gen.ifs:
                self.problems.append(
                    f"line {e.lineno}: the generator over fields(cls) has a "
                    f"filter ({ast.unparse(gen.ifs[0])})")
                flds = [f for f in flds if self._filter_keeps(gen.ifs[0], f)]
            if not isinstance(gen.target, ast.Name):
                raise TemplateError("generator target is not a name")
            out = []
            for f in flds:
                saved = dict(self.env)
                self.env[gen.target.id] = ("FIELD", f)
                out.append(self.ev(g.elt))
                self.env = saved
            return sep.join(out)
        if isinstance(e, ast.Attribute) and isinstance(e.value, ast.Name) \
                and e.value.id in self.env and isinstance(
                self.env[e.value.id], tuple) and e.attr == "name":
            return self.env[e.value.id][1]
        raise TemplateError(f"cannot interpret {ast.unparse(e)} in the "
                            "hole-building code")

    def _deviant_fields(self, it):
        src = ast.unparse(it)
        if src.startswith("fields(cls)[") and src.endswith("]"):
            try:
                return eval("x" + src[len("fields(cls)"):], {"x": list(self.fields)})
            except Exception:
                return []
        if src in ("reversed(fields(cls))",):
            return list(reversed(self.fields))
        if src.startswith("sorted(fields(cls)"):
            return sorted(self.fields)
        return []

    def _filter_keeps(self, test, f):
        return False

    def run(self, stmts):
        for st in stmts:
            if isinstance(st, ast.Assign) and len(st.targets) == 1 and \
                    isinstance(st.targets[0], ast.Name):
                self.env[st.targets[0].id] = self.ev(st.value)
            elif isinstance(st, ast.If):
                t = st.test
                neg = False
                if isinstance(t, ast.UnaryOp) and isinstance(t.op, ast.Not):
                    t, neg = t.operand, True
                if not (isinstance(t, ast.Name) and t.id in self.env):
                    raise TemplateError("unexpected condition in hole-building "
                                        "code")
                truth = bool(self.env[t.id]) != neg
                self.run(st.body if truth else st.orelse)
            elif isinstance(st, ast.Expr) and isinstance(st.value, ast.Constant):
                pass
            else:
                raise TemplateError(f"unexpected statement "
                                    f"{ast.unparse(st)[:60]} in hole-building code")


def instantiate(model, nfields=2) -> Instantiation:
    m, fn = model.func(f"{PRIM}:_augment_expression_dataclass")
    tmpl, call = _find_template(fn)
    # statements before the template assignment build the holes
    pre = []
    for st in fn.body:
        if any(n is call for n in ast.walk(st)):
            break
        if isinstance(st, (ast.Import, ast.ImportFrom)):
            continue
        pre.append(st)
    fields = [f"FLD{i}" for i in range(nfields)]
    interp = _StrInterp(fields)
    interp.run(pre)
    env = dict(interp.env)
    # render the template
    out = ""
    for p in tmpl.values:
        if isinstance(p, ast.Constant):
            out += p.value
        else:
            src = ast.unparse(p.value)
            if src == "cls.__name__":
                out += "CLSNAME"
            elif src == "cls":
                out += "CLS"
            elif src == "hash":
                out += "HASH_ENABLED"
            elif src in env:
                out += env[src]
            else:
                raise TemplateError(f"template hole {{{src}}} not understood")
    code = textwrap.dedent(out)
    try:
        mod = ast.parse(code)
    except SyntaxError as e:
        raise TemplateError(f"instantiated template does not parse: {e}")
    funcs = {}
    assigns = {}

    def scan(body, guard):
        for st in body:
            if isinstance(st, ast.FunctionDef):
                funcs[st.name] = st
            elif isinstance(st, ast.Assign) and len(st.targets) == 1:
                assigns[ast.unparse(st.targets[0])] = (ast.unparse(st.value),
                                                       guard)
            elif isinstance(st, ast.If):
                scan(st.body, ast.unparse(st.test))
    scan(mod.body, None)
    return Instantiation(nfields, fields, env, code, mod, funcs, assigns,
                         interp.problems)
