"""Reference C expression grammar (oracle C-PREC: ISO C11 6.5, frozen) and the
value-preserving normal form used to compare trees for C14."""
from __future__ import annotations

import re

from .grammar import ModelParseError

# binary operators: symbol -> (level, node); higher level binds tighter; all
# left-associative (C11 6.5.5 - 6.5.14)
C_BINARY = {
    "*": (13, "Mul"), "/": (13, "Div"), "%": (13, "Mod"),
    "+": (12, "Add"), "-": (12, "Sub"),
    "<<": (11, "LeftShift"), ">>": (11, "RightShift"),
    "<": (10, "Lt"), "<=": (10, "Le"), ">": (10, "Gt"), ">=": (10, "Ge"),
    "==": (9, "Eq"), "!=": (9, "Ne"),
    "&": (8, "BitwiseAnd"), "^": (7, "BitwiseXor"), "|": (6, "BitwiseOr"),
    "&&": (5, "LogicalAnd"), "||": (4, "LogicalOr"),
}
C_TERNARY_LEVEL = 3       # right-associative (6.5.15)
C_UNARY = {"-": "Neg", "+": "Pos", "!": "LogicalNot", "~": "BitwiseNot"}
C_UNARY_LEVEL = 14        # 6.5.3, operand is a cast-expression
# postfix (call, subscript, member) : level 15

_TOKEN = re.compile(r"""
    \s*(?:
      (?P<num>(?:[0-9]+\.[0-9]*|\.[0-9]+|[0-9]+)(?:[eE][+-]?[0-9]+)?)
    | (?P<id>[A-Za-z_][A-Za-z_0-9:<>]*(?:<[^()]*>)?)
    | (?P<op><<|>>|<=|>=|==|!=|&&|\|\||[-+*/%<>&^|!~?:(),.\[\]])
    )""", re.X)


def c_lex(s):
    out = []
    i = 0
    s = s.rstrip()
    while i < len(s):
        m = _TOKEN.match(s, i)
        if not m or m.end() == i:
            raise ModelParseError(f"C lexer: bad input at {s[i:i+10]!r}")
        if m.group("num") is not None:
            out.append(("num", m.group("num")))
        elif m.group("id") is not None:
            out.append(("id", m.group("id")))
        else:
            out.append(("op", m.group("op")))
        i = m.end()
    return out


class CParser:
    """Precedence-climbing parser for the C expression subset the code
    generator emits, driven by the C-PREC tables above."""

    def parse(self, s):
        self.toks = c_lex(s)
        self.pos = 0
        r = self.expr(0)
        if self.pos != len(self.toks):
            raise ModelParseError(f"C parser: leftover input in {s!r}")
        return r

    def peek(self):
        return self.toks[self.pos] if self.pos < len(self.toks) else (None, None)

    def eat(self, kind, val=None):
        k, v = self.peek()
        if k != kind or (val is not None and v != val):
            raise ModelParseError(f"C parser: expected {val or kind}, got {v}")
        self.pos += 1
        return v

    def expr(self, min_level):
        left = self.unary()
        while True:
            k, v = self.peek()
            if k != "op":
                break
            if v == "?" and C_TERNARY_LEVEL >= min_level:
                self.pos += 1
                then = self.expr(0)
                self.eat("op", ":")
                els = self.expr(C_TERNARY_LEVEL)      # right-associative
                left = ("If", left, then, els)
                continue
            ent = C_BINARY.get(v)
            if ent is None or ent[0] < min_level:
                break
            self.pos += 1
            right = self.expr(ent[0] + 1)             # left-associative
            left = (ent[1], left, right)
        return left

    def unary(self):
        k, v = self.peek()
        if k == "op" and v in C_UNARY:
            self.pos += 1
            return (C_UNARY[v], self.unary())
        return self.postfix()

    def postfix(self):
        k, v = self.peek()
        if k == "num":
            self.pos += 1
            x = ("Const", float(v) if any(c in v for c in ".eE") else int(v))
        elif k == "id":
            self.pos += 1
            x = ("Var", v)
        elif k == "op" and v == "(":
            self.pos += 1
            x = self.expr(0)
            self.eat("op", ")")
        else:
            raise ModelParseError(f"C parser: unexpected {v!r}")
        while True:
            k, v = self.peek()
            if k == "op" and v == "(":
                self.pos += 1
                args = []
                if self.peek() != ("op", ")"):
                    args.append(self.expr(0))
                    while self.peek() == ("op", ","):
                        self.pos += 1
                        args.append(self.expr(0))
                self.eat("op", ")")
                x = ("Call", x, tuple(args))
            elif k == "op" and v == "[":
                self.pos += 1
                idx = self.expr(0)
                self.eat("op", "]")
                x = ("Subscript", x, idx)
            elif k == "op" and v == ".":
                self.pos += 1
                name = self.eat("id")
                x = ("Lookup", x, name)
            else:
                break
        return x


# ---------------------------------------------------------------------------
# value-preserving normal form
# ---------------------------------------------------------------------------

CMP = {"<": "Lt", "<=": "Le", ">": "Gt", ">=": "Ge", "==": "Eq", "!=": "Ne"}
ASSOC_COMM = {"BitwiseAnd", "BitwiseXor", "BitwiseOr", "LogicalAnd", "LogicalOr"}


def canon(t):
    """Normal form in which two trees are equal iff they differ only by
    regroupings that cannot change the value in real arithmetic: chains of
    + and - are signed multisets, chains of * and / are numerator/denominator
    multisets, chains of & ^ | && || are multisets.  Everything else (%,
    shifts, comparisons, unary operators, ?:, calls) is rigid."""
    sign, terms = _sum_terms(t, 1)
    if len(terms) == 1 and terms[0][0] == 1:
        return terms[0][1]
    return ("SUM", tuple(sorted(terms, key=repr)))


def _sum_terms(t, sign):
    name = t[0]
    if name == "Sum":
        out = []
        for c in t[1]:
            out += _sum_terms(c, sign)[1]
        return sign, out
    if name == "Add":
        return sign, _sum_terms(t[1], sign)[1] + _sum_terms(t[2], sign)[1]
    if name == "Sub":
        return sign, _sum_terms(t[1], sign)[1] + _sum_terms(t[2], -sign)[1]
    if name == "Neg":
        return sign, _sum_terms(t[1], -sign)[1]
    if name == "Pos":
        return sign, _sum_terms(t[1], sign)[1]
    if name == "Const" and isinstance(t[1], (int, float)) \
            and not isinstance(t[1], bool) and t[1] < 0:
        return sign, [(-sign, ("Const", -t[1]))]
    # product-level
    s2, num, den = _prod_factors(t)
    if len(num) == 1 and not den and num[0][0] in ("SUM",):
        # a product that is just a parenthesised sum with a sign
        inner = num[0]
        return sign, [(sg * sign * s2, term) for sg, term in inner[1]]
    if not den and len(num) == 1:
        return sign, [(sign * s2, num[0])]
    if not num and not den:
        return sign, [(sign * s2, ("Const", 1))]
    return sign, [(sign * s2, ("PROD", tuple(sorted(num, key=repr)),
                               tuple(sorted(den, key=repr))))]


def _prod_factors(t):
    """-> (sign, numerator factors, denominator factors), factors canonical"""
    name = t[0]
    if name == "Product":
        s, n, d = 1, [], []
        for c in t[1]:
            s1, n1, d1 = _prod_factors(c)
            s *= s1
            n += n1
            d += d1
        return s, n, d
    if name == "Mul":
        s1, n1, d1 = _prod_factors(t[1])
        s2, n2, d2 = _prod_factors(t[2])
        return s1 * s2, n1 + n2, d1 + d2
    if name in ("Quotient", "Div", "FloorDiv"):
        s1, n1, d1 = _prod_factors(t[1])
        s2, n2, d2 = _prod_factors(t[2])
        return s1 * s2, n1 + d2, d1 + n2
    if name == "Const" and isinstance(t[1], (int, float)) \
            and not isinstance(t[1], bool):
        if t[1] == 1:
            return 1, [], []
        if t[1] == -1:
            return -1, [], []
        if t[1] < 0:
            return -1, [("Const", -t[1])], []
        return 1, [t], []
    if name in ("Neg",):
        s, n, d = _prod_factors(t[1])
        return -s, n, d
    if name == "Power" and t[2][0] == "Const" and t[2][1] in (0, 1, 2) \
            and not isinstance(t[2][1], bool):
        # the C generator writes x**0 as 1, x**1 as x, x**2 as x*x
        if t[2][1] == 0:
            return 1, [], []
        s1, n1, d1 = _prod_factors(t[1])
        if t[2][1] == 1:
            return s1, n1, d1
        return 1, n1 + n1, d1 + d1
    if name in ("Sum", "Add", "Sub", "Pos"):
        c = canon(t)
        if c[0] == "SUM":
            return 1, [c], []
        return _prod_factors_canon(c)
    return 1, [_rigid(t)], []


def _prod_factors_canon(c):
    if c[0] == "PROD":
        return 1, list(c[1]), list(c[2])
    return 1, [c], []


def _rigid(t):
    name = t[0]
    if name in ("Var", "Const"):
        return t
    if name in ASSOC_COMM:
        items = []

        def gather(x):
            if x[0] == "Power" and x[2] == ("Const", 1):
                return gather(x[1])         # u**1 is written as u
            if x[0] == name:
                kids = x[1] if len(x) == 2 and isinstance(x[1], tuple) and (
                    not x[1] or isinstance(x[1][0], tuple)) else x[1:]
                for k in kids:
                    gather(k)
            else:
                items.append(canon(x))
        gather(t)
        return (name, tuple(sorted(items, key=repr)))
    if name == "Comparison":
        return (CMP[t[2]], canon(t[1]), canon(t[3]))
    if name in ("Remainder", "Mod"):
        return ("Mod", canon(t[1]), canon(t[2]))
    if name == "Power":
        return ("Call", ("Var", "pow"), (canon(t[1]), canon(t[2])))
    if name == "Call":
        return ("Call", canon(t[1]), tuple(canon(a) for a in t[2]))
    if name == "Lookup":
        return ("Lookup", canon(t[1]), t[2])
    if name == "Tuple":
        return ("Tuple", tuple(canon(a) for a in t[1]))
    return (name,) + tuple(canon(x) if isinstance(x, tuple) and x and isinstance(
        x[0], str) else x for x in t[1:])
