"""Load the source of the package under analysis."""
from __future__ import annotations

import ast
import hashlib
import os
from dataclasses import dataclass, field

from . import AnalysisError

PKG = "pymbolic"


def repo_root() -> str:
    return os.environ.get("PV_REPO", "/repo")


@dataclass
class Module:
    name: str               # dotted module name
    path: str               # absolute path
    relpath: str            # path relative to repo root
    source: str
    tree: ast.Module
    is_pkg: bool
    digest: str
    # local name -> ("module", dotted) | ("attr", dotted_module, attr)
    imports: dict = field(default_factory=dict)
    parents: dict = field(default_factory=dict, repr=False)

    def parent(self, node):
        return self.parents.get(node)

    def loc(self, node) -> str:
        return f"{self.relpath}:{getattr(node, 'lineno', 0)}"

    def seg(self, node) -> str:
        try:
            return ast.get_source_segment(self.source, node) or ast.unparse(node)
        except Exception:
            return ast.unparse(node)


class Repo:
    def __init__(self, root: str | None = None):
        self.root = root or repo_root()
        self.modules: dict[str, Module] = {}
        pkgdir = os.path.join(self.root, PKG)
        if not os.path.isdir(pkgdir):
            raise AnalysisError(f"package directory {pkgdir} not found")
        for dirpath, dirnames, filenames in os.walk(pkgdir):
            dirnames[:] = sorted(d for d in dirnames if d != "__pycache__")
            for fn in sorted(filenames):
                if not fn.endswith(".py"):
                    continue
                path = os.path.join(dirpath, fn)
                rel = os.path.relpath(path, self.root)
                parts = rel[:-3].split(os.sep)
                is_pkg = parts[-1] == "__init__"
                if is_pkg:
                    parts = parts[:-1]
                name = ".".join(parts)
                with open(path, encoding="utf-8") as f:
                    src = f.read()
                try:
                    tree = ast.parse(src, filename=path)
                except SyntaxError as e:
                    raise AnalysisError(f"{rel}: does not parse: {e}") from e
                m = Module(name, path, rel, src, tree, is_pkg,
                           hashlib.sha256(src.encode()).hexdigest()[:16])
                for parent in ast.walk(tree):
                    for child in ast.iter_child_nodes(parent):
                        m.parents[child] = parent
                self._collect_imports(m)
                self.modules[name] = m
        self.consulted: set[str] = set()

    # -- imports -----------------------------------------------------------
    def _collect_imports(self, m: Module):
        # module-level imports win over function-local ones
        def handle(node, overwrite):
            if isinstance(node, ast.Import):
                for a in node.names:
                    if a.asname:
                        key, val = a.asname, ("module", a.name)
                    else:
                        key = a.name.split(".")[0]
                        val = ("module", key)
                    if overwrite or key not in m.imports:
                        m.imports[key] = val
            elif isinstance(node, ast.ImportFrom):
                base = node.module or ""
                if node.level:
                    pkgparts = m.name.split(".")
                    if not m.is_pkg:
                        pkgparts = pkgparts[:-1]
                    up = node.level - 1
                    if up:
                        pkgparts = pkgparts[:-up]
                    base = ".".join(pkgparts + ([base] if base else []))
                for a in node.names:
                    key = a.asname or a.name
                    val = ("attr", base, a.name)
                    if overwrite or key not in m.imports:
                        m.imports[key] = val

        toplevel = set()
        for node in m.tree.body:
            stack = [node]
            while stack:
                n = stack.pop()
                if isinstance(n, (ast.Import, ast.ImportFrom)):
                    handle(n, True)
                    toplevel.add(n)
                elif isinstance(n, (ast.If, ast.Try)):
                    stack.extend(ast.iter_child_nodes(n))
                elif isinstance(n, ast.ExceptHandler):
                    stack.extend(n.body)
        for n in ast.walk(m.tree):
            if isinstance(n, (ast.Import, ast.ImportFrom)) and n not in toplevel:
                handle(n, False)

    # -- access ------------------------------------------------------------
    def module(self, name: str) -> Module:
        try:
            m = self.modules[name]
        except KeyError:
            raise AnalysisError(f"anchor module {name} not found") from None
        self.consulted.add(name)
        return m

    def digests(self) -> dict:
        return {self.modules[n].relpath: self.modules[n].digest
                for n in sorted(self.consulted)}

    def all_digest(self) -> str:
        h = hashlib.sha256()
        for n in sorted(self.modules):
            h.update(n.encode())
            h.update(self.modules[n].digest.encode())
        return h.hexdigest()[:16]
