"""C18: the geometric-algebra identities, decided by interpreting
pymbolic.geometric_algebra abstractly (pv/absint.py) on multivectors with
*symbolic* coefficients over spaces of dimension 1..3 with a *symbolic*
diagonal metric.  Blade bit patterns, grades and loop control are concrete;
every coefficient of every result is a polynomial normal form, so an identity
holds iff the normal forms agree.  Bounded in the dimension, exact in the
coefficients and the metric."""
from __future__ import annotations

import ast
import itertools

from . import AnalysisError
from .absint import (Closure, Interp, Native, Obj, Opaque, Poly, Raised,
                     StepBound)

GA = "pymbolic.geometric_algebra"


class Diag(Native):
    """a diagonal metric matrix with symbolic entries g0, g1, ..."""

    def __init__(self, n):
        self.n = n
        self.shape = (n, n)

    def __len__(self):
        return self.n

    def __getitem__(self, idx):
        if isinstance(idx, tuple) and len(idx) == 2:
            i, j = idx
            return Poly.sym(f"g{i}") if i == j else 0
        raise AnalysisError(f"metric indexed with {idx!r}")


class World:
    """interpreter + constructors for one space"""

    def __init__(self, model, n):
        self.model = model
        self.n = n
        self.mod = model.repo.module(GA)
        self.mv = model.cls(f"{GA}:MultiVector")
        self.space = Obj(model.cls(f"{GA}:Space"), {
            "dimensions": n, "is_orthogonal": True, "is_euclidean": False,
            "metric_matrix": Diag(n), "basis_names": [f"e{i}" for i in range(n)]})
        self.glob = {"NotImplemented": NotImplemented, "np": Opaque("module np"),
                     "numpy": Opaque("module numpy")}
        for st in self.mod.tree.body:
            if isinstance(st, ast.FunctionDef):
                self.glob[st.name] = Closure(st, self.glob)
            elif isinstance(st, ast.ClassDef):
                self.glob[st.name] = Opaque(f"class {st.name}")
        _, self.ipow = model.func("pymbolic.algorithm:integer_power")
        self.inv_syms = {}

    # -- hooks ---------------------------------------------------------------
    def resolve(self, cls, name):
        mem = self.model.lookup(cls, name)
        if mem is None:
            return None
        if mem.kind == "func":
            return ("prop" if mem.is_property else "func", mem.node)
        node = mem.node.value if mem.kind == "ann" else mem.node
        if isinstance(node, ast.Name):
            return self.resolve(cls, node.id)
        return None

    def attrs(self, it, node, base, attr):
        if isinstance(base, Opaque) and base.what.startswith("class "):
            c = self.model.classes.get(f"{GA}:{base.what[6:]}")
            if c is not None:
                mem = self.model.lookup(c, attr)
                if mem is not None and mem.kind == "func":
                    return Closure(mem.node, self.glob)
                if mem is not None and mem.kind in ("alias", "value"):
                    node_ = mem.node
                    if isinstance(node_, ast.Name):
                        m2 = self.model.lookup(c, node_.id)
                        if m2 is not None and m2.kind == "func":
                            return Closure(m2.node, self.glob)
        return Opaque(ast.unparse(node))

    def is_zero(self, it, node, args, kw):
        v = args[0]
        if isinstance(v, Poly):
            return not v.t
        from fractions import Fraction
        if isinstance(v, (int, float, Fraction)) and not isinstance(v, bool):
            return v == 0
        if isinstance(v, Obj):
            return not it.truth(node, v)
        raise AnalysisError(f"is_zero of {v!r}")

    def isinstance_(self, it, node, args, kw):
        v, c = args
        what = getattr(c, "what", "")
        if what.endswith("MultiVector"):
            return isinstance(v, Obj) and v.cls is self.mv
        if what.endswith("ndarray"):
            return False
        if what.endswith("dict"):
            return isinstance(v, dict)
        if what.endswith("tuple"):
            return isinstance(v, tuple)
        if what.endswith("Integral") or what.endswith("int"):
            return isinstance(v, int) and not isinstance(v, bool)
        _r = __import__("pv.absint", fromlist=["x"]).default_isinstance(v, c)
        if _r is not None:
            return _r
        raise AnalysisError(f"isinstance(..., {c!r})")

    def single_valued(self, it, node, args, kw):
        vals = list(args[0])
        if not vals or any(v != vals[0] for v in vals):
            raise AnalysisError("single_valued of differing values")
        return vals[0]

    def make(self, it, node, args, kw):
        o = Obj(self.mv)
        init = self.model.lookup(self.mv, "__init__")
        a = list(args)
        if "space" in kw:
            a = a[:1] + [kw["space"]]
        it.call_function(init.node, [o] + a, dict(self.glob))
        return o

    def divide(self, it, node, op, X, Y):
        """X / Y for a symbolic Y: exact for a monomial, else through a named
        inverse (resolved when the identity is compared)"""
        if not isinstance(op, (ast.Div, ast.FloorDiv)):
            raise AnalysisError(f"operation {ast.unparse(node)} on symbols")
        if not Y.t:
            raise Raised(node)          # division by zero
        if len(Y.t) == 1:
            return X * (Y ** -1)
        key = repr(Y)
        self.inv_syms.setdefault(key, (f"inv{len(self.inv_syms)}", Y))
        return X * Poly.sym(self.inv_syms[key][0])

    def interp(self):
        calls = {
            "MultiVector": self.make, "is_zero": self.is_zero,
            "isinstance": self.isinstance_, "single_valued": self.single_valued,
            "integer_power": lambda it, n_, a, k: it.call_function(
                self.ipow, list(a) + ([k["one"]] if "one" in k else []),
                dict(it.globals)),
            "<binop>": self.divide,
            "type": lambda it, n_, a, k: Opaque("class of " + repr(type(a[0]))),
        }

        def decide(it, node, v):
            if isinstance(v, Poly):
                return True         # a generic coefficient is non-zero
            raise AnalysisError(f"cannot decide '{ast.unparse(node)}'")
        return Interp(calls=calls, attrs=self.attrs, decide=decide,
                      resolve=self.resolve, globals_=self.glob,
                      max_steps=3000000)

    # -- values --------------------------------------------------------------
    def mvec(self, prefix, grades=None, bits=None):
        """generic multivector: one symbol per basis blade (of the grades)"""
        data = {}
        for b in range(2 ** self.n):
            if bits is not None and b not in bits:
                continue
            if grades is not None and bin(b).count("1") not in grades:
                continue
            data[b] = Poly.sym(f"{prefix}{b}")
        return Obj(self.mv, {"space": self.space, "data": data})

    def blade(self, b, coeff=1):
        return Obj(self.mv, {"space": self.space, "data": {b: Poly.lift(coeff)}})

    def scalar(self, v):
        return Obj(self.mv, {"space": self.space, "data": {0: Poly.lift(v)}})

    def call(self, obj, name, *args):
        it = self.interp()
        r = it.call_method(obj, name, list(args), None)
        if r is NotImplemented:
            raise AnalysisError(f"{name} returned NotImplemented")
        return r

    def prop(self, obj, name):
        it = self.interp()
        r = it.method(obj, name)
        if r is None:
            raise AnalysisError(f"no attribute {name}")
        return it.call_function(r[1], [obj], dict(self.glob))

    def coeffs(self, v):
        """-> {bits: Poly} without zero entries"""
        if isinstance(v, Obj):
            d = v.fields["data"]
        elif isinstance(v, (Poly, int)):
            d = {0: v}
        else:
            raise AnalysisError(f"not a multivector: {v!r}")
        return {b: Poly.lift(c) for b, c in d.items() if Poly.lift(c).t}

    def same(self, a, b):
        """are two results equal as multivectors, given inv_k * N_k == 1"""
        ca, cb = self.coeffs(a), self.coeffs(b)
        for bits in set(ca) | set(cb):
            d = ca.get(bits, Poly()) - cb.get(bits, Poly())
            if not self._vanishes(d):
                return f"blade {bits:0{self.n}b}: {ca.get(bits, Poly())} vs " \
                       f"{cb.get(bits, Poly())}"
        return None

    def _vanishes(self, d):
        if not d.t:
            return True
        for name, N in self.inv_syms.values():
            if name in d.symbols():
                # d == A + B*inv (linear in inv):  zero iff A*N + B == 0
                A = d.subst(name, 0)
                B = d.subst(name, 1) - A
                if (A + B * Poly.sym(name)) != d:
                    return False        # not linear in the inverse
                return self._vanishes(A * N + B)
        return False


def run_identities(model, dims=(1, 2, 3)):
    """-> (witnesses, n_identities)"""
    wit = []
    n_id = [0]

    def check(w, label, thunk_a, thunk_b, may_refuse=False):
        n_id[0] += 1
        try:
            a, b = thunk_a(), thunk_b()
        except Raised as r:
            if may_refuse:
                return          # the operation is refused, not answered wrongly
            wit.append(f"{label} (n={w.n}): raises at line {r.node.lineno}")
            return
        except StepBound:
            wit.append(f"{label} (n={w.n}): does not terminate")
            return
        bad = w.same(a, b)
        if bad:
            wit.append(f"{label} (n={w.n}): {bad}")

    for n in dims:
        w = World(model, n)
        a, b, c = w.mvec("a"), w.mvec("b"), w.mvec("c")
        s = Poly.sym("s")
        mul = lambda x, y: w.call(x, "__mul__", y)          # noqa: E731
        add = lambda x, y: w.call(x, "__add__", y)          # noqa: E731
        # -- bilinear, associative
        check(w, "(a + b)*c == a*c + b*c", lambda: mul(add(a, b), c),
              lambda: add(mul(a, c), mul(b, c)))
        check(w, "a*(b + c) == a*b + a*c", lambda: mul(a, add(b, c)),
              lambda: add(mul(a, b), mul(a, c)))
        check(w, "(s*a)*b == s*(a*b)",
              lambda: mul(w.call(a, "__rmul__", s), b),
              lambda: w.call(mul(a, b), "__rmul__", s))
        check(w, "a*(b*s) == (a*b)*s",
              lambda: mul(a, mul(b, s)), lambda: mul(mul(a, b), s))
        check(w, "(a*b)*c == a*(b*c)", lambda: mul(mul(a, b), c),
              lambda: mul(a, mul(b, c)))
        check(w, "a - b == a + (-b)", lambda: w.call(a, "__sub__", b),
              lambda: add(a, w.call(b, "__neg__")))
        # -- basis vectors
        for i in range(n):
            ei = w.blade(1 << i)
            check(w, f"e{i}*e{i} == g{i}", lambda ei=ei: mul(ei, ei),
                  lambda i=i: w.scalar(Poly.sym(f"g{i}")))
            for j in range(n):
                if i != j:
                    ej = w.blade(1 << j)
                    check(w, f"e{i}*e{j} == -e{j}*e{i}",
                          lambda ei=ei, ej=ej: mul(ei, ej),
                          lambda ei=ei, ej=ej: w.call(mul(ej, ei), "__neg__"))
        # -- products of homogeneous multivectors as grade parts
        for r, t in itertools.product(range(n + 1), repeat=2):
            A, B = w.mvec("a", grades={r}), w.mvec("b", grades={t})
            gp = lambda A=A, B=B: mul(A, B)                   # noqa: E731
            part = lambda k, gp=gp: (                         # noqa: E731
                w.call(gp(), "project", k) if 0 <= k <= n else w.scalar(0))
            check(w, f"outer product of grades {r},{t} == <AB>_{r + t}",
                  lambda A=A, B=B: w.call(A, "__xor__", B),
                  lambda r=r, t=t, part=part: part(r + t))
            check(w, f"inner product of grades {r},{t} == <AB>_|r-t|",
                  lambda A=A, B=B: w.call(A, "__or__", B),
                  lambda r=r, t=t, part=part: part(abs(r - t)))
            check(w, f"left contraction of grades {r},{t} == <AB>_(t-r)",
                  lambda A=A, B=B: w.call(A, "__lshift__", B),
                  lambda r=r, t=t, part=part: part(t - r))
            check(w, f"right contraction of grades {r},{t} == <AB>_(r-t)",
                  lambda A=A, B=B: w.call(A, "__rshift__", B),
                  lambda r=r, t=t, part=part: part(r - t))
            check(w, f"scalar product of grades {r},{t} == <AB>_0",
                  lambda A=A, B=B: w.call(A, "scalar_product", B),
                  lambda part=part: part(0))
        # -- reverse, involution, norm, dual
        rev = lambda x: w.call(x, "rev")                      # noqa: E731
        invol = lambda x: w.call(x, "invol")                  # noqa: E731
        check(w, "rev(rev(a)) == a", lambda: rev(rev(a)), lambda: a)
        check(w, "rev(a*b) == rev(b)*rev(a)", lambda: rev(mul(a, b)),
              lambda: mul(rev(b), rev(a)))
        check(w, "invol(invol(a)) == a", lambda: invol(invol(a)), lambda: a)
        check(w, "invol(a*b) == invol(a)*invol(b)", lambda: invol(mul(a, b)),
              lambda: mul(invol(a), invol(b)))
        check(w, "norm_squared(a) == <rev(a)*a>_0",
              lambda: w.call(a, "norm_squared"),
              lambda: w.call(mul(rev(a), a), "project", 0))
        check(w, "dual(a) == a * rev(I)", lambda: w.call(a, "dual"),
              lambda: mul(a, rev(w.prop(a, "I"))))
        # -- inverse of blades
        one = w.scalar(1)
        for bts in range(2 ** n):
            bl = w.blade(bts, Poly.sym("t"))
            check(w, f"inv(t*E{bts:0{n}b}) * (t*E{bts:0{n}b}) == 1",
                  lambda bl=bl: mul(w.call(bl, "inv"), bl), lambda: one)
        v = w.mvec("v", grades={1})
        check(w, "inv(v) * v == 1 for a generic vector",
              lambda: mul(w.call(v, "inv"), v), lambda: one)
        check(w, "v * inv(v) == 1 for a generic vector",
              lambda: mul(v, w.call(v, "inv")), lambda: one)
        # a generic homogeneous multivector of any grade: whatever inv()
        # answers is an inverse (it may refuse what it cannot invert)
        for k in range(n + 1):
            hk = w.mvec("h", grades={k})
            check(w, f"inv(A) * A == 1 for a generic multivector of grade {k} "
                  "(unless inv refuses it)",
                  lambda hk=hk: mul(w.call(hk, "inv"), hk), lambda: one,
                  may_refuse=True)
        ps = w.mvec("p", grades={n})
        check(w, "inv(pseudoscalar) * pseudoscalar == 1",
              lambda: mul(w.call(ps, "inv"), ps), lambda: one)
        check(w, "a / (t*e0) == a * inv(t*e0)",
              lambda: w.call(a, "__truediv__", w.blade(1, Poly.sym("t"))),
              lambda: mul(a, w.call(w.blade(1, Poly.sym("t")), "inv")))
        check(w, "a**3 == a*a*a", lambda: w.call(a, "__pow__", 3),
              lambda: mul(mul(a, a), a))
        # -- construction from index tuples: order normalised with its sign
        if n >= 2:
            it = w.interp()
            t_ = Poly.sym("t")
            check(w, "MultiVector({(1, 0): t}) == -MultiVector({(0, 1): t})",
                  lambda: w.make(it, None, [{(1, 0): t_}, w.space], {}),
                  lambda: w.call(w.make(it, None, [{(0, 1): t_}, w.space], {}),
                                 "__neg__"))
            check(w, "MultiVector({(0, 1): t}) is t * e0^e1",
                  lambda: w.make(it, None, [{(0, 1): t_}, w.space], {}),
                  lambda: w.call(w.blade(1, t_), "__xor__", w.blade(2)))
        if n >= 3:
            it = w.interp()
            t_ = Poly.sym("t")
            check(w, "MultiVector({(2, 0, 1): t}) == +t * e0^e1^e2 (even "
                  "permutation)",
                  lambda: w.make(it, None, [{(2, 0, 1): t_}, w.space], {}),
                  lambda: w.blade(7, t_))
            check(w, "MultiVector({(0, 1): t, (1, 0): u}) merges to (t - u)",
                  lambda: w.make(it, None, [{(0, 1): t_, (1, 0): Poly.sym("u")},
                                            w.space], {}),
                  lambda: w.blade(3, t_ - Poly.sym("u")))
        # -- grade structure
        check(w, "sum of all grade parts == a",
              lambda: _sum_parts(w, a), lambda: a)
        check(w, "odd(a) + even(a) == a",
              lambda: add(w.call(a, "odd"), w.call(a, "even")), lambda: a)
        # -- commutator
        check(w, "a x b == (a*b - b*a)/2", lambda: w.call(a, "x", b),
              lambda: w.call(w.call(mul(a, b), "__sub__", mul(b, a)),
                             "__rmul__", Poly.const(1) * Poly.lift(1) *
                             Poly({(): __import__("fractions").Fraction(1, 2)})))
    return wit, n_id[0]


def _sum_parts(w, a):
    tot = w.call(a, "project", 0)
    for k in range(1, w.n + 1):
        tot = w.call(tot, "__add__", w.call(a, "project", k))
    return tot
