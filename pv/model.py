"""Program model: classes, C3 MRO, alias resolution, node table, dispatch."""
from __future__ import annotations

import ast
import re
from dataclasses import dataclass, field
from functools import cached_property

from . import AnalysisError
from .repo import Module, Repo


# ---------------------------------------------------------------------------
# classes
# ---------------------------------------------------------------------------

@dataclass(eq=False)
class Member:
    name: str
    kind: str          # "func" | "alias" | "value" | "ann"
    node: ast.AST      # FunctionDef | value expr | AnnAssign
    owner: "ClassInfo"
    decorators: tuple = ()

    @property
    def is_property(self):
        return self.kind == "func" and any(
            d in ("property", "cached_property", "_classproperty",
                  "memoize_method")
            and d != "memoize_method" for d in self.decorators)


@dataclass(eq=False)
class ClassInfo:
    module: Module
    name: str
    node: ast.ClassDef
    members: dict = field(default_factory=dict)   # name -> Member (last wins)
    bases: list = field(default_factory=list)     # ClassInfo | str
    decorators: list = field(default_factory=list)

    @property
    def key(self):
        return f"{self.module.name}:{self.name}"

    def __repr__(self):
        return f"<class {self.key}>"

    def loc(self, node=None):
        return self.module.loc(node or self.node)


def _partialmethod_as_function(name, value, ci):
    """`name = partialmethod(method, k=v, ...)` in a class body, *method* a
    function defined earlier in the same body: the equivalent
        def name(self, <remaining parameters>):
            return self.method(<remaining parameters>, k=v, ...)
    as a synthetic FunctionDef (positional bindings are not supported)"""
    if not (isinstance(value, ast.Call) and ast.unparse(value.func).split(
            ".")[-1] == "partialmethod" and value.args and isinstance(
            value.args[0], ast.Name) and len(value.args) == 1):
        return None
    tgt = ci.members.get(value.args[0].id)
    if tgt is None or tgt.kind != "func":
        return None
    f = tgt.node
    bound = {k.arg for k in value.keywords if k.arg}
    if len(bound) != len(value.keywords):
        return None
    import copy
    pos = [a for a in f.args.args if a.arg not in bound]
    kwonly = [a for a in f.args.kwonlyargs if a.arg not in bound]
    call_args = [ast.Name(id=a.arg, ctx=ast.Load()) for a in pos[1:]]
    if f.args.vararg:
        call_args.append(ast.Starred(value=ast.Name(id=f.args.vararg.arg,
                                                    ctx=ast.Load()),
                                     ctx=ast.Load()))
    kws = [ast.keyword(arg=a.arg, value=ast.Name(id=a.arg, ctx=ast.Load()))
           for a in kwonly] + [copy.deepcopy(k) for k in value.keywords]
    if f.args.kwarg:
        kws.append(ast.keyword(arg=None, value=ast.Name(id=f.args.kwarg.arg,
                                                        ctx=ast.Load())))
    selfname = f.args.args[0].arg
    body = ast.Return(value=ast.Call(
        func=ast.Attribute(value=ast.Name(id=selfname, ctx=ast.Load()),
                           attr=f.name, ctx=ast.Load()),
        args=call_args, keywords=kws))
    kw_defaults = [d for a, d in zip(f.args.kwonlyargs, f.args.kw_defaults)
                   if a.arg not in bound]
    n_def = len(f.args.defaults)
    defaults = list(f.args.defaults) if all(
        a.arg not in bound for a in f.args.args[len(f.args.args) - n_def:]) \
        else []
    new = ast.FunctionDef(
        name=name, args=ast.arguments(
            posonlyargs=[], args=copy.deepcopy(pos), vararg=copy.deepcopy(
                f.args.vararg), kwonlyargs=copy.deepcopy(kwonly),
            kw_defaults=copy.deepcopy(kw_defaults),
            kwarg=copy.deepcopy(f.args.kwarg),
            defaults=copy.deepcopy(defaults)),
        body=[body], decorator_list=[], returns=None)
    ast.copy_location(new, value)
    ast.fix_missing_locations(new)
    for n_ in ast.walk(new):
        if not hasattr(n_, "lineno"):
            n_.lineno = value.lineno
            n_.col_offset = value.col_offset
    return new


def _decorator_name(d):
    if isinstance(d, ast.Call):
        d = d.func
    if isinstance(d, ast.Name):
        return d.id
    if isinstance(d, ast.Attribute):
        return d.attr
    return ast.unparse(d)


class Model:
    def __init__(self, repo: Repo | None = None):
        self.repo = repo or Repo()
        self.classes: dict[str, ClassInfo] = {}
        self.by_name: dict[str, list[ClassInfo]] = {}
        self.functions: dict[str, tuple[Module, ast.FunctionDef]] = {}
        self.module_assigns: dict[str, tuple[Module, ast.AST]] = {}
        for m in self.repo.modules.values():
            self._scan_module(m)
        for c in self.classes.values():
            c.bases = [self._resolve_base(c, b) for b in c.node.bases]
        self._mro_cache: dict[str, list] = {}
        self._owner_map = None
        self._inliners = {}
        from . import summary as _summary
        _summary.set_inline_hook(self.inlined)

    # -- helper inlining (pv/inline.py) --------------------------------------
    def _owners(self):
        if self._owner_map is None:
            om = {}
            for key, (m, fn) in self.functions.items():
                for n in ast.walk(fn):
                    if isinstance(n, ast.FunctionDef):
                        om.setdefault(id(n), (m, None))
            for c in self.classes.values():
                for mem in c.members.values():
                    if mem.kind == "func":
                        for n in ast.walk(mem.node):
                            if isinstance(n, ast.FunctionDef):
                                om[id(n)] = (c.module, c)
            self._owner_map = om
        return self._owner_map

    def inliner_for(self, fn):
        """the Inliner for the module/class a function lives in (None if the
        function is not part of the package source, e.g. synthesised)"""
        own = self._owners().get(id(fn))
        if own is None:
            return None
        m, c = own
        key = (m.name, c.key if c is not None else None)
        if key not in self._inliners:
            from .inline import Inliner
            mf = {k.split(":", 1)[1]: f for k, (mm, f) in self.functions.items()
                  if mm is m}
            cm = {}
            if c is not None:
                for k in reversed([x for x in self.mro(c)
                                   if not isinstance(x, str)]):
                    for name, mem in k.members.items():
                        if mem.kind == "func":
                            cm[name] = mem.node
            self._inliners[key] = Inliner(mf, cm)
        return self._inliners[key]

    def inlined(self, fn):
        inl = self.inliner_for(fn)
        return fn if inl is None else inl.apply(fn)

    # -- scanning ----------------------------------------------------------
    def _scan_module(self, m: Module):
        def scan_body(body, prefix=""):
            for st in body:
                if isinstance(st, ast.ClassDef):
                    ci = ClassInfo(m, prefix + st.name, st)
                    ci.decorators = list(st.decorator_list)
                    self._scan_class(ci)
                    self.classes[ci.key] = ci
                    self.by_name.setdefault(ci.name, []).append(ci)
                elif isinstance(st, (ast.FunctionDef, ast.AsyncFunctionDef)):
                    self.functions[f"{m.name}:{st.name}"] = (m, st)
                elif isinstance(st, ast.Assign):
                    for t in st.targets:
                        if isinstance(t, ast.Name):
                            self.module_assigns[f"{m.name}:{t.id}"] = (m, st.value)
                elif isinstance(st, ast.AnnAssign) and st.value is not None:
                    if isinstance(st.target, ast.Name):
                        self.module_assigns[f"{m.name}:{st.target.id}"] = (
                            m, st.value)
                elif isinstance(st, (ast.If, ast.Try)):
                    scan_body(st.body, prefix)
                    for h in getattr(st, "handlers", []):
                        scan_body(h.body, prefix)
                    scan_body(st.orelse, prefix)
        scan_body(m.tree.body)

    def _scan_class(self, ci: ClassInfo):
        def scan(body):
            for st in body:
                if isinstance(st, (ast.FunctionDef, ast.AsyncFunctionDef)):
                    ci.members[st.name] = Member(
                        st.name, "func", st, ci,
                        tuple(_decorator_name(d) for d in st.decorator_list))
                elif isinstance(st, ast.Assign):
                    for t in st.targets:
                        if isinstance(t, ast.Name):
                            pm = _partialmethod_as_function(t.id, st.value, ci)
                            if pm is not None:
                                ci.members[t.id] = Member(t.id, "func", pm, ci)
                                continue
                            kind = "alias" if isinstance(
                                st.value, (ast.Name, ast.Attribute)) else "value"
                            ci.members[t.id] = Member(t.id, kind, st.value, ci)
                elif isinstance(st, ast.AnnAssign):
                    if isinstance(st.target, ast.Name):
                        ci.members[st.target.id] = Member(
                            st.target.id, "ann", st, ci)
                elif isinstance(st, ast.If):
                    # e.g. "if not TYPE_CHECKING:" blocks in class bodies
                    scan(st.body)
                    scan(st.orelse)
        scan(ci.node.body)

    # -- name resolution -----------------------------------------------------
    def resolve_in_module(self, m: Module, expr: ast.AST, _depth=0):
        """Resolve a Name/Attribute expression appearing in module *m* to a
        ClassInfo, ("func", Module, FunctionDef), ("module", name),
        ("value", Module, node) or None (external/unknown)."""
        if _depth > 8:
            return None
        if isinstance(expr, ast.Name):
            key = f"{m.name}:{expr.id}"
            if key in self.classes:
                return self.classes[key]
            if key in self.functions:
                return ("func",) + self.functions[key]
            if key in self.module_assigns:
                mm, val = self.module_assigns[key]
                if isinstance(val, (ast.Name, ast.Attribute)):
                    r = self.resolve_in_module(mm, val, _depth + 1)
                    if r is not None:
                        return r
                return ("value", mm, val)
            imp = m.imports.get(expr.id)
            if imp is None:
                return None
            if imp[0] == "module":
                return ("module", imp[1])
            _, modname, attr = imp
            sub = f"{modname}.{attr}"
            if sub in self.repo.modules:
                return ("module", sub)
            if modname in self.repo.modules:
                return self.resolve_in_module(
                    self.repo.modules[modname], ast.Name(id=attr), _depth + 1)
            return ("external", f"{modname}.{attr}")
        if isinstance(expr, ast.Attribute):
            base = self.resolve_in_module(m, expr.value, _depth + 1)
            if isinstance(base, tuple) and base[0] == "module":
                sub = f"{base[1]}.{expr.attr}"
                if sub in self.repo.modules:
                    return ("module", sub)
                if base[1] in self.repo.modules:
                    return self.resolve_in_module(
                        self.repo.modules[base[1]], ast.Name(id=expr.attr),
                        _depth + 1)
                return ("external", sub)
            if isinstance(base, ClassInfo):
                mem = self.lookup(base, expr.attr)
                if mem is not None:
                    return ("member", mem)
            if isinstance(base, tuple) and base[0] == "external":
                return ("external", base[1] + "." + expr.attr)
            return None
        return None

    def _resolve_base(self, c: ClassInfo, b: ast.AST):
        r = self.resolve_in_module(c.module, b)
        if isinstance(r, ClassInfo):
            return r
        return ast.unparse(b)

    def cls(self, key: str) -> ClassInfo:
        try:
            return self.classes[key]
        except KeyError:
            raise AnalysisError(f"anchor class {key} not found") from None

    def func(self, key: str):
        try:
            return self.functions[key]
        except KeyError:
            raise AnalysisError(f"anchor function {key} not found") from None

    # -- MRO -----------------------------------------------------------------
    def mro(self, c: ClassInfo) -> list:
        if c.key in self._mro_cache:
            return self._mro_cache[c.key]
        seqs = []
        for b in c.bases:
            if isinstance(b, ClassInfo):
                seqs.append(list(self.mro(b)))
            else:
                seqs.append([b])
        seqs.append(list(c.bases))
        res = [c]
        seqs = [s for s in seqs if s]
        while seqs:
            for s in seqs:
                cand = s[0]
                if not any(_in_tail(cand, t) for t in seqs):
                    break
            else:
                raise AnalysisError(f"inconsistent MRO for {c.key}")
            res.append(cand)
            for s in seqs:
                if s and _same(s[0], cand):
                    del s[0]
            seqs = [s for s in seqs if s]
        self._mro_cache[c.key] = res
        return res

    def is_subclass(self, c: ClassInfo, base: ClassInfo) -> bool:
        return any(x is base for x in self.mro(c))

    def subclasses(self, base: ClassInfo) -> list:
        return [c for c in self.classes.values() if self.is_subclass(c, base)]

    # -- member lookup ---------------------------------------------------------
    def lookup(self, c: ClassInfo, name: str, _depth=0) -> Member | None:
        """Attribute lookup through the MRO, following class-body aliases."""
        for k in self.mro(c):
            if isinstance(k, ClassInfo) and name in k.members:
                mem = k.members[name]
                return self._deref(mem, c, _depth)
        return None

    def lookup_raw(self, c: ClassInfo, name: str) -> Member | None:
        for k in self.mro(c):
            if isinstance(k, ClassInfo) and name in k.members:
                return k.members[name]
        return None

    def _deref(self, mem: Member, start: ClassInfo, depth=0) -> Member:
        if mem.kind != "alias" or depth > 10:
            return mem
        v = mem.node
        if isinstance(v, ast.Name):
            if v.id in mem.owner.members and mem.owner.members[v.id] is not mem:
                return self._deref(mem.owner.members[v.id], start, depth + 1)
            # class-body alias to an *earlier* definition shadowed later:
            # search the class body in order
            cand = self._earlier_def(mem.owner, v.id, mem.node)
            if cand is not None:
                return cand
            return mem
        if isinstance(v, ast.Attribute):
            r = self.resolve_in_module(mem.owner.module, v)
            if isinstance(r, tuple) and r[0] == "member":
                return r[1]
        return mem

    def _earlier_def(self, owner, name, before_node):
        last = None
        for st in owner.node.body:
            if getattr(st, "lineno", 0) >= getattr(before_node, "lineno", 0):
                break
            if isinstance(st, ast.FunctionDef) and st.name == name:
                last = Member(name, "func", st, owner,
                              tuple(_decorator_name(d)
                                    for d in st.decorator_list))
        return last

    def method(self, c: ClassInfo, name: str):
        """(owner, FunctionDef) or None."""
        mem = self.lookup(c, name)
        if mem is not None and mem.kind == "func":
            return mem.owner, mem.node
        return None

    def require_method(self, ckey: str, name: str):
        c = self.cls(ckey)
        r = self.method(c, name)
        if r is None:
            raise AnalysisError(f"anchor method {ckey}.{name} not found")
        return r

    def slots(self, c: ClassInfo, prefix="map_") -> dict:
        """name -> Member for all names with *prefix* visible on class c."""
        out = {}
        for k in reversed(self.mro(c)):
            if isinstance(k, ClassInfo):
                for n in k.members:
                    if n.startswith(prefix):
                        out[n] = None
        for n in out:
            out[n] = self.lookup(c, n)
        return out

    def own_slots(self, c: ClassInfo, prefix="map_") -> list:
        return [n for n in c.members if n.startswith(prefix)]

    # -- node table ------------------------------------------------------------
    @cached_property
    def nodes(self) -> "NodeTable":
        return NodeTable(self)


def _same(a, b):
    return a is b or (isinstance(a, str) and isinstance(b, str) and a == b)


def _in_tail(cand, seq):
    return any(_same(cand, x) for x in seq[1:])


# ---------------------------------------------------------------------------
# node table
# ---------------------------------------------------------------------------

CHILD, CHILD_TUPLE, CHILD_MAP, DATA = "child", "child-tuple", "child-map", "data"


@dataclass(eq=False)
class NodeClass:
    cls: ClassInfo
    decorated: bool
    hash_enabled: bool
    fields: list            # [(name, kind, annotation_src)] in dataclass order
    legacy: bool
    mapper_method: str | None
    mapper_method_explicit: bool
    attrs: set              # every attribute name readable off an instance

    @property
    def name(self):
        return self.cls.name

    @property
    def key(self):
        return self.cls.key

    def field_kind(self, f):
        for n, k, _ in self.fields:
            if n == f:
                return k
        return None

    @property
    def field_names(self):
        return [n for n, _, _ in self.fields]

    @property
    def child_fields(self):
        return [n for n, k, _ in self.fields if k != DATA]


class NodeTable:
    def __init__(self, model: Model):
        self.model = model
        self.expression = model.cls("pymbolic.primitives:Expression")
        self.extra_roots = [model.cls("pymbolic.geometric_algebra:MultiVector")]
        prim = model.repo.module("pymbolic.primitives")
        self._camel_re, self._template = self._extract_derivation(prim)
        self.table: dict[str, NodeClass] = {}
        for c in model.classes.values():
            if model.is_subclass(c, self.expression) and c is not self.expression:
                self.table[c.key] = self._build(c)
        for c in self.extra_roots:
            self.table[c.key] = self._build(c)

    # derivation rule read from the source -----------------------------------
    def _extract_derivation(self, prim: Module):
        model = self.model
        key = "pymbolic.primitives:_CAMEL_TO_SNAKE_RE"
        if key not in model.module_assigns:
            raise AnalysisError("anchor _CAMEL_TO_SNAKE_RE not found")
        call = model.module_assigns[key][1]
        if not (isinstance(call, ast.Call) and ast.unparse(call.func) ==
                "re.compile" and call.args
                and isinstance(call.args[0], ast.Constant)):
            raise AnalysisError("_CAMEL_TO_SNAKE_RE is not re.compile(<literal>)")
        flags = 0
        for a in call.args[1:]:
            for n in ast.walk(a):
                if isinstance(n, ast.Attribute) and isinstance(n.value, ast.Name) \
                        and n.value.id == "re":
                    flags |= getattr(re, n.attr)
        rx = re.compile(call.args[0].value, flags)
        _, fn = model.func("pymbolic.primitives:_augment_expression_dataclass")
        # the value stored into cls.mapper_method, as assembled text:
        #   [intern(]  <prefix> + RE.sub(<sep>, cls.__name__)[.lower()] + <suffix>
        from .rules import text_parts
        from .summary import summarize
        cls_p = ("param", fn.args.args[0].arg)
        found = None
        guarded = True
        n_writes = 0
        for ps in summarize(fn, plain=True):
            for e in ps.events:
                if not (e.kind == "attrwrite" and e.name == "mapper_method"):
                    continue
                n_writes += 1
                v = e.value
                if isinstance(v, tuple) and v[0] == "call" and \
                        v[1].split(".")[-1] == "intern" and len(v[2]) == 1:
                    v = v[2][0]
                found = v
                # written only when the class does not set it itself
                notin = False
                for _, pol, c in ps.conds:
                    while isinstance(c, tuple) and c[0] == "unop" and \
                            c[1] == "Not":
                        c, pol = c[2], not pol
                    if isinstance(c, tuple) and c[0] == "compare" and \
                            c[2] == ("const", "mapper_method") and \
                            c[3] in ((("attr", cls_p, "__dict__"),),
                                     (("call", "vars", (cls_p,), ()),)):
                        if (c[1] == ("In",) and not pol) or \
                                (c[1] == ("NotIn",) and pol):
                            notin = True
                guarded = guarded and notin
        if found is None:
            raise AnalysisError("mapper_method derivation: no assignment to "
                                "cls.mapper_method found")
        parts = text_parts(found)
        core = [p_ for p_ in (parts or []) if p_[0] != "const"]
        if parts is None or len(core) != 1 or not self._shape_known(core[0]):
            # not the spelling known: the statements that compute the stored
            # value are interpreted for a class of a given name
            self._derive = self._derivation_by_interpretation(prim, fn, rx)
            self.derivation_from_name = True
            self.derivation_source = "cls.__name__"
            self.derivation_line = fn.lineno
            self.replaces_inherited = guarded
            if not guarded:
                raise AnalysisError(
                    "cls.mapper_method is assigned on a path that has not "
                    "established \"'mapper_method' not in cls.__dict__\"")
            return rx, None
        i = parts.index(core[0])
        prefix = "".join(p_[1] for p_ in parts[:i])
        suffix = "".join(p_[1] for p_ in parts[i + 1:])
        c = core[0]
        lower = False
        if c[0] == "call" and len(c) >= 5 and c[4][0] == "recv" and \
                c[4][2] == "lower" and not c[2]:
            lower = True
            c = c[4][1]
        if not (c[0] == "call" and c[1] == "_CAMEL_TO_SNAKE_RE.sub"
                and len(c[2]) == 2 and c[2][0][0] == "const"):
            raise AnalysisError("mapper_method derivation idiom not recognised")
        sep = c[2][0][1]
        srcv = c[2][1]
        # recorded, judged by C04 (rule N2): module-level classes have
        # __qualname__ == __name__, so the rest of the model is unaffected
        self.derivation_from_name = srcv == ("attr", cls_p, "__name__")
        self.derivation_source = (f"cls.{srcv[2]}" if srcv[0] == "attr"
                                  and srcv[1] == cls_p else str(srcv))
        self.derivation_line = next(
            (n.lineno for n in ast.walk(fn) if isinstance(n, ast.Call)
             and ast.unparse(n.func) == "_CAMEL_TO_SNAKE_RE.sub"), fn.lineno)
        self._sep, self._lower = sep, lower
        self._prefix, self._suffix = prefix, suffix
        self.replaces_inherited = guarded
        if not self.replaces_inherited:
            raise AnalysisError(
                "cls.mapper_method is assigned on a path that has not "
                "established \"'mapper_method' not in cls.__dict__\"")
        return rx, None

    @staticmethod
    def _shape_known(c):
        if c[0] == "call" and len(c) >= 5 and c[4][0] == "recv" and \
                c[4][2] == "lower" and not c[2]:
            c = c[4][1]
        return (c[0] == "call" and c[1] == "_CAMEL_TO_SNAKE_RE.sub"
                and len(c[2]) == 2 and c[2][0][0] == "const")

    def _derivation_by_interpretation(self, prim, fn, rx):
        """-> name -> handler name, by interpreting (pv/absint.py) the
        backward slice of the value stored into cls.mapper_method for a class
        object that has that __name__ (the compiled pattern is Python's own
        `re` on the literal read from the source; nothing of the repository
        runs)"""
        from .absint import Interp, Obj, Opaque, Raised, StepBound, module_env
        cls_p = fn.args.args[0].arg
        target = None
        for st in ast.walk(fn):
            tg = None
            if isinstance(st, ast.Assign) and len(st.targets) == 1:
                tg, val = st.targets[0], st.value
            elif isinstance(st, ast.Expr) and isinstance(st.value, ast.Call) \
                    and ast.unparse(st.value.func) in (
                        "setattr", "type.__setattr__") and \
                    len(st.value.args) == 3 and isinstance(
                        st.value.args[1], ast.Constant) and \
                    st.value.args[1].value == "mapper_method":
                target = st.value.args[2]
                continue
            if isinstance(tg, ast.Attribute) and tg.attr == "mapper_method":
                target = val
        if target is None:
            raise AnalysisError("mapper_method derivation idiom not recognised")
        # the simple local definitions the value depends on, in source order
        defs = [st for st in ast.walk(fn) if isinstance(st, ast.Assign)
                and len(st.targets) == 1 and isinstance(st.targets[0], ast.Name)]
        defs.sort(key=lambda st: st.lineno)
        need = {x.id for x in ast.walk(target) if isinstance(x, ast.Name)}
        chain = []
        for st in reversed(defs):
            if st.targets[0].id in need and st.lineno < target.lineno:
                chain.append(st)
                need |= {x.id for x in ast.walk(st.value)
                         if isinstance(x, ast.Name)}
        chain.reverse()
        glob = module_env(prim.tree, {})
        glob["_CAMEL_TO_SNAKE_RE"] = rx
        glob["intern"] = lambda s_: s_
        glob["sys"] = Opaque("module sys")

        def attrs(it, node, base, attr):
            if isinstance(base, Opaque) and base.what == "module sys" and \
                    attr == "intern":
                return lambda s_: s_
            if base is rx and attr in ("sub", "split", "findall", "subn"):
                return getattr(rx, attr)
            return Opaque(ast.unparse(node))

        def derive(name):
            it = Interp(globals_=glob, attrs=attrs, max_steps=3000,
                        calls={"intern": lambda it_, nd, a, k: a[0],
                               "sys.intern": lambda it_, nd, a, k: a[0]})
            env = dict(glob)
            env[cls_p] = Obj("__class__", {"__name__": name,
                                           "__qualname__": name})
            try:
                for st in chain:
                    env[st.targets[0].id] = it.eval(st.value, env)
                v = it.eval(target, env)
            except (Raised, StepBound) as e:
                raise AnalysisError("mapper_method derivation: interpreting "
                                    f"it for '{name}' fails ({e!r})")
            if not isinstance(v, str):
                raise AnalysisError("mapper_method derivation: not a string "
                                    f"for '{name}' ({v!r})")
            return v
        # the function must behave like a name derivation on a probe
        probe = derive("ProbeNodeClass")
        if not isinstance(probe, str) or not probe:
            raise AnalysisError("mapper_method derivation idiom not recognised")
        return derive

    def derive_mapper_method(self, clsname: str) -> str:
        if getattr(self, "_derive", None) is not None:
            return self._derive(clsname)
        s = self._camel_re.sub(self._sep, clsname)
        if self._lower:
            s = s.lower()
        return self._prefix + s + self._suffix

    # ---------------------------------------------------------------------
    def _decoration(self, c: ClassInfo):
        for d in c.decorators:
            if _decorator_name(d) == "expr_dataclass":
                hash_enabled = True
                init = True
                if isinstance(d, ast.Call):
                    for kw in d.keywords:
                        if kw.arg == "hash" and isinstance(kw.value, ast.Constant):
                            hash_enabled = bool(kw.value.value)
                return True, hash_enabled
        return False, False

    def _own_fields(self, c: ClassInfo):
        out = []
        for st in c.node.body:
            if isinstance(st, ast.AnnAssign) and isinstance(st.target, ast.Name):
                ann = ast.unparse(st.annotation)
                if ann.startswith("ClassVar") or "ClassVar[" in ann:
                    continue
                out.append((st.target.id, _field_kind(ann), ann))
        return out

    def _build(self, c: ClassInfo) -> NodeClass:
        model = self.model
        decorated, hash_enabled = self._decoration(c)
        fields: list = []
        if decorated:
            # dataclass field order: bases in reverse MRO, own last,
            # only from bases that are dataclasses themselves
            seen = {}
            for k in reversed(model.mro(c)):
                if isinstance(k, ClassInfo) and self._decoration(k)[0]:
                    for n, kind, ann in self._own_fields(k):
                        seen[n] = (n, kind, ann)
            fields = list(seen.values())
        legacy = False
        attrs: set = set()
        if not decorated:
            # legacy init-args protocol: field names from __getinitargs__
            gm = model.method(c, "__getinitargs__")
            if gm and gm[0] is not self.expression and not self._decoration(gm[0])[0]:
                legacy = True
                names = []
                for n in ast.walk(gm[1]):
                    if isinstance(n, ast.Return) and n.value is not None:
                        elts = n.value.elts if isinstance(
                            n.value, (ast.Tuple, ast.List)) else [n.value]
                        for e in elts:
                            if isinstance(e, ast.Attribute) and isinstance(
                                    e.value, ast.Name) and e.value.id == "self":
                                names.append(e.attr)
                fields = [(n, DATA, "legacy") for n in names]
            else:
                # undecorated subclass of a decorated class
                for k in model.mro(c):
                    if isinstance(k, ClassInfo) and self._decoration(k)[0]:
                        fields = list(self._build_fields_of(k))
                        break
        # attribute universe
        for k in model.mro(c):
            if isinstance(k, ClassInfo):
                attrs.update(k.members)
                init = k.members.get("__init__")
                for fnm in k.members.values():
                    if fnm.kind == "func":
                        for n in ast.walk(fnm.node):
                            if isinstance(n, ast.Attribute) and isinstance(
                                    n.ctx, ast.Store) and isinstance(
                                    n.value, ast.Name) and n.value.id == "self":
                                attrs.add(n.attr)
        attrs.update(n for n, _, _ in fields)
        # generated by the augmentation
        attrs.update({"init_arg_names", "__getinitargs__", "__getstate__",
                      "__setstate__", "__eq__", "__hash__", "mapper_method",
                      "__class__", "__dict__", "_hash_value"})
        mm, explicit = self._mapper_method(c, decorated)
        return NodeClass(c, decorated, hash_enabled, fields, legacy, mm,
                         explicit, attrs)

    def _build_fields_of(self, k):
        seen = {}
        for kk in reversed(self.model.mro(k)):
            if isinstance(kk, ClassInfo) and self._decoration(kk)[0]:
                for n, kind, ann in self._own_fields(kk):
                    seen[n] = (n, kind, ann)
        return seen.values()

    def _mapper_method(self, c: ClassInfo, decorated: bool):
        own = c.members.get("mapper_method")
        if own is not None and own.kind in ("value", "alias"):
            v = own.node
            s = _const_str(v)
            if s is None:
                raise AnalysisError(
                    f"{c.loc(v)}: mapper_method of {c.name} is not a literal")
            return s, True
        if decorated:
            return self.derive_mapper_method(c.name), False
        # inherited
        for k in self.model.mro(c)[1:]:
            if isinstance(k, ClassInfo):
                own = k.members.get("mapper_method")
                if own is not None and own.kind in ("value", "alias"):
                    return _const_str(own.node), False
                if self._decoration(k)[0]:
                    return self.derive_mapper_method(k.name), False
        return None, False

    # ---------------------------------------------------------------------
    def get(self, key_or_name: str) -> NodeClass:
        if key_or_name in self.table:
            return self.table[key_or_name]
        cands = [n for n in self.table.values() if n.name == key_or_name]
        if len(cands) == 1:
            return cands[0]
        prim = [n for n in cands if n.cls.module.name == "pymbolic.primitives"]
        if len(prim) == 1:
            return prim[0]
        raise AnalysisError(f"node class {key_or_name} not found or ambiguous")

    def all(self):
        return list(self.table.values())

    def by_mapper_method(self, name: str) -> list:
        return [n for n in self.table.values() if n.mapper_method == name]

    def ancestors(self, n: NodeClass) -> list:
        """node classes in MRO order after n itself"""
        out = []
        for k in self.model.mro(n.cls)[1:]:
            if isinstance(k, ClassInfo) and k.key in self.table:
                out.append(self.table[k.key])
        return out


def _const_str(v):
    if isinstance(v, ast.Constant) and isinstance(v.value, str):
        return v.value
    if isinstance(v, ast.Call) and ast.unparse(v.func) in ("intern", "sys.intern") \
            and v.args and isinstance(v.args[0], ast.Constant):
        return v.args[0].value
    return None


def _field_kind(ann: str) -> str:
    a = ann.replace(" ", "").replace("\n", "")
    if a == "ExpressionT" or a == "ArithmeticExpressionT":
        return CHILD
    if a.startswith("tuple[") and "ExpressionT" in a:
        return CHILD_TUPLE
    if a.startswith("(tuple[") and "ExpressionT" in a:
        return CHILD_TUPLE
    if a.startswith("Mapping[") and "ExpressionT" in a:
        return CHILD_MAP
    return DATA


# ---------------------------------------------------------------------------
# dispatch relation
# ---------------------------------------------------------------------------

@dataclass(eq=False)
class Resolution:
    mapper: ClassInfo
    node: NodeClass
    via: str                 # "own" | "ancestor:<Class>" | "unsupported"
    slot: str                # handler name looked up on the mapper
    member: Member | None    # resolved member (after aliases)

    @property
    def owner(self):
        return self.member.owner if self.member else None

    @property
    def func(self):
        return self.member.node if self.member and self.member.kind == "func" \
            else None


def dispatch(model: Model, mapper: ClassInfo, node: NodeClass) -> Resolution:
    """handler(M, N) as defined by Mapper.__call__ (structure checked by D1/D2)."""
    mm = node.mapper_method
    if mm:
        mem = model.lookup(mapper, mm)
        if mem is not None and not _is_none(mem):
            return Resolution(mapper, node, "own", mm, mem)
    if model.is_subclass(node.cls, model.nodes.expression):
        for anc in model.nodes.ancestors(node):
            if anc.mapper_method:
                mem = model.lookup(mapper, anc.mapper_method)
                if mem is not None and not _is_none(mem):
                    return Resolution(mapper, node, f"ancestor:{anc.name}",
                                      anc.mapper_method, mem)
        mem = model.lookup(mapper, "handle_unsupported_expression")
        return Resolution(mapper, node, "unsupported",
                          "handle_unsupported_expression", mem)
    mem = model.lookup(mapper, "map_foreign")
    return Resolution(mapper, node, "foreign", "map_foreign", mem)


def _is_none(mem: Member):
    return mem.kind == "value" and isinstance(mem.node, ast.Constant) \
        and mem.node.value is None


def delegation_target(fn: ast.FunctionDef):
    """If the handler body is `return self.<other>(expr, *args, **kwargs)`
    return <other>, else None."""
    body = [s for s in fn.body if not _is_docstring(s)]
    if len(body) != 1 or not isinstance(body[0], ast.Return):
        return None
    v = body[0].value
    if isinstance(v, ast.Call) and isinstance(v.func, ast.Attribute) \
            and isinstance(v.func.value, ast.Name) and v.func.value.id == "self" \
            and v.func.attr.startswith("map_"):
        params = [a.arg for a in fn.args.args]
        if len(params) >= 2 and v.args and isinstance(v.args[0], ast.Name) \
                and v.args[0].id == params[1]:
            return v.func.attr
    return None


def _is_docstring(s):
    return isinstance(s, ast.Expr) and isinstance(s.value, ast.Constant) \
        and isinstance(s.value.value, str)


def resolve_handler(model: Model, mapper: ClassInfo, node: NodeClass,
                    max_hops=6):
    """Follow dispatch then handler-to-handler delegation.  Returns
    (Resolution, [slot names followed], final Member)."""
    res = dispatch(model, mapper, node)
    chain = [res.slot]
    mem = res.member
    hops = 0
    while mem is not None and mem.kind == "func" and hops < max_hops:
        tgt = delegation_target(mem.node)
        if tgt is None:
            break
        nxt = model.lookup(mapper, tgt)
        if nxt is None:
            break
        chain.append(tgt)
        mem = nxt
        hops += 1
    return res, chain, mem


def body_without_docstring(fn):
    return [s for s in fn.body if not _is_docstring(s)]


def always_raises(fn: ast.FunctionDef) -> bool:
    """Every path through the body ends in raise (simple structural check)."""
    return _block_raises(body_without_docstring(fn))


def _block_raises(stmts) -> bool:
    for s in stmts:
        if isinstance(s, ast.Raise):
            return True
        if isinstance(s, ast.If):
            if s.orelse and _block_raises(s.body) and _block_raises(s.orelse):
                return True
        if isinstance(s, ast.Return):
            return False
    return False
