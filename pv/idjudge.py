"""Interpretive judge for identity-style handlers (rule family F).

The handler `map_<node>(self, expr, *args, **kwargs)` of an identity-style
mapper is interpreted (pv/absint.py) on an abstract node of the class it
serves: child fields hold opaque tokens, tuple-valued fields two of them,
mapping-valued fields two named ones, data fields a constant.  `self.rec` is
a hook: it records what it was called with and answers either the very token
it was given ("nothing below changed") or a fresh token standing for the
mapped child.  Checked, whatever the handler is written like (helpers,
single-pass flags, comprehensions, early returns):

* when every child comes back as it went in, the handler returns the node
  object it was given;
* when some children come back changed, it returns a node of the same class
  whose child fields hold exactly the mapped children, in place and in order,
  and whose data fields are the original ones;
* every child is handed to rec exactly once, with the extra arguments the
  handler received, unchanged.

Nothing of the repository is executed; what the interpreter cannot read ends
the judge (AnalysisError) and the structural rule F decides alone.
"""
from __future__ import annotations

import ast
import itertools

from . import AnalysisError
from .absint import Interp, Obj, Opaque, Raised, StepBound, module_env
from .model import ClassInfo

from .model import CHILD, CHILD_MAP, CHILD_TUPLE  # noqa: E402


class Tok:
    def __init__(self, name, origin=None):
        self.name, self.origin = name, origin

    def __repr__(self):
        return self.name


class FalsyTok(Tok):
    """a child that is false in a boolean context without being None (a
    product with a zero factor, a quotient with a zero numerator): a handler
    that drops children by truthiness loses it"""

    def __bool__(self):
        return False


class Data:
    """the value of a data field: handed through untouched, compared by
    identity"""

    def __init__(self, name):
        self.name = name

    def __repr__(self):
        return f"<data {self.name}>"


class ClsRef:
    def __init__(self, n):
        self.n = n

    def __eq__(self, o):
        return isinstance(o, ClsRef) and o.n is self.n

    def __hash__(self):
        return hash(self.n.name)


def _positions(n, kinds):
    """[(field, kind, slot)] -- the child slots of the abstract node"""
    out = []
    for f in n.field_names:
        k = kinds.get(f)
        if k == CHILD:
            out.append((f, None))
        elif k == CHILD_TUPLE:
            out += [(f, 0), (f, 1)]
        elif k == CHILD_MAP:
            out += [(f, "k1"), (f, "k2")]
    return out


def _make(n, kinds, tuple_len=2):
    fields = {}
    for f in n.field_names:
        k = kinds.get(f)
        if k == CHILD:
            fields[f] = Tok(f)
        elif k == CHILD_TUPLE:
            fields[f] = tuple((FalsyTok if i == 1 else Tok)(f"{f}[{i}]")
                              for i in range(tuple_len))
        elif k == CHILD_MAP:
            fields[f] = {"k1": Tok(f"{f}[k1]"), "k2": Tok(f"{f}[k2]")}
        else:
            fields[f] = Data(f)
    if n.name == "Rational":
        _rational_aliases(fields)
    return fields


def _rational_aliases(fields):
    # the lower-case properties of the legacy exact-quotient node
    fields.update(numerator=fields["Numerator"], num=fields["Numerator"],
                  denominator=fields["Denominator"], den=fields["Denominator"])


def _slot(fields, f, s):
    return fields[f] if s is None else fields[f][s]


def _chain(it, nd, a, k):
    return [x for part in a for x in part]


def _chain_from(it, nd, a, k):
    return [x for part in a[0] for x in part]


def _is_zero(it, nd, a, k):
    return (a[0] == 0) if isinstance(a[0], (int, float)) else False


def _tuple_valued_child(model, n, kinds):
    """a child field that the node class itself tests for being a tuple
    (`isinstance(self.index, tuple)`): it may hold a tuple of children"""
    for k_ in model.mro(n.cls):
        if not isinstance(k_, ClassInfo):
            continue
        for mem in k_.members.values():
            if mem.kind != "func":
                continue
            for c in ast.walk(mem.node):
                if isinstance(c, ast.Call) and isinstance(c.func, ast.Name) \
                        and c.func.id == "isinstance" and len(c.args) == 2 \
                        and isinstance(c.args[0], ast.Attribute) \
                        and isinstance(c.args[0].value, ast.Name) \
                        and c.args[0].value.id == "self" \
                        and kinds.get(c.args[0].attr) == CHILD \
                        and "tuple" in ast.unparse(c.args[1]):
                    return c.args[0].attr
    return None


def judge(model, mapper: ClassInfo, n, fn, kinds, allow_zero_result=False,
          extra_calls=None):
    """-> (witnesses, n_cases)"""
    poly = n.name == "Polynomial"
    if n.legacy and not poly and n.name != "Rational":
        raise AnalysisError("legacy node class: not modelled by the judge")
    if len(fn.args.args) < 2:
        raise AnalysisError("handler signature")
    positions = _positions(n, kinds) if not poly else [
        ("Base", None), ("Data", 0), ("Data", 1)]
    me, en = fn.args.args[0].arg, fn.args.args[1].arg
    takes_extras = fn.args.vararg is not None and fn.args.kwarg is not None
    helpers = {}
    for k in reversed(model.mro(mapper)):
        if isinstance(k, ClassInfo):
            for name, mem in k.members.items():
                if mem.kind == "func" and name.startswith("_") and \
                        not name.startswith("__"):
                    helpers[name] = mem.node
    glob = module_env(mapper.module.tree, {})
    node_names = {x.name: x for x in model.nodes.all()}
    wit = []
    n_cases = 0
    if positions:
        subsets = [frozenset()] + [frozenset([p]) for p in positions] + \
            [frozenset(positions)]
    else:
        subsets = [frozenset()]
    specials = []
    if not poly and any(kinds.get(f) == CHILD for f in n.field_names):
        specials.append("zero-children")
    if not poly and n.name == "Slice":
        specials += ["none-entry", "none-entry-changed"]
    tuple_child = None if poly else _tuple_valued_child(model, n, kinds)
    if tuple_child:
        specials += ["tuple-child-1", "tuple-child-1-changed",
                     "tuple-child-2-changed"]
    for changed in subsets + specials:
        n_cases += 1
        special = changed if isinstance(changed, str) else None
        if special:
            changed = frozenset()
        if poly:
            # base**0 * c0 + base**2 * c1, the coefficients being children
            c0, c1 = Tok("coeff[0]"), Tok("coeff[1]")
            fields = {"Base": Tok("base"), "Data": ((0, c0), (2, c1)),
                      "Unit": 1, "VarLess": None}
            fields.update(base=fields["Base"], data=fields["Data"],
                          unit=1, var_less=None)

            def _pslot(f, s):
                return fields["Base"] if f == "Base" else fields["Data"][s][1]
            changed_toks = {id(_pslot(f, s)) for f, s in changed}
        else:
            fields = _make(n, kinds)
            if special == "zero-children":
                # children that are the constant 0 and come back as they are:
                # "unchanged" wins over any test on the mapped value
                for f in n.field_names:
                    if kinds.get(f) == CHILD:
                        fields[f] = 0
            if special in ("none-entry", "none-entry-changed"):
                f0 = [f for f in n.field_names
                      if kinds.get(f) == CHILD_TUPLE][0]
                fields[f0] = (Tok(f"{f0}[0]"), None, Tok(f"{f0}[2]"))
                if special == "none-entry-changed":
                    changed = frozenset([(f0, 0), (f0, 2)])
            changed_toks = {id(_slot(fields, f, s)) for f, s in changed}
            if special and special.startswith("tuple-child"):
                # a child field that holds a tuple of children (a
                # multi-index): the traversal maps it elementwise and the
                # rebuilt node holds a tuple of the same length
                ln = 2 if "-2" in special else 1
                fields[tuple_child] = tuple(
                    Tok(f"{tuple_child}[{i}]") for i in range(ln))
                if special.endswith("changed"):
                    changed_toks = {id(fields[tuple_child][-1])}
                    changed = frozenset([(tuple_child, ln - 1)])
        expr = Obj(n.name, fields)
        calls = []
        extras, kw = (("A1",), {"k": "K1"}) if takes_extras else ((), {})

        def rec(it, node, a, k, changed_toks=changed_toks, calls=calls):
            if not a:
                raise AnalysisError("rec() without an argument")
            t = a[0]
            if isinstance(t, tuple):
                # a tuple handed to the traversal is mapped elementwise
                out = tuple(rec(it, node, [x] + list(a[1:]), k) for x in t)
                return t if all(x is y for x, y in zip(out, t)) else out
            calls.append((a[0], tuple(a[1:]), dict(k)))
            if isinstance(t, Tok) and id(t) in changed_toks:
                return Tok(f"rec({t.name})", origin=t)
            return t

        def build(ref, a, k):
            if ref.n.name == "Polynomial":
                # Polynomial(base, data): the constructor keeps the pairs
                # whose coefficient is true (tokens are)
                if len(a) < 2 or k:
                    raise AnalysisError("Polynomial(...) with other than "
                                        "(base, data)")
                d_ = tuple(tuple(x) for x in a[1])
                return Obj("Polynomial", {"Base": a[0], "Data": d_, "Unit": 1,
                                          "VarLess": None, "base": a[0],
                                          "data": d_})
            names = list(ref.n.field_names)
            if len(a) + len(k) != len(names) or any(x not in names for x in k):
                raise Raised(None, "TypeError")
            vals = dict(zip(names, a))
            vals.update(k)
            if ref.n.name == "Rational":
                _rational_aliases(vals)
            return Obj(ref.n.name, vals)

        def type_(it, node, a, k):
            if isinstance(a[0], Obj) and a[0].cls in node_names:
                return ClsRef(node_names[a[0].cls])
            if isinstance(a[0], (tuple, list, dict)):
                return Opaque("class " + type(a[0]).__name__)
            raise AnalysisError("type() of a value")

        def attrs(it, node, base, attr):
            if isinstance(base, Obj) and attr == "__class__" and \
                    base.cls in node_names:
                return ClsRef(node_names[base.cls])
            return Opaque(ast.unparse(node))

        def resolve(cls, nm):
            if cls == "__mapper__" and nm in helpers:
                return ("func", helpers[nm])
            if cls in node_names:
                # properties of the node class (Slice.start, Subscript.index_tuple)
                for k_ in model.mro(node_names[cls].cls):
                    if isinstance(k_, ClassInfo) and nm in k_.members:
                        m_ = k_.members[nm]
                        if m_.kind == "func" and "property" in m_.decorators:
                            return ("prop", m_.node)
                        if m_.kind == "func":
                            return ("func", m_.node)
            return None

        mp = Obj("__mapper__")
        calls_tab = {
            f"{me}.rec": rec, f"{me}": rec, f"{me}.__call__": rec,
            "type": type_,
            "is_zero": _is_zero, "primitives.is_zero": _is_zero,
            "p.is_zero": _is_zero, "prim.is_zero": _is_zero,
            "immutabledict": lambda it, nd, a, k: dict(*a, **k),
            "chain": _chain, "itertools.chain": _chain,
            "chain.from_iterable": _chain_from,
            "itertools.chain.from_iterable": _chain_from,
            "hash": lambda it, nd, a, k: 0,
        }
        for nm, nd_ in node_names.items():
            for spell in (nm, f"primitives.{nm}", f"p.{nm}", f"prim.{nm}"):
                calls_tab[spell] = (lambda it, node, a, k, nd_=nd_:
                                    build(ClsRef(nd_), a, k))

        class _I(Interp):
            def call(self, e, env):
                # a class reference applied: type(expr)(...)
                try:
                    f = None
                    if isinstance(e.func, ast.Attribute) and \
                            e.func.attr == "__class__":
                        b_ = self.eval(e.func.value, env)
                        if isinstance(b_, Obj) and b_.cls in node_names:
                            f = ClsRef(node_names[b_.cls])
                    elif isinstance(e.func, ast.Call) or isinstance(
                            e.func, (ast.Name, ast.Attribute)):
                        if not (isinstance(e.func, ast.Name) and
                                ast.unparse(e.func) in self.calls) and \
                                ast.unparse(e.func) not in self.calls:
                            f = self.eval(e.func, env)
                except (AnalysisError, Raised):
                    f = None
                if isinstance(f, ClsRef):
                    args = self._elts(e.args, env)
                    kw_ = {}
                    for k_ in e.keywords:
                        if k_.arg:
                            kw_[k_.arg] = self.eval(k_.value, env)
                        else:
                            kw_.update(self.eval(k_.value, env))
                    return build(f, args, kw_)
                return Interp.call(self, e, env)
        if extra_calls is not None:
            calls_tab.update(extra_calls([mp]))
        it = _I(calls=calls_tab, attrs=attrs, resolve=resolve, globals_=glob,
                max_steps=40000)
        label = (f"{n.name} with " + (
            "children that are the constant 0, none changed"
            if special == "zero-children" else
            "an omitted (None) entry, " + (
                "none changed" if not changed else "the others changed")
            if special and special.startswith("none") else
            f"a {'two' if '-2' in special else 'one'}-element tuple as "
            f"'{tuple_child}', " + ("none changed" if not changed else
                                    "the last element changed")
            if special else
            "no child changed" if not changed else
            "every child changed" if len(changed) == len(positions) > 1 else
            "only " + ", ".join(f + ("" if s is None else f"[{s}]")
                                for f, s in changed) + " changed"))
        try:
            res = it.call_function(fn, [mp, expr] + list(extras),
                                   {"__kwargs__": dict(kw)})
        except Raised as r:
            wit.append(f"{label}: raises at line "
                       f"{getattr(r.node, 'lineno', '?')}")
            continue
        except StepBound:
            wit.append(f"{label}: does not terminate")
            continue
        # every child handed to rec once, extras forwarded
        seen = [c[0] for c in calls]
        bad_calls = False
        if special in ("none-entry", "none-entry-changed") and any(
                x is None for x in seen):
            wit.append(f"{label}: the omitted entry (None) is handed to rec")
            continue
        for f, s in (positions if not special else
                     [(f0, 0), (f0, 2)] if special.startswith("none") else
                     [(tuple_child, i)
                      for i in range(len(fields[tuple_child]))]
                     if special.startswith("tuple-child") else []):
            t = _pslot(f, s) if poly else _slot(fields, f, s)
            cnt = sum(1 for x in seen if x is t)
            if cnt != 1:
                wit.append(f"{label}: child {t!r} is handed to rec {cnt} times")
                bad_calls = True
                break
        if bad_calls:
            continue
        if any(c[1] != tuple(extras) or c[2] != dict(kw) for c in calls):
            wit.append(f"{label}: rec is not given the handler's extra "
                       "arguments unchanged")
            continue
        if not changed:
            if res is not expr:
                wit.append(f"{label}: returns {res!r}, not the node it was "
                           "given")
            continue
        if allow_zero_result and res == 0:
            continue
        if not (isinstance(res, Obj) and res.cls == n.name):
            wit.append(f"{label}: returns {res!r}, not a {n.name}")
            continue
        if poly:
            def same_p(g, t):
                if id(t) in changed_toks:
                    return isinstance(g, Tok) and g.origin is t
                return g is t
            gd = res.fields.get("Data")
            okp = same_p(res.fields.get("Base"), fields["Base"]) and \
                isinstance(gd, tuple) and len(gd) == 2 and all(
                    len(g) == 2 and g[0] == w[0] and same_p(g[1], w[1])
                    for g, w in zip(gd, fields["Data"]))
            if not okp:
                wit.append(f"{label}: the rebuilt polynomial is "
                           f"({res.fields.get('Base')!r}, {gd!r}), expected the "
                           "mapped base and the same exponents with the mapped "
                           "coefficients")
            continue
        for f in n.field_names:
            k = kinds.get(f)
            got = res.fields.get(f)
            want = fields[f]

            def mapped(t):
                return t if id(t) not in changed_toks else None

            def same(g, t):
                if id(t) in changed_toks:
                    return isinstance(g, Tok) and g.origin is t
                return g is t
            ok = True
            if k == CHILD and isinstance(want, tuple):
                ok = isinstance(got, tuple) and len(got) == len(want) \
                    and all(same(g, t) for g, t in zip(got, want))
            elif k == CHILD:
                ok = same(got, want)
            elif k == CHILD_TUPLE:
                ok = isinstance(got, (tuple, list)) and len(got) == len(want) \
                    and all(same(g, t) for g, t in zip(got, want))
            elif k == CHILD_MAP:
                ok = isinstance(got, dict) and set(got) == set(want) and all(
                    same(got[kk], want[kk]) for kk in want)
            else:
                ok = got is want
            if not ok:
                wit.append(f"{label}: field '{f}' of the rebuilt node is "
                           f"{got!r}, expected the "
                           f"{'mapped' if k else 'original'} {want!r}")
                break
    return wit, n_cases


# ---------------------------------------------------------------------------
# combine-style and walk-style handlers: the same abstract nodes, other
# contracts

def _setup(model, mapper, n, fn, kinds, hooks, tuple_len=2):
    """-> (interp, mapper object, expr, fields, positions, extras, kw)"""
    if n.legacy and n.name not in ("Polynomial", "Rational", "MultiVector"):
        raise AnalysisError("legacy node class: not modelled by the judge")
    poly = n.name == "Polynomial"
    mv = n.name == "MultiVector"
    if len(fn.args.args) < 2:
        raise AnalysisError("handler signature")
    me = fn.args.args[0].arg
    takes_extras = fn.args.vararg is not None and fn.args.kwarg is not None
    helpers = {}
    for k in reversed(model.mro(mapper)):
        if isinstance(k, ClassInfo):
            for name, mem in k.members.items():
                if mem.kind == "func" and name.startswith("_") and \
                        not name.startswith("__"):
                    helpers[name] = mem.node
    glob = module_env(mapper.module.tree, {})
    node_names = {x.name: x for x in model.nodes.all()}
    if poly:
        c0, c1 = Tok("coeff[0]"), Tok("coeff[1]")
        fields = {"Base": Tok("base"), "Data": ((0, c0), (2, c1)), "Unit": 1,
                  "VarLess": None}
        fields.update(base=fields["Base"], data=fields["Data"], unit=1,
                      var_less=None)
        slots = [fields["Base"], c0, c1]
    elif mv:
        # a multivector: blade bit pattern -> coefficient (the children), and
        # the space it lives in (data)
        c1_, c2_ = Tok("data[1]"), FalsyTok("data[6]")
        fields = {"data": {1: c1_, 6: c2_}, "space": Data("space")}
        slots = [c1_, c2_]
    else:
        fields = _make(n, kinds, tuple_len)
        slots = []
        for f in n.field_names:
            k_ = kinds.get(f)
            if k_ == CHILD:
                slots.append(fields[f])
            elif k_ == CHILD_TUPLE:
                slots += list(fields[f])
            elif k_ == CHILD_MAP:
                slots += list(fields[f].values())
    expr = Obj(n.name, fields)

    def resolve(cls, nm):
        if cls == "__mapper__" and nm in helpers:
            return ("func", helpers[nm])
        if cls in node_names:
            for k_ in model.mro(node_names[cls].cls):
                if isinstance(k_, ClassInfo) and nm in k_.members:
                    m_ = k_.members[nm]
                    if m_.kind == "func" and "property" in m_.decorators:
                        return ("prop", m_.node)
                    if m_.kind == "func":
                        return ("func", m_.node)
        return None
    calls = {"is_zero": _is_zero, "primitives.is_zero": _is_zero,
             "chain": _chain, "itertools.chain": _chain,
             "chain.from_iterable": _chain_from,
             "itertools.chain.from_iterable": _chain_from,
             "hash": lambda it_, nd_, a_, k_: 0}
    for nm, h in hooks.items():
        calls[f"{me}.{nm}" if nm else me] = h
    it = Interp(calls=calls, attrs=lambda it_, nd, b, a: Opaque(ast.unparse(nd)),
                resolve=resolve, globals_=glob, max_steps=40000)
    extras, kw = (("A1",), {"k": "K1"}) if takes_extras else ((), {})
    return it, Obj("__mapper__"), expr, slots, extras, kw


def judge_combine(model, mapper, n, fn, kinds, combine_names=("combine",)):
    """the handler returns self.combine(<collection>) (or the recursion result
    of its only child) and the collection holds the recursion result of every
    child exactly once; extras forwarded.  -> (witnesses, n_cases)"""
    calls = []
    combined = []

    def rec(it, node, a, k):
        calls.append((a[0], tuple(a[1:]), dict(k)))
        return Tok(f"rec({a[0]!r})", origin=a[0]) if isinstance(a[0], Tok) \
            else a[0]

    def combine(it, node, a, k):
        vals = list(a[0])
        r = ("combined", tuple(vals))
        combined.append(r)
        return r
    hooks = {"rec": rec, "": rec, "__call__": rec}
    for c in combine_names:
        hooks[c] = combine
    it, mp, expr, slots, extras, kw = _setup(model, mapper, n, fn, kinds, hooks)
    label = f"{n.name}"
    try:
        res = it.call_function(fn, [mp, expr] + list(extras),
                               {"__kwargs__": dict(kw)})
    except Raised as r:
        return [f"{label}: raises at line {getattr(r.node, 'lineno', '?')}"], 1
    except StepBound:
        return [f"{label}: does not terminate"], 1
    if not slots:
        return [], 1
    if any(c[1] != tuple(extras) or c[2] != dict(kw) for c in calls):
        return [f"{label}: rec is not given the handler's extra arguments "
                "unchanged"], 1

    def leaves(v):
        if isinstance(v, tuple) and v and v[0] == "combined":
            out = []
            for x in v[1]:
                out += leaves(x)
            return out
        return [v]
    got = leaves(res)
    wit = []
    for t in slots:
        cnt = sum(1 for g in got if isinstance(g, Tok) and g.origin is t)
        if cnt != 1:
            wit.append(f"{label}: the recursion result of child {t!r} is folded "
                       f"into the result {cnt} times")
            break
    if not wit and len(slots) > 1 and not (isinstance(res, tuple) and res
                                           and res[0] == "combined"):
        wit.append(f"{label}: the result is not what combine() returned")
    return wit, 1


def judge_walk(model, mapper, n, fn, kinds):
    """visit(expr, *extras) first; when it answers false nothing else happens;
    otherwise every child is handed to rec exactly once, then
    post_visit(expr, *extras).  -> (witnesses, n_cases)"""
    wit = []
    lens = (2,)
    if any(k == CHILD_TUPLE for k in kinds.values()) and n.name != "Polynomial":
        lens = (0, 1, 2, 3)       # every length an index-based handler may meet
    for answer, tlen in [(a_, l_) for l_ in lens for a_ in (True, False)]:
        trace = []

        def rec(it, node, a, k, trace=trace):
            trace.append(("rec", a[0], tuple(a[1:]), dict(k)))
            return None

        def visit(it, node, a, k, trace=trace, answer=answer):
            trace.append(("visit", a[0], tuple(a[1:]), dict(k)))
            return answer

        def post(it, node, a, k, trace=trace):
            trace.append(("post_visit", a[0], tuple(a[1:]), dict(k)))
            return None
        it, mp, expr, slots, extras, kw = _setup(
            model, mapper, n, fn, kinds,
            {"rec": rec, "": rec, "__call__": rec, "visit": visit,
             "post_visit": post}, tuple_len=tlen)
        label = f"{n.name}" + (f" with {tlen} entries" if len(lens) > 1 else "") \
            + f", visit answers {answer}"
        try:
            it.call_function(fn, [mp, expr] + list(extras),
                             {"__kwargs__": dict(kw)})
        except Raised as r:
            wit.append(f"{label}: raises at line "
                       f"{getattr(r.node, 'lineno', '?')}")
            continue
        except StepBound:
            wit.append(f"{label}: does not terminate")
            continue
        if any(t[2] != tuple(extras) or t[3] != dict(kw) for t in trace):
            wit.append(f"{label}: the extra arguments are not passed on "
                       "unchanged to visit / rec / post_visit")
            continue
        kinds_ = [t[0] for t in trace]
        if not trace or trace[0][0] != "visit" or trace[0][1] is not expr or \
                kinds_.count("visit") != 1:
            wit.append(f"{label}: visit(expr) is not called once, first")
            continue
        if not answer:
            if not slots and kinds_ == ["visit", "post_visit"]:
                continue        # a leaf: there are no children to skip
            if len(trace) != 1:
                wit.append(f"{label}: {kinds_[1:]} happen although visit "
                           "answered false")
            continue
        if kinds_[-1] != "post_visit" or kinds_.count("post_visit") != 1 or \
                trace[-1][1] is not expr:
            wit.append(f"{label}: post_visit(expr) is not called once, last")
            continue
        visited = [t[1] for t in trace if t[0] == "rec"]
        for s in slots:
            cnt = sum(1 for v in visited if v is s)
            if cnt != 1:
                wit.append(f"{label}: child {s!r} is visited {cnt} times")
                break
    return wit, 2 * len(lens)


def judge_interceptor(model, mapper, n, fn, kinds, lookup="subst_func"):
    """A substitution handler: when the look-up (`self.subst_func(expr)`)
    answers with a replacement, that very object is returned and never handed
    to rec (replacements are not substituted again); when it answers None, the
    handler behaves like an identity handler for the node (the contract of
    `judge`).  Inherited handlers reached through IdentityMapper.map_x(self,
    ...) / super().map_x(...) are interpreted as they are.
    -> (witnesses, n_cases)"""
    me = fn.args.args[0].arg
    ident = model.cls("pymbolic.mapper:IdentityMapper")
    inherited = {}
    for k in model.mro(mapper):
        if isinstance(k, ClassInfo) and k is not mapper:
            for name, mem in k.members.items():
                if mem.kind == "func" and name.startswith("map_"):
                    inherited.setdefault(name, mem.node)
    id_members = {name: mem.node for name, mem in ident.members.items()
                  if mem.kind == "func" and name.startswith("map_")}

    def extra_calls(it_holder, answer, seen_lookup):
        def lk(it, node, a, k):
            seen_lookup.append(a[0] if a else None)
            return answer
        tab = {f"{me}.{lookup}": lk}
        for name, nd_ in id_members.items():
            tab[f"IdentityMapper.{name}"] = (
                lambda it, node, a, k, nd_=nd_: it.call_function(
                    nd_, list(a), {"__kwargs__": dict(k)}))
        for name, nd_ in inherited.items():
            tab[f"super().{name}"] = (
                lambda it, node, a, k, nd_=nd_: it.call_function(
                    nd_, [it_holder[0]] + list(a), {"__kwargs__": dict(k)}))
        return tab
    wit = []
    # found: the replacement itself comes back, untouched
    R = Tok("<replacement>")
    calls = []
    seen = []
    holder = [None]

    def rec(it, node, a, k):
        # (children come back changed: a handler that looks the node up only
        # after rebuilding it asks about another object)
        calls.append(a[0])
        return Tok(f"rec({a[0]!r})", origin=a[0]) if isinstance(a[0], Tok) \
            else a[0]
    hooks = {"rec": rec, "": rec, "__call__": rec}
    it, mp, expr, slots, extras, kw = _setup(model, mapper, n, fn, kinds, hooks)
    holder[0] = mp
    it.calls.update(extra_calls(holder, R, seen))
    try:
        res = it.call_function(fn, [mp, expr] + list(extras),
                               {"__kwargs__": dict(kw)})
        if res is not R:
            wit.append(f"{n.name}, a replacement is found: the handler returns "
                       f"{res!r}, not the replacement as it is")
        if any(c is R for c in calls):
            wit.append(f"{n.name}, a replacement is found: the replacement is "
                       "handed to rec (substituted again)")
        if not any(s is expr for s in seen):
            wit.append(f"{n.name}: the look-up is not asked about the node "
                       "itself")
    except Raised as r:
        wit.append(f"{n.name}, a replacement is found: raises at line "
                   f"{getattr(r.node, 'lineno', '?')}")
    except StepBound:
        wit.append(f"{n.name}: does not terminate")
    # not found: identity contract
    w2, n2 = judge(model, mapper, n, fn, kinds,
                   extra_calls=lambda holder_: extra_calls(holder_, None, []))
    return wit + [f"{x} (no replacement found)" for x in w2], 1 + n2
