"""A small abstract interpreter for the numeric kernels (C19, C13's Horner
printer): the function's syntax tree is interpreted over

  * concrete Python values for everything that steers control (loop counters,
    list lengths, integer exponents, None, strings), and
  * polynomial normal forms (Poly) / powers of one monoid generator (Mon) for
    the quantities the property speaks about.

Nothing of /repo is imported or run: names the kernel gets from elsewhere are
supplied by the rule as *hooks* (Python callables over abstract values), and a
branch on a value that is not concrete is handed to the rule's `decide` hook,
which either fixes the polarity (bounded exploration of both) or refuses.

Loops are handled two ways by the rules built on this: a loop over a concrete
sequence simply unrolls; a loop whose trip count is symbolic is cut at a stated
invariant (the rule starts the body from a generic state that satisfies the
invariant and compares the state at the end of the body with the invariant
again -- verification conditions discharged by Poly's normal form).
"""
from __future__ import annotations

import ast
from fractions import Fraction

from . import AnalysisError


# ---------------------------------------------------------------------------
# polynomial normal form
# ---------------------------------------------------------------------------

class Poly:
    """commutative polynomial with rational coefficients; monomial = sorted
    tuple of (symbol, integer exponent), exponents may be negative (Laurent)"""
    __slots__ = ("t",)

    def __init__(self, terms=None):
        self.t = {m: c for m, c in (terms or {}).items() if c != 0}

    @staticmethod
    def const(c):
        return Poly({(): Fraction(c)})

    @staticmethod
    def sym(name):
        return Poly({((name, 1),): Fraction(1)})

    @staticmethod
    def lift(v):
        if isinstance(v, Poly):
            return v
        if isinstance(v, bool):
            raise AnalysisError("boolean used as a number")
        if isinstance(v, (int, Fraction)):
            return Poly.const(v)
        if isinstance(v, float) and v == int(v):
            return Poly.const(int(v))
        if isinstance(v, complex) and v.real == int(v.real) and \
                v.imag == int(v.imag):
            # the imaginary unit is the symbol J
            return Poly.const(int(v.real)) + Poly.sym("J") * int(v.imag)
        raise AnalysisError(f"not a number in the abstract domain: {v!r}")

    def is_const(self):
        return all(m == () for m in self.t)

    def const_value(self):
        return self.t.get((), Fraction(0))

    def __add__(self, o):
        o = Poly.lift(o)
        t = dict(self.t)
        for m, c in o.t.items():
            t[m] = t.get(m, 0) + c
        return Poly(t)

    __radd__ = __add__

    def __neg__(self):
        return Poly({m: -c for m, c in self.t.items()})

    def __sub__(self, o):
        return self + (-Poly.lift(o))

    def __rsub__(self, o):
        return Poly.lift(o) - self

    def __mul__(self, o):
        o = Poly.lift(o)
        t = {}
        for m1, c1 in self.t.items():
            for m2, c2 in o.t.items():
                d = dict(m1)
                for s, e in m2:
                    d[s] = d.get(s, 0) + e
                m = tuple(sorted((s, e) for s, e in d.items() if e != 0))
                t[m] = t.get(m, 0) + c1 * c2
        return Poly(t)

    __rmul__ = __mul__

    def __pow__(self, k):
        if isinstance(k, Poly):
            if not k.is_const():
                raise AnalysisError("symbolic exponent")
            k = k.const_value()
        k = Fraction(k)
        if k.denominator != 1:
            raise AnalysisError("fractional exponent")
        k = int(k)
        if k < 0:
            if len(self.t) != 1:
                raise AnalysisError("negative power of a sum")
            (m, c), = self.t.items()
            return Poly({tuple((s, e * k) for s, e in m): Fraction(1) / c ** (-k)})
        r = Poly.const(1)
        for _ in range(k):
            r = r * self
        return r

    def subst(self, name, value):
        value = Poly.lift(value)
        out = Poly()
        for m, c in self.t.items():
            term = Poly.const(c)
            for s, e in m:
                term = term * ((value if s == name else Poly.sym(s)) ** e)
            out = out + term
        return out

    def __eq__(self, o):
        if not isinstance(o, (Poly, int, Fraction)) or isinstance(o, bool):
            return NotImplemented
        return self.t == Poly.lift(o).t

    def __hash__(self):
        return hash(frozenset(self.t.items()))

    def symbols(self):
        return {s for m in self.t for s, _ in m}

    def __repr__(self):
        if not self.t:
            return "0"
        parts = []
        for m, c in sorted(self.t.items(), key=lambda kv: str(kv[0])):
            mono = "*".join(s if e == 1 else f"{s}**{e}" for s, e in m)
            if not mono:
                parts.append(str(c))
            elif c == 1:
                parts.append(mono)
            elif c == -1:
                parts.append("-" + mono)
            else:
                parts.append(f"{c}*{mono}")
        return " + ".join(parts).replace("+ -", "- ")


class Mon:
    """a power X**k of the one generator of a (not necessarily commutative)
    monoid; k is a Poly over integer-valued symbols.  `ident` remembers which
    caller-owned object the value *is* (for the in-place rule)."""
    __slots__ = ("k", "ident")

    def __init__(self, k, ident=None):
        self.k = Poly.lift(k)
        self.ident = ident

    def __mul__(self, o):
        if not isinstance(o, Mon):
            raise AnalysisError("monoid element multiplied by a non-element")
        return Mon(self.k + o.k)

    def __eq__(self, o):
        return isinstance(o, Mon) and self.k == o.k

    def __hash__(self):
        return hash(self.k)

    def __repr__(self):
        return f"X**({self.k})"


class Opaque:
    """a value the rule knows nothing about; any use that matters raises"""

    def __init__(self, what):
        self.what = what

    def __repr__(self):
        return f"<opaque {self.what}>"


def _is_static(fn):
    return any(ast.unparse(d) == "staticmethod"
               for d in getattr(fn, "decorator_list", ()))


class Closure:
    def __init__(self, fn, env):
        self.fn, self.env = fn, env


class DQ(list):
    """collections.deque as far as work lists use it"""

    def popleft(self):
        return self.pop(0)

    def appendleft(self, x):
        self.insert(0, x)

    def extendleft(self, xs):
        for x in xs:
            self.insert(0, x)


class Partial:
    """functools.partial(<interpreted function>, *args, **kwargs)"""

    def __init__(self, func, args, kw):
        self.func, self.args, self.kw = func, list(args), dict(kw)


class Obj:
    """an abstract instance of a class of the package: its attribute table;
    methods, properties and operators are looked up through the interpreter's
    `resolve(cls, name)` hook and interpreted"""

    def __init__(self, cls, fields=None):
        self.cls = cls
        self.fields = dict(fields or {})

    def __repr__(self):
        return f"<{getattr(self.cls, 'name', self.cls)} {self.fields}>"


_LIVE_GENERATORS = set()


def close_generators():
    """wake and end every parked generator thread (a generator the interpreted
    code abandoned half-way would otherwise keep its thread for the life of the
    process -- harmless in one check run, fatal in a worker that runs
    thousands)"""
    for st in list(_LIVE_GENERATORS):
        st.close()
    _LIVE_GENERATORS.clear()


class AbsGen:
    """a generator function being interpreted: its body runs in a thread of its
    own that is parked at every `yield` until the consumer asks for the next
    value, so that laziness (what has and has not been evaluated when the
    consumer stops) is the program's, not the interpreter's.  This is the
    handle the interpreted program holds; the thread only knows the state
    object, so a handle that is dropped ends its thread."""

    def __init__(self, interp, fn, env):
        self._st = _GenState(interp, fn, env)

    def __iter__(self):
        return self

    def __next__(self):
        return self._st.__next__()

    def close(self):
        self._st.close()

    def __del__(self):
        try:
            self._st.close()
        except Exception:      # noqa: BLE001 -- interpreter shutdown
            pass


class _GenState:
    def __init__(self, interp, fn, env):
        import queue
        import threading
        self.interp, self.fn, self.env = interp, fn, env
        self.out = queue.Queue(maxsize=1)
        self.go = threading.Event()
        self.done = False
        self.thread = None
        self._threading = threading

    def _run(self):
        tl = self.interp._tl
        tl.gen = self
        try:
            self.go.wait()
            self.go.clear()
            if self.done:
                return
            try:
                self.interp.block(self.fn.body, self.env)
            except _Return:
                pass
            self.out.put(("stop", None))
        except BaseException as e:        # noqa: B036 -- handed to the consumer
            self.out.put(("raise", e))

    def emit(self, value):
        self.out.put(("value", value))
        self.go.wait()
        self.go.clear()
        if self.done:
            raise _GenClosed()

    def __iter__(self):
        return self

    def __next__(self):
        if self.done:
            raise StopIteration
        if self.thread is None:
            self.thread = self._threading.Thread(target=self._run, daemon=True)
            self.thread.start()
            _LIVE_GENERATORS.add(self)
        self.go.set()
        kind, v = self.out.get()
        if kind == "value":
            return v
        self.done = True
        _LIVE_GENERATORS.discard(self)
        if kind == "raise":
            if isinstance(v, _GenClosed):
                raise StopIteration
            raise v
        raise StopIteration

    def close(self):
        _LIVE_GENERATORS.discard(self)
        if self.thread is not None and not self.done:
            self.done = True
            self.go.set()


class _GenClosed(BaseException):
    pass


class Native:
    """abstract values that implement Python's operators themselves (vectors of
    Polys): the interpreter applies the operator to them directly"""


class Bound:
    def __init__(self, fn, obj, env=None):
        self.fn, self.obj, self.env = fn, obj, env or {}


class StepBound(AnalysisError):
    """the interpreted code ran past the interpreter's step bound"""


class _Return(Exception):
    def __init__(self, value):
        self.value = value


class _Break(Exception):
    pass


class _Continue(Exception):
    pass


class Raised(Exception):
    """the interpreted code raised; `exc` names the exception class where the
    interpreter knows it (failed look-ups), so that `except` clauses match as
    Python's would"""

    def __init__(self, node, exc=None):
        self.node = node
        if exc is None:
            if isinstance(node, ast.Attribute):
                exc = "AttributeError"
            elif isinstance(node, ast.Raise) and node.exc is not None:
                e = node.exc.func if isinstance(node.exc, ast.Call) else node.exc
                exc = ast.unparse(e).split(".")[-1]
            elif isinstance(node, ast.Assert):
                exc = "AssertionError"
            elif isinstance(node, (ast.BinOp, ast.AugAssign)):
                exc = "ZeroDivisionError"
        self.exc = exc

    def caught_by(self, handler):
        if handler.type is None:
            return True
        names = [ast.unparse(t).split(".")[-1] for t in (
            handler.type.elts if isinstance(handler.type, ast.Tuple)
            else [handler.type])]
        if any(n in ("Exception", "BaseException") for n in names):
            return True
        if self.exc is None:
            return True         # unknown kind: assume the handler fits
        fam = {"KeyError": {"KeyError", "LookupError"},
               "IndexError": {"IndexError", "LookupError"},
               "ZeroDivisionError": {"ZeroDivisionError", "ArithmeticError"}}
        return bool(set(names) & fam.get(self.exc, {self.exc}))


class CutLoop(Exception):
    """raised by a rule's on_loop hook to stop at a loop head"""

    def __init__(self, node, env):
        self.node, self.env = node, env


# ---------------------------------------------------------------------------
# interpreter
# ---------------------------------------------------------------------------

class Interp:
    def __init__(self, calls=None, attrs=None, decide=None, on_loop=None,
                 on_inplace=None, max_steps=20000, resolve=None, globals_=None):
        self.calls = calls or {}      # "a.b" -> callable(interp, node, args, kw)
        self.attrs = attrs            # callable(interp, node, base, attr) | None
        self.decide = decide          # callable(interp, test node, value) -> bool
        self.on_loop = on_loop        # callable(interp, node, env) -> None
        self.on_inplace = on_inplace  # callable(interp, node, target value)
        self.steps = 0
        self.max_steps = max_steps
        import threading
        self._tl = threading.local()
        self.resolve = resolve        # callable(cls, name) -> ("func"|"prop", fn)
        self.globals = globals_ or {}  # module-level names for interpreted code

    # -- objects -------------------------------------------------------------
    def method(self, obj, name):
        if self.resolve is None:
            return None
        r = self.resolve(obj.cls, name)
        return r

    def call_method(self, obj, name, args, node):
        r = self.method(obj, name)
        if r is None:
            return NotImplemented
        return self.call_function(r[1], [obj] + list(args), dict(self.globals))

    def obj_binop(self, node, op, a, b):
        fwd, rev = _DUNDER[type(op)]
        if isinstance(a, Obj):
            r = self.call_method(a, fwd, [b], node)
            if r is not NotImplemented:
                return r
        if isinstance(b, Obj):
            r = self.call_method(b, rev, [a], node)
            if r is not NotImplemented:
                return r
        raise AnalysisError(f"no operator method for '{ast.unparse(node)}'")

    # -- entry points ------------------------------------------------------
    def apply(self, f, args, kw=None):
        """call a function value: an interpreted closure / bound method, a
        partial application of one, or a host callable"""
        kw = dict(kw or {})
        if isinstance(f, Partial):
            return self.apply(f.func, f.args + list(args), dict(f.kw, **kw))
        if isinstance(f, Closure):
            return self.call_function(f.fn, list(args),
                                      dict(f.env, __kwargs__=kw))
        if isinstance(f, Bound):
            return self.call_function(f.fn, [f.obj] + list(args),
                                      dict(f.env, __kwargs__=kw))
        if callable(f):
            return f(*args, **kw)
        raise AnalysisError(f"call of the value {f!r}")

    def call_function(self, fn, args, env=None):
        self.depth = getattr(self, "depth", 0) + 1
        # the receiver of the method being interpreted (for rule hooks that
        # stand for super().m: they need to know whose method is running)
        push = bool(fn.args.args) and fn.args.args[0].arg == "self" and \
            len(args) >= 1
        if push:
            if not hasattr(self, "_self_stack"):
                self._self_stack = []
            self._self_stack.append(args[0])
        try:
            if self.depth > 40:
                raise StepBound("abstract interpretation: interpreted calls "
                                "nest deeper than 40")
            return self._call_function(fn, args, env)
        finally:
            self.depth -= 1
            if push:
                self._self_stack.pop()

    def _call_function(self, fn, args, env=None):
        env = dict(env or {})
        params = [a.arg for a in fn.args.args]
        defaults = fn.args.defaults
        kwv = env.pop("__kwargs__", None) or {}
        for i, p in enumerate(params):
            if i < len(args):
                if p in kwv:
                    # f() got multiple values for argument p
                    raise Raised(fn, "TypeError")
                env[p] = args[i]
            elif p in kwv:
                env[p] = kwv.pop(p)
            else:
                j = i - (len(params) - len(defaults))
                if j < 0:
                    raise AnalysisError(f"{fn.name}: argument {p} missing")
                env[p] = self.eval(defaults[j], env)
        pre = set(env)
        for a_, d_ in zip(fn.args.kwonlyargs, fn.args.kw_defaults):
            if a_.arg in kwv:
                env[a_.arg] = kwv.pop(a_.arg)
            elif a_.arg in pre:
                pass        # bound by the rule that set up the call
            elif d_ is not None:
                env[a_.arg] = self.eval(d_, env)
            else:
                raise AnalysisError(f"{fn.name}: keyword argument {a_.arg} "
                                    "missing")
        if fn.args.vararg is not None:
            env[fn.args.vararg.arg] = tuple(args[len(params):])
        if fn.args.kwarg is not None:
            env[fn.args.kwarg.arg] = dict(kwv)
        if _is_generator_fn(fn):
            return AbsGen(self, fn, env)
        try:
            self.block(fn.body, env)
        except _Return as r:
            return r.value
        return None

    def block(self, stmts, env):
        for st in stmts:
            self.stmt(st, env)

    # -- statements ----------------------------------------------------------
    def tick(self):
        self.steps += 1
        if self.steps > self.max_steps:
            raise StepBound("abstract interpretation does not terminate "
                            "within its step bound")

    def truth(self, node, v):
        if isinstance(v, Poly):
            if v.is_const():
                return v.const_value() != 0
        elif callable(v) and not isinstance(v, (Opaque, Obj, Poly, Mon)):
            return True
        elif isinstance(v, Native):
            return bool(len(v))
        elif isinstance(v, Obj):
            r = self.call_method(v, "__bool__", [], node)
            if r is not NotImplemented:
                return self.truth(node, r)
            return True
        elif isinstance(v, Mon) or isinstance(v, Opaque):
            pass
        elif isinstance(v, (bool, int, float, complex, str, bytes, tuple, list,
                            dict, set, frozenset, type(None), Fraction)):
            return bool(v)
        if self.decide is None:
            raise AnalysisError(f"branch on a symbolic value: "
                                f"{ast.unparse(node)}")
        return self.decide(self, node, v)

    def assign(self, tgt, v, env):
        if isinstance(tgt, ast.Name):
            env[tgt.id] = v
        elif isinstance(tgt, (ast.Tuple, ast.List)):
            vs = list(v) if isinstance(v, (tuple, list)) else None
            stars = [i for i, t in enumerate(tgt.elts)
                     if isinstance(t, ast.Starred)]
            if vs is not None and len(stars) == 1 and \
                    len(vs) >= len(tgt.elts) - 1:
                # a, *rest, z = ...
                i = stars[0]
                n_after = len(tgt.elts) - i - 1
                for t, x in zip(tgt.elts[:i], vs[:i]):
                    self.assign(t, x, env)
                self.assign(tgt.elts[i].value,
                            vs[i:len(vs) - n_after], env)
                for t, x in zip(tgt.elts[i + 1:], vs[len(vs) - n_after:]):
                    self.assign(t, x, env)
                return
            if vs is None or len(vs) != len(tgt.elts):
                raise AnalysisError(f"cannot unpack {v!r} into "
                                    f"{ast.unparse(tgt)}")
            for t, x in zip(tgt.elts, vs):
                self.assign(t, x, env)
        elif isinstance(tgt, ast.Attribute):
            base = self.eval(tgt.value, env)
            if not isinstance(base, Obj):
                raise AnalysisError(f"attribute store on {base!r}")
            base.fields[tgt.attr] = v
        elif isinstance(tgt, ast.Subscript):
            base = self.eval(tgt.value, env)
            idx = self.eval(tgt.slice, env)
            if isinstance(base, (list, dict)):
                base[idx] = v
            elif isinstance(base, Native) and hasattr(base, "__setitem__"):
                base[idx] = v
            else:
                raise AnalysisError(f"store into {base!r}")
        else:
            raise AnalysisError(f"assignment target {ast.unparse(tgt)}")

    def stmt(self, st, env):
        self.tick()
        if isinstance(st, ast.Expr):
            if isinstance(st.value, ast.Constant):
                return
            self.eval(st.value, env)
        elif isinstance(st, ast.Assign):
            v = self.eval(st.value, env)
            for t in st.targets:
                self.assign(t, v, env)
        elif isinstance(st, ast.AnnAssign):
            if st.value is not None:
                self.assign(st.target, self.eval(st.value, env), env)
        elif isinstance(st, ast.AugAssign):
            cur = self.eval(st.target, env)
            if self.on_inplace is not None:
                self.on_inplace(self, st, cur)
            rhs = self.eval(st.value, env)
            if isinstance(cur, list) and isinstance(st.op, ast.Add) and \
                    isinstance(rhs, (list, tuple)):
                cur.extend(rhs)         # list += iterable extends in place
                v = cur
            elif isinstance(cur, set) and isinstance(rhs, (set, frozenset)) \
                    and isinstance(st.op, (ast.BitOr, ast.BitAnd, ast.Sub,
                                           ast.BitXor)):
                # set |= &= -= ^= : the set object itself is changed (whoever
                # else holds it sees the change)
                {ast.BitOr: cur.update, ast.BitAnd: cur.intersection_update,
                 ast.Sub: cur.difference_update,
                 ast.BitXor: cur.symmetric_difference_update}[type(st.op)](rhs)
                v = cur
            elif isinstance(cur, dict) and isinstance(rhs, dict) and \
                    isinstance(st.op, ast.BitOr):
                cur.update(rhs)
                v = cur
            else:
                v = self.binop(st, st.op, cur, rhs)
            self.assign(st.target, v, env)
        elif isinstance(st, ast.If):
            if self.truth(st.test, self.eval(st.test, env)):
                self.block(st.body, env)
            else:
                self.block(st.orelse, env)
        elif isinstance(st, ast.While):
            if self.on_loop is not None:
                self.on_loop(self, st, env)
            while self.truth(st.test, self.eval(st.test, env)):
                try:
                    self.block(st.body, env)
                except _Break:
                    break
                except _Continue:
                    continue
            else:
                self.block(st.orelse, env)
        elif isinstance(st, ast.For):
            it = self.eval(st.iter, env)
            if isinstance(it, (set, frozenset)):
                it = sorted(it, key=repr, reverse=getattr(
                    self, "set_order", "") == "reversed")   # a set of concrete keys
            if isinstance(it, dict):
                it = list(it)
            lazy = isinstance(it, AbsGen) or (hasattr(it, "__next__")
                                              and not isinstance(it, Opaque))
            if not lazy and not isinstance(it, (tuple, list, range)):
                raise AnalysisError(f"loop over {it!r}")
            broke = False
            for x in (it if lazy else list(it)):
                self.assign(st.target, x, env)
                try:
                    self.block(st.body, env)
                except _Break:
                    broke = True
                    break
                except _Continue:
                    continue
            if not broke:
                self.block(st.orelse, env)
        elif isinstance(st, ast.With) and len(st.items) == 1 and isinstance(
                st.items[0].context_expr, ast.Call) and ast.unparse(
                st.items[0].context_expr.func).split(".")[-1] == "suppress" \
                and st.items[0].optional_vars is None:
            # with contextlib.suppress(E1, E2): <body>
            names = [ast.unparse(a).split(".")[-1]
                     for a in st.items[0].context_expr.args]
            try:
                self.block(st.body, env)
            except Raised as r_:
                h = ast.ExceptHandler(
                    type=ast.Tuple(elts=[ast.Name(id=n_, ctx=ast.Load())
                                         for n_ in names], ctx=ast.Load()),
                    name=None, body=[])
                if not r_.caught_by(h):
                    raise
        elif isinstance(st, ast.Try):
            try:
                self.block(st.body, env)
            except Raised as r_:
                hs = [h for h in st.handlers if r_.caught_by(h)]
                if not hs:
                    raise
                self.block(hs[0].body, env)
            else:
                self.block(st.orelse, env)
            finally:
                if st.finalbody:
                    self.block(st.finalbody, env)
        elif isinstance(st, ast.Return):
            raise _Return(self.eval(st.value, env) if st.value else None)
        elif isinstance(st, ast.Raise):
            raise Raised(st)
        elif isinstance(st, ast.Assert):
            try:
                v = self.eval(st.test, env)
            except AnalysisError:
                return
            if isinstance(v, bool) and not v:
                raise Raised(st)
        elif isinstance(st, (ast.Import, ast.ImportFrom)):
            for a in st.names:
                name = (a.asname or a.name).split(".")[0]
                env.setdefault(name, Opaque(f"module {a.name}"))
        elif isinstance(st, ast.FunctionDef):
            env[st.name] = Closure(st, env)
        elif isinstance(st, ast.ClassDef):
            env[st.name] = Opaque(f"class {st.name}")
        elif isinstance(st, ast.Delete):
            for t in st.targets:
                if isinstance(t, ast.Subscript):
                    base = self.eval(t.value, env)
                    idx = self.eval(t.slice, env)
                    if isinstance(base, (dict, list)):
                        del base[idx]
                        continue
                raise AnalysisError(f"del {ast.unparse(t)}")
        elif isinstance(st, ast.Pass):
            return
        elif isinstance(st, ast.Break):
            raise _Break()
        elif isinstance(st, ast.Continue):
            raise _Continue()
        else:
            raise AnalysisError(f"statement {type(st).__name__} not interpreted")

    # -- expressions ---------------------------------------------------------
    def binop(self, node, op, a, b):
        try:
            return self._binop(node, op, a, b)
        except ZeroDivisionError:
            raise Raised(node)

    def _binop(self, node, op, a, b):
        if isinstance(a, Obj) or isinstance(b, Obj):
            return self.obj_binop(node, op, a, b)
        if isinstance(a, Native) or isinstance(b, Native):
            try:
                if not isinstance(a, Native):
                    # scalar <op> vector: the vector's reflected operator
                    if isinstance(op, ast.Mult):
                        return b.__rmul__(a)
                    if isinstance(op, ast.Add):
                        return b.__radd__(a)
                    if isinstance(op, ast.Sub):
                        return (-b).__radd__(a)
                    raise KeyError
                return _CONCRETE[type(op)](a, b)
            except (KeyError, TypeError):
                raise AnalysisError(f"vector operation {ast.unparse(node)}")
        if (isinstance(a, Opaque) or isinstance(b, Opaque)) and \
                "<opaque-binop>" in self.calls:
            return self.calls["<opaque-binop>"](self, node, op, a, b)
        if isinstance(a, Opaque) or isinstance(b, Opaque):
            raise AnalysisError(f"arithmetic on {a!r} / {b!r} in "
                                f"'{ast.unparse(node)}'")
        if isinstance(a, Mon) or isinstance(b, Mon):
            if isinstance(op, ast.Mult):
                return a * b
            raise AnalysisError(f"monoid elements combined with "
                                f"{type(op).__name__}")
        if isinstance(a, str) or isinstance(b, str):
            if isinstance(op, ast.Add) and isinstance(a, str) and isinstance(b, str):
                return a + b
            if isinstance(op, ast.Mod) and isinstance(a, str):
                return a % b
            raise AnalysisError(f"string operation {ast.unparse(node)}")
        if isinstance(a, (tuple, list)) and isinstance(b, (tuple, list)) and \
                isinstance(op, ast.Add):
            return a + b
        sym = isinstance(a, Poly) or isinstance(b, Poly)
        if sym:
            A, B = Poly.lift(a), Poly.lift(b)
            if isinstance(op, ast.Add):
                return A + B
            if isinstance(op, ast.Sub):
                return A - B
            if isinstance(op, ast.Mult):
                return A * B
            if isinstance(op, ast.Pow):
                return A ** B
            if isinstance(op, (ast.Div,)) and B.is_const():
                return A * Poly.const(Fraction(1) / B.const_value())
            h = self.calls.get("<binop>")
            if h is not None:
                return h(self, node, op, A, B)
            raise AnalysisError(f"symbolic operands of {type(op).__name__} in "
                                f"'{ast.unparse(node)}'")
        try:
            return _CONCRETE[type(op)](a, b)
        except KeyError:
            raise AnalysisError(f"operator {type(op).__name__}")
        except ZeroDivisionError:
            raise Raised(node)

    def eval(self, e, env):
        self.tick()
        if isinstance(e, ast.Constant):
            return e.value
        if isinstance(e, ast.Name):
            if e.id in env:
                return env[e.id]
            if e.id in self.globals:
                return self.globals[e.id]
            if e.id in ("True", "False", "None"):
                return {"True": True, "False": False, "None": None}[e.id]
            if e.id in self.calls or e.id in _BUILTINS:
                return Opaque(f"function {e.id}")
            if e.id.endswith(("Warning", "Error", "Exception")) or e.id in (
                    "object", "complex", "float", "dict", "set", "frozenset",
                    "str", "int", "list", "tuple", "bool", "type"):
                return Opaque(f"class {e.id}")
            raise AnalysisError(f"name {e.id} is not bound in the abstract state")
        if isinstance(e, ast.Tuple):
            return tuple(self._elts(e.elts, env))
        if isinstance(e, ast.List):
            return list(self._elts(e.elts, env))
        if isinstance(e, ast.BinOp):
            return self.binop(e, e.op, self.eval(e.left, env),
                              self.eval(e.right, env))
        if isinstance(e, ast.UnaryOp):
            v = self.eval(e.operand, env)
            if isinstance(e.op, ast.Not):
                return not self.truth(e.operand, v)
            if isinstance(e.op, ast.USub) and isinstance(v, Obj):
                r = self.call_method(v, "__neg__", [], e)
                if r is NotImplemented:
                    return self._bad(e)
                return r
            if isinstance(e.op, ast.USub):
                return -v if isinstance(v, (int, float, complex, Fraction, Poly,
                                            Native)) else self._bad(e)
            if isinstance(e.op, ast.UAdd):
                return v
            return self._bad(e)
        if isinstance(e, ast.BoolOp):
            v = None
            for x in e.values:
                v = self.eval(x, env)
                t = self.truth(x, v)
                if isinstance(e.op, ast.And) and not t:
                    return v
                if isinstance(e.op, ast.Or) and t:
                    return v
            return v
        if isinstance(e, ast.Compare):
            left = self.eval(e.left, env)
            for op, r in zip(e.ops, e.comparators):
                right = self.eval(r, env)
                ok = self.compare(e, op, left, right)
                if not ok:
                    return False
                left = right
            return True
        if isinstance(e, ast.IfExp):
            return self.eval(e.body if self.truth(e.test, self.eval(e.test, env))
                             else e.orelse, env)
        if isinstance(e, ast.Subscript):
            base = self.eval(e.value, env)
            if isinstance(e.slice, ast.Slice):
                lo = self.eval(e.slice.lower, env) if e.slice.lower else None
                hi = self.eval(e.slice.upper, env) if e.slice.upper else None
                stp = self.eval(e.slice.step, env) if e.slice.step else None
                if not isinstance(base, (tuple, list, str, Native)):
                    raise AnalysisError(f"slice of {base!r}")
                return base[slice(lo, hi, stp)]
            idx = self.eval(e.slice, env)
            if isinstance(base, Native) and isinstance(idx, tuple):
                return base[idx]
            if isinstance(base, dict):
                try:
                    return base[idx]
                except (KeyError, TypeError):
                    raise Raised(e, "KeyError")
            if isinstance(base, (tuple, list, str, dict, Native)) and isinstance(
                    idx, (int, str)):
                try:
                    return base[idx]
                except IndexError:
                    raise Raised(e, "IndexError")
                except KeyError:
                    raise Raised(e, "KeyError")
            raise AnalysisError(f"subscript {ast.unparse(e)} of {base!r}")
        if isinstance(e, ast.Attribute):
            base = self.eval(e.value, env)
            if isinstance(base, Obj):
                if e.attr in base.fields:
                    return base.fields[e.attr]
                r = self.method(base, e.attr)
                if r is not None:
                    if r[0] == "prop":
                        return self.call_function(r[1], [base],
                                                  dict(self.globals))
                    if _is_static(r[1]):
                        return Closure(r[1], dict(self.globals))
                    return Bound(r[1], base, dict(self.globals))
                raise Raised(e)
            if isinstance(base, (dict, list, set, frozenset, str, tuple)) and \
                    e.attr in _SAFE_METHODS and hasattr(base, e.attr):
                return getattr(base, e.attr)
            if self.attrs is not None:
                return self.attrs(self, e, base, e.attr)
            raise AnalysisError(f"attribute {ast.unparse(e)}")
        if isinstance(e, ast.Call):
            return self.call(e, env)
        if isinstance(e, ast.JoinedStr):
            out = []
            for v in e.values:
                if isinstance(v, ast.Constant):
                    out.append(v.value)
                else:
                    x = self.eval(v.value, env)
                    if not isinstance(x, (str, int)):
                        raise AnalysisError(f"f-string over {x!r}")
                    out.append(str(x))
            return "".join(out)
        if isinstance(e, (ast.ListComp, ast.GeneratorExp, ast.SetComp)):
            def gen(i, sub):
                if i == len(e.generators):
                    yield self.eval(e.elt, sub)
                    return
                g = e.generators[i]
                src = self.eval(g.iter, sub)
                if isinstance(src, (set, frozenset)):
                    # (a set has no order of its own: a rule that wants to
                    # see whether the code relies on one asks for the
                    # reverse of the sorted order)
                    src = sorted(src, key=repr, reverse=getattr(
                        self, "set_order", "") == "reversed")
                for x in (src if isinstance(src, AbsGen) or hasattr(
                        src, "__next__") else list(src)):
                    s2 = dict(sub)
                    self.assign(g.target, x, s2)
                    if all(self.truth(c, self.eval(c, s2)) for c in g.ifs):
                        yield from gen(i + 1, s2)
            if isinstance(e, ast.GeneratorExp):
                return gen(0, env)          # lazy, like Python's
            out = list(gen(0, env))
            return set(out) if isinstance(e, ast.SetComp) else out
        if isinstance(e, ast.Yield):
            g = getattr(self._tl, "gen", None)
            if g is None:
                raise AnalysisError("yield outside an interpreted generator")
            g.emit(self.eval(e.value, env) if e.value is not None else None)
            return None
        if isinstance(e, ast.YieldFrom):
            g = getattr(self._tl, "gen", None)
            if g is None:
                raise AnalysisError("yield from outside an interpreted generator")
            for x in self.eval(e.value, env):
                g.emit(x)
            return None
        if isinstance(e, ast.NamedExpr):
            v = self.eval(e.value, env)
            self.assign(e.target, v, env)
            return v
        if isinstance(e, ast.DictComp):
            out = {}
            if len(e.generators) != 1:
                return self._bad(e)
            g = e.generators[0]
            for x in list(self.eval(g.iter, env)):
                s2 = dict(env)
                self.assign(g.target, x, s2)
                if all(self.truth(c, self.eval(c, s2)) for c in g.ifs):
                    out[self.eval(e.key, s2)] = self.eval(e.value, s2)
            return out
        if isinstance(e, ast.Set):
            return set(self._elts(e.elts, env))
        if isinstance(e, ast.Lambda):
            fn = ast.FunctionDef(name="<lambda>", args=e.args,
                                 body=[ast.Return(value=e.body)],
                                 decorator_list=[], lineno=e.lineno,
                                 col_offset=e.col_offset)
            return Closure(fn, env)
        if isinstance(e, ast.Dict):
            return {self.eval(k, env): self.eval(v, env)
                    for k, v in zip(e.keys, e.values)}
        return self._bad(e)

    def _elts(self, elts, env):
        out = []
        for x in elts:
            if isinstance(x, ast.Starred):
                out.extend(list(self.eval(x.value, env)))
            else:
                out.append(self.eval(x, env))
        return out

    def _bad(self, e):
        raise AnalysisError(f"expression not interpreted: {ast.unparse(e)}")

    def compare(self, node, op, a, b):
        if isinstance(op, (ast.Is, ast.IsNot)):
            r = a is b if not isinstance(a, (int, str)) else a == b
            return r if isinstance(op, ast.Is) else not r
        if isinstance(op, (ast.In, ast.NotIn)) and isinstance(a, Poly) and \
                isinstance(b, (dict, set, frozenset, list, tuple)):
            # membership of a normal form in a container: equality of normal
            # forms is equality of the values
            r = any(isinstance(x, (Poly, int, Fraction)) and not isinstance(
                x, bool) and Poly.lift(x) == a for x in b)
            return r if isinstance(op, ast.In) else not r
        sym = any(isinstance(x, (Poly, Mon, Opaque)) for x in (a, b))
        if sym:
            if isinstance(a, (Poly, int, Fraction)) and isinstance(
                    b, (Poly, int, Fraction)) and not isinstance(a, bool):
                d = Poly.lift(a) - Poly.lift(b)
                if d.is_const():
                    return _CMP[type(op)](d.const_value(), 0)
            if self.decide is None:
                raise AnalysisError(f"comparison of symbolic values: "
                                    f"{ast.unparse(node)}")
            return self.decide(self, node, ("compare", op, a, b))
        try:
            return _CMP[type(op)](a, b)
        except KeyError:
            if isinstance(op, ast.In):
                return a in b
            if isinstance(op, ast.NotIn):
                return a not in b
            raise AnalysisError(f"comparison {type(op).__name__}")

    def call(self, e, env):
        fname = ast.unparse(e.func)
        args = self._elts(e.args, env)
        kw = {}
        for k in e.keywords:
            v = self.eval(k.value, env)
            if k.arg:
                kw[k.arg] = v
            elif isinstance(v, dict):
                kw.update(v)
            else:
                raise AnalysisError(f"** of {v!r}")
        if fname in self.calls:
            return self.calls[fname](self, e, args, kw)
        if fname in ("deque", "collections.deque") and len(args) <= 1 and \
                not kw:
            return DQ(args[0]) if args else DQ()
        if fname in ("partial", "functools.partial") and args and isinstance(
                args[0], (Closure, Bound, Partial)):
            return Partial(args[0], args[1:], kw)
        if fname in ("partial", "functools.partial") and args and callable(
                args[0]) and not isinstance(args[0], (Opaque, type)):
            # a rule-supplied callable (a hook standing for an inherited
            # method): the partial application of the hook
            import functools
            return functools.partial(args[0], *args[1:], **kw)
        if isinstance(e.func, ast.Name) and isinstance(env.get(e.func.id),
                                                       Partial):
            return self.apply(env[e.func.id], args, kw)
        if isinstance(e.func, ast.Name) and isinstance(env.get(e.func.id),
                                                       Closure):
            c = env[e.func.id]
            return self.call_function(c.fn, args, dict(c.env, __kwargs__=kw)
                                      if kw else c.env)
        if isinstance(e.func, ast.Attribute):
            base = self.eval(e.func.value, env)
            if isinstance(base, Obj):
                r = self.method(base, e.func.attr)
                if r is None and e.func.attr in base.fields:
                    # a function value kept in an instance attribute
                    return self.apply(base.fields[e.func.attr], args, kw)
                if r is None:
                    raise AnalysisError(f"method {fname} not found")
                recv = [] if _is_static(r[1]) else [base]
                return self.call_function(r[1], recv + args,
                                          dict(self.globals, __kwargs__=kw))
            if isinstance(base, str) and e.func.attr in (
                    "count", "startswith", "endswith", "join", "format",
                    "replace", "strip", "split", "lower", "upper"):
                if all(isinstance(a, (str, int, tuple, list)) for a in args):
                    return getattr(base, e.func.attr)(*args)
            if isinstance(base, dict) and e.func.attr in (
                    "items", "keys", "values", "get", "setdefault", "pop",
                    "copy", "update"):
                r = getattr(base, e.func.attr)(*args)
                return list(r) if e.func.attr in ("items", "keys", "values") \
                    else r
            if isinstance(base, (set, frozenset)) and e.func.attr in (
                    "add", "union", "intersection", "copy", "discard",
                    "difference", "issubset", "issuperset", "isdisjoint",
                    "update", "difference_update", "intersection_update",
                    "remove", "pop", "clear", "symmetric_difference"):
                try:
                    return getattr(base, e.func.attr)(*args)
                except KeyError:
                    raise Raised(e, "KeyError")
            if isinstance(base, DQ) and e.func.attr in (
                    "popleft", "appendleft", "extendleft"):
                try:
                    return getattr(base, e.func.attr)(*args)
                except IndexError:
                    raise Raised(e, "IndexError")
            if isinstance(base, list) and e.func.attr in (
                    "append", "pop", "extend", "sort", "insert"):
                if e.func.attr == "sort":
                    k = kw.get("key")
                    rv_ = kw.get("reverse", False)
                    if not isinstance(rv_, (bool, int)):
                        raise AnalysisError("sort(reverse=<symbolic>)")
                    if isinstance(k, Closure):
                        base.sort(key=lambda v_: self.call_function(
                            k.fn, [v_], k.env), reverse=bool(rv_))
                    elif k is None:
                        try:
                            base.sort(reverse=bool(rv_))
                        except TypeError:
                            # the entries have no order of their own
                            raise Raised(e, "TypeError")
                    else:
                        raise AnalysisError("sort key")
                    return None
                return getattr(base, e.func.attr)(*args)
        if isinstance(e.func, ast.Attribute) and e.func.attr == "format":
            base = self.eval(e.func.value, env)
            if isinstance(base, str) and all(isinstance(a, (str, int))
                                             for a in args):
                return base.format(*args)
        if isinstance(e.func, ast.Attribute) and e.func.attr == "join":
            base = self.eval(e.func.value, env)
            if isinstance(base, str):
                return base.join(args[0])
        short = fname.split(".")[-1]
        if fname == "isinstance" and len(args) == 2:
            r = default_isinstance(args[0], args[1])
            if r is not None:
                return r
        if fname.startswith("re.") and all(isinstance(a, (str, int))
                                           for a in args):
            import re as _re
            if hasattr(_re, short) and short in ("sub", "match", "fullmatch",
                                                 "search", "escape", "split"):
                return getattr(_re, short)(*args, **kw)
        if fname == "getattr" and len(args) in (2, 3) and isinstance(args[1], str):
            # through the attribute rules of the abstract state
            probe = ast.Attribute(value=ast.Name(id="_obj", ctx=ast.Load()),
                                  attr=args[1], ctx=ast.Load())
            ast.copy_location(probe, e)
            ast.fix_missing_locations(probe)
            try:
                return self.eval(probe, {"_obj": args[0]})
            except Raised:
                if len(args) == 3:
                    return args[2]
                raise
        if fname in ("sorted", "min", "max") and isinstance(kw.get("key"),
                                                              Closure):
            k = kw["key"]
            return {"sorted": sorted, "min": min, "max": max}[fname](
                args[0], key=lambda v_: self.call_function(k.fn, [v_], k.env))
        if fname in ("chain", "itertools.chain") and not kw and \
                "chain" not in self.calls:
            out_ = []
            for part in args:
                out_.extend(list(part))
            return out_
        if fname in ("chain.from_iterable", "itertools.chain.from_iterable") \
                and len(args) == 1 and not kw:
            out_ = []
            for part in list(args[0]):
                out_.extend(list(part))
            return out_
        if fname == "dict.fromkeys" and 1 <= len(args) <= 2 and not kw:
            return dict.fromkeys(list(args[0]), *args[1:])
        if fname == "setattr" and len(args) == 3 and isinstance(
                args[0], Obj) and isinstance(args[1], str) and \
                "setattr" not in self.calls:
            args[0].fields[args[1]] = args[2]
            return None
        if fname == "dict" and not args and kw and "dict" not in env:
            return dict(kw)         # dict(name=value, ...): values as they are
        if fname in _BUILTINS:
            def host(v):
                # interpreted functions handed to a builtin (reduce, map, key=)
                if isinstance(v, Closure):
                    return lambda *a, **k: self.call_function(
                        v.fn, list(a), dict(v.env, __kwargs__=dict(k)))
                if isinstance(v, Bound):
                    return lambda *a, **k: self.call_function(
                        v.fn, [v.obj] + list(a), dict(v.env, __kwargs__=dict(k)))
                return v
            args = [host(a) for a in args]
            kw = {k_: host(v) for k_, v in kw.items()}
            if fname in ("map", "filter"):
                f0 = args[0]
                if isinstance(f0, Opaque):
                    nm_ = f0.what.split(" ")[-1]
                    if f0.what.split(" ")[0] in ("function", "class") and \
                            nm_ in _BUILTINS:
                        f0 = _BUILTINS[nm_]
                    elif f0.what == "class str":
                        f0 = str
                    else:
                        raise AnalysisError(f"{fname}({f0!r}, ...)")
                elif f0 is None and fname == "filter":
                    f0 = bool
                if not callable(f0):
                    raise AnalysisError(f"{fname}({f0!r}, ...)")
                its = [list(x) for x in args[1:]]
                if fname == "map":
                    return [f0(*xs) for xs in zip(*its)]
                return [x for x in its[0] if self.truth(e, f0(x))]
            try:
                return _BUILTINS[fname](*args, **kw)
            except TypeError:
                raise AnalysisError(f"builtin {fname} on abstract values "
                                    f"{args!r}")
        if short == "attrgetter" and len(args) == 1 and isinstance(
                args[0], str) and args[0].isidentifier() and not kw:
            fn = ast.parse(f"lambda v: v.{args[0]}", mode="eval").body
            return self.eval(fn, {})
        if short in ("itemgetter",) and len(args) == 1 and isinstance(
                args[0], int):
            i_ = args[0]
            fn = ast.parse(f"lambda v: v[{i_}]", mode="eval").body
            return self.eval(fn, {})
        if short in ("index", "__index__") and len(args) == 1 and isinstance(
                args[0], (int, Poly)) and not isinstance(args[0], bool):
            return args[0]
        if isinstance(e.func, ast.Name) and isinstance(
                self.globals.get(e.func.id), Closure):
            c = self.globals[e.func.id]
            return self.call_function(c.fn, args, c.env)
        # a value that is itself a (rule-supplied) callable
        try:
            fv = self.eval(e.func, env)
        except AnalysisError:
            fv = None
        if isinstance(fv, (Closure, Bound, Partial)):
            return self.apply(fv, args, kw)
        if isinstance(fv, Obj):
            # an instance applied: its class's __call__
            r = self.method(fv, "__call__")
            if r is not None and r[0] == "func":
                return self.call_function(r[1], [fv] + list(args),
                                          dict(self.globals, __kwargs__=kw))
        if callable(fv) and not isinstance(fv, (Opaque, type)):
            return fv(*args, **kw)
        if isinstance(fv, Opaque) and fv.what.startswith("class "):
            # a class held in a variable (node_type(...), globals()[name](...)):
            # the rule's model of calling that class by name
            nm_ = fv.what.split(" ")[-1]
            if nm_ in self.calls:
                return self.calls[nm_](self, e, args, kw)
        raise AnalysisError(f"call of {fname} is not modelled")


_CONCRETE = {
    ast.Add: lambda a, b: a + b, ast.Sub: lambda a, b: a - b,
    ast.Mult: lambda a, b: a * b, ast.FloorDiv: lambda a, b: a // b,
    ast.Mod: lambda a, b: a % b, ast.Pow: lambda a, b: a ** b,
    ast.BitAnd: lambda a, b: a & b, ast.BitOr: lambda a, b: a | b,
    ast.RShift: lambda a, b: a >> b, ast.LShift: lambda a, b: a << b,
    ast.BitXor: lambda a, b: a ^ b,
    ast.Div: lambda a, b: Fraction(a) / b,
}
_SAFE_METHODS = {"get", "items", "keys", "values", "setdefault", "pop", "copy",
                 "update", "append", "extend", "add", "discard", "union",
                 "count", "index", "startswith", "endswith", "join", "split",
                 "strip", "replace", "lower", "upper", "format", "isidentifier",
                 "isdigit"}
_PY_TYPES = {"dict": dict, "Mapping": dict, "MutableMapping": dict, "list": list,
             "tuple": tuple, "str": str, "int": int, "float": float,
             "complex": complex, "set": set, "frozenset": frozenset,
             "bool": bool, "Sequence": (list, tuple), "Iterable": (
                 list, tuple, set, frozenset, dict), "Hashable": (
                 int, str, tuple, frozenset, float)}


def default_isinstance(v, c):
    """isinstance() against a builtin / collections.abc class named by an
    opaque value; None if the class is not one of those"""
    names = [getattr(x, "what", "") for x in (c if isinstance(c, tuple) else [c])]
    tys = []
    for w in names:
        key = w.split(" ")[-1].split(".")[-1]
        if key not in _PY_TYPES:
            return None
        t = _PY_TYPES[key]
        tys.extend(t if isinstance(t, tuple) else [t])
    if isinstance(v, bool) and int in tys and bool not in tys:
        return True
    if isinstance(v, Poly):
        if not v.is_const():
            return None         # a symbolic scalar: its type is not known
        c0 = v.const_value()
        v = int(c0) if c0.denominator == 1 else c0
        if not isinstance(v, int):
            return None
    elif isinstance(v, (Mon, Opaque)):
        return None
    return isinstance(v, tuple(tys))


_DUNDER = {
    ast.Add: ("__add__", "__radd__"), ast.Sub: ("__sub__", "__rsub__"),
    ast.Mult: ("__mul__", "__rmul__"), ast.Div: ("__truediv__", "__rtruediv__"),
    ast.FloorDiv: ("__floordiv__", "__rfloordiv__"),
    ast.Mod: ("__mod__", "__rmod__"), ast.Pow: ("__pow__", "__rpow__"),
    ast.BitOr: ("__or__", "__ror__"), ast.BitXor: ("__xor__", "__rxor__"),
    ast.BitAnd: ("__and__", "__rand__"),
    ast.LShift: ("__lshift__", "__rlshift__"),
    ast.RShift: ("__rshift__", "__rrshift__"),
}
_CMP = {
    ast.Eq: lambda a, b: a == b, ast.NotEq: lambda a, b: a != b,
    ast.Lt: lambda a, b: a < b, ast.LtE: lambda a, b: a <= b,
    ast.Gt: lambda a, b: a > b, ast.GtE: lambda a, b: a >= b,
}
_BUILTINS = {
    "len": len, "range": range,
    "enumerate": lambda x, s=0: list(enumerate(
        x.items if isinstance(x, Native) and hasattr(x, "items") else x, s)),
    "reversed": lambda x: list(reversed(x)), "zip": lambda *a: list(zip(*a)),
    "tuple": lambda x=(): tuple(x), "list": lambda x=(): list(x),
    "set": lambda x=(): set(x), "frozenset": lambda x=(): frozenset(x),
    "dict": lambda x=(): dict(x), "any": any, "all": all, "sum": sum,
    "bin": bin, "next": next, "iter": iter, "map": map, "filter": filter,
    "reduce": __import__("functools").reduce,
    "int": lambda x: x if isinstance(x, (int, Poly)) and not isinstance(
        x, bool) else int(x),
    "abs": abs, "min": min, "max": max, "str": str, "repr": repr,
    "isinstance": None, "sorted": lambda x: sorted(x), "bool": bool,
}
del _BUILTINS["isinstance"]


def _is_generator_fn(fn):
    def walk(n):
        for ch in ast.iter_child_nodes(n):
            if isinstance(ch, (ast.FunctionDef, ast.Lambda, ast.ClassDef)):
                continue
            if isinstance(ch, (ast.Yield, ast.YieldFrom)):
                return True
            if walk(ch):
                return True
        return False
    return walk(fn)


def module_env(tree, extra=None):
    """the module-level names a function of that module sees: functions as
    closures, classes and imported names as opaque values, simple constants
    (numbers, strings, None, empty containers, object() sentinels) as
    themselves"""
    glob = dict(extra or {})
    for st in tree.body:
        if isinstance(st, ast.FunctionDef):
            glob.setdefault(st.name, Closure(st, glob))
        elif isinstance(st, ast.ClassDef):
            glob.setdefault(st.name, Opaque(f"class {st.name}"))
        elif isinstance(st, (ast.Import, ast.ImportFrom)):
            for a in st.names:
                nm = (a.asname or a.name).split(".")[0]
                glob.setdefault(nm, Opaque(f"module {a.name}")
                                if isinstance(st, ast.Import) else
                                Opaque(f"imported {a.name}"))
        elif isinstance(st, (ast.Assign, ast.AnnAssign)):
            tg = st.targets[0] if isinstance(st, ast.Assign) else st.target
            v = st.value
            if not isinstance(tg, ast.Name) or v is None:
                continue
            if isinstance(v, ast.Constant):
                glob.setdefault(tg.id, v.value)
            elif isinstance(v, ast.Dict) and not v.keys:
                glob.setdefault(tg.id, {})
            elif isinstance(v, (ast.List, ast.Tuple, ast.Set)) and not v.elts:
                glob.setdefault(tg.id, [] if isinstance(v, ast.List) else
                                () if isinstance(v, ast.Tuple) else set())
            elif isinstance(v, (ast.List, ast.Tuple, ast.Set, ast.Dict)):
                # a literal container of constants
                try:
                    glob.setdefault(tg.id, ast.literal_eval(v))
                except (ValueError, SyntaxError, TypeError):
                    pass
            elif isinstance(v, ast.Call) and isinstance(v.func, ast.Name) and \
                    v.func.id in ("frozenset", "tuple", "set") and \
                    len(v.args) <= 1 and not v.keywords:
                try:
                    arg = ast.literal_eval(v.args[0]) if v.args else ()
                    glob.setdefault(tg.id, {"frozenset": frozenset,
                                            "tuple": tuple,
                                            "set": set}[v.func.id](arg))
                except (ValueError, SyntaxError, TypeError):
                    pass
            elif isinstance(v, ast.Call) and ast.unparse(v) in (
                    "object()", "dict()", "set()", "list()"):
                glob.setdefault(tg.id, {"object()": object(), "dict()": {},
                                        "set()": set(), "list()": []}[
                                            ast.unparse(v)])
    return glob


def explore(run, max_decisions=12, max_runs=512):
    """run(decider) for every sequence of polarities a decider hands out;
    `decider(label)` returns the polarity for the next undecided branch.
    Returns [(decisions, result)], where decisions = [(label, polarity)]."""
    out = []
    todo = [[]]
    while todo:
        prefix = todo.pop()
        trace = []

        def decider(label, _p=prefix, _t=trace):
            i = len(_t)
            pol = _p[i] if i < len(_p) else True
            _t.append((label, pol))
            if len(_t) > max_decisions:
                raise AnalysisError("too many symbolic branches on one path")
            return pol
        res = run(decider)
        out.append((list(trace), res))
        for i in range(len(prefix), len(trace)):
            todo.append([p for _, p in trace[:i]] + [False])
        if len(out) > max_runs:
            raise AnalysisError("too many paths in the abstract interpretation")
    return out
