"""Printer model: templates extracted from a StringifyMapper-family class and a
generic "parenthesise-if" printer driven only by those templates.

Template language

  ("lit", s)
  ("data", field)                          expr.<field> inserted as text
  ("hole", field, prec, forced)            self.rec(expr.<field>, prec)
  ("join", sep, field, prec, forced)       join_rec(sep, expr.<field>, prec)
  ("joinseq", sep, parts)                  sep.join(part1 + part2 ...)
        part: ("each", field, template-with-("elemhole", prec)/("key",))
  ("cat", (t1, t2, ...))
  ("paren_if", t, my_prec)                 parenthesize_if_needed(t, enclosing, my)
  ("paren", t)
  ("typename",)                            type(expr).__name__.lower() etc.

forced: tuple of class names whose instances get unconditional parentheses
(rec_with_force_parens_around), or ().
"""
from __future__ import annotations

import ast
import itertools
from dataclasses import dataclass, field

from . import AnalysisError, ModelViolation
from .grammar import NARY, _consts, _fold
from .model import ClassInfo, NodeClass, resolve_handler
from .rules import handler_summaries, node_fields
from .summary import NODE, summarize

STR = "pymbolic.mapper.stringifier"


@dataclass
class Variant:
    conds: tuple            # (("field_is_tuple", f, bool) | ("len_eq", n, bool))
    template: tuple


@dataclass
class PrinterTable:
    mapper: ClassInfo
    precs: dict                       # PREC_* name -> int
    templates: dict                   # node class name -> [Variant]
    handler_of: dict                  # node class name -> "Owner.handler"
    const_rule: dict                  # constant printing rule
    paren_op: str = ">"               # comparison inside parenthesize_if_needed
    notes: list = field(default_factory=list)
    custom: dict = field(default_factory=dict)

    def prec(self, v):
        return v


class Unsupported(Exception):
    pass


# ---------------------------------------------------------------------------

def _prec_value(v, precs):
    """abstract precedence argument -> int"""
    if v[0] == "global" and v[1] in precs:
        return precs[v[1]]
    if v[0] == "const" and isinstance(v[1], int):
        return v[1]
    if v[0] == "binop" and v[1] in ("Add", "Sub"):
        a, b = _prec_value(v[2], precs), _prec_value(v[3], precs)
        return a + b if v[1] == "Add" else a - b
    if v[0] == "param" and v[1] == "enclosing_prec":
        return "ENCLOSING"
    raise Unsupported(f"precedence value {v}")


def _class_names(model, mapper, v, own=None):
    """value of a force_parens_around assignment -> tuple of class names"""
    if v[0] == "seq" and len(v) == 5 and v[2] == ("elem", v[3]) and \
            own is not None:
        # a comprehension over a tuple of classes that leaves out the class
        # of the node at hand: (c for c in <classes> if c is not type(expr))
        import re
        names = _class_names(model, mapper, v[3])
        for flt in v[4]:
            if not re.fullmatch(r"\w+ is not type\(\w+\)", str(flt)):
                raise Unsupported(f"forced set filter {flt}")
            names = tuple(x for x in names if x != own)
        return names
    if v[0] == "lit":
        out = []
        for x in v[2]:
            if x[0] == "attr":
                out.append(x[2])
            elif x[0] == "global":
                out.append(x[1])
            else:
                raise Unsupported(f"forced class {x}")
        return tuple(out)
    if v[0] == "self":
        mem = model.lookup(mapper, v[1])
        if mem is None or mem.kind != "value" or not isinstance(
                mem.node, ast.Tuple):
            raise Unsupported(f"self.{v[1]} is not a tuple literal")
        return tuple(e.attr if isinstance(e, ast.Attribute) else e.id
                     for e in mem.node.elts)
    raise Unsupported(f"forced set {v}")


class _Conv:
    def __init__(self, model, mapper, precs, forced):
        self.model = model
        self.mapper = mapper
        self.precs = precs
        self.forced = forced
        self.env_tuples = {}

    def fmt_split(self, fmt, args, style):
        parts = []
        if style == "%":
            pieces = fmt.replace("%%", "\0").split("%s")
            pieces = [p.replace("\0", "%") for p in pieces]
        else:
            pieces = fmt.split("{}")
        if len(pieces) != len(args) + 1:
            raise Unsupported(f"format string {fmt!r} with {len(args)} arguments")
        for i, pc in enumerate(pieces):
            if pc:
                parts.append(("lit", pc))
            if i < len(args):
                parts.append(self.conv(args[i]))
        return ("cat", tuple(parts))

    def forced_kw(self, call):
        for k, val in call[3]:
            if k == "force_parens_around":
                if val[0] == "global" and val[1] in self.env_tuples:
                    return self.env_tuples[val[1]]
                return _class_names(self.model, self.mapper, val)
        return self.forced

    def field_of(self, v):
        if v[0] == "field":
            return v[1]
        if v == NODE:
            return "@self"
        raise Unsupported(f"child reference {v}")

    def conv(self, v):
        t = v[0]
        if t == "subtemplate":
            return v[1]
        if t == "const" and isinstance(v[1], str):
            return ("lit", v[1])
        if t == "field":
            return ("data", v[1])
        if t == "attr" and v[1] == NODE:
            return ("data", v[2])
        if t == "attr" and v[1][0] == "field" and v[2] == "name":
            return ("childname", v[1][1])
        if t == "rec":
            prec = _prec_value(v[3][0], self.precs) if v[3] else 0
            if v[1][0] == "binop" and v[1][1] == "Mult" and \
                    v[1][2][0] == "field" and v[1][3][0] == "field":
                return ("hole_mul", v[1][2][1], v[1][3][1], prec)
            return ("hole", self.field_of(v[1]), prec, ())
        if t == "call":
            name, args = v[1], v[2]
            if name == "self.format":
                if args[0][0] != "const":
                    raise Unsupported("non-literal format")
                return self.fmt_split(args[0][1], args[1:], "%")
            if name == "self.parenthesize_if_needed":
                if args[1] != ("param", "enclosing_prec"):
                    raise Unsupported("parenthesize_if_needed not on "
                                      "enclosing_prec")
                return ("paren_if", self.conv(args[0]),
                        _prec_value(args[2], self.precs))
            if name == "self.parenthesize":
                return ("paren", self.conv(args[0]))
            if name == "self.join_rec":
                return ("join", args[0][1], self.field_of(args[1]),
                        _prec_value(args[2], self.precs), self.forced_kw(v))
            if name == "self.rec_with_force_parens_around":
                return ("hole", self.field_of(args[0]),
                        _prec_value(args[1], self.precs), self.forced_kw(v))
            if name == "self.join":
                sep = args[0][1]
                seq = args[1]
                if seq[0] == "seq" and seq[2][0] == "ifexp" and \
                        len(seq[2]) == 4:
                    # "" if el is None else rec(el): what the statement form
                    # (append "" / append rec(el)) is summarised to
                    arms = [a for a in seq[2][2:] if a != ("const", "")]
                    tv = getattr(seq[2][1], "val", None)
                    if len(arms) == 1 and tv is not None and \
                            tv[0] == "compare" and tv[1] in (("Is",), ("IsNot",)) \
                            and tv[3][0] == ("const", None) and tv[2][0] == "elem":
                        seq = seq[:2] + (arms[0],) + seq[3:]
                if seq[0] == "seq" and seq[2][0] == "rec":
                    prec = _prec_value(seq[2][3][0], self.precs)
                    return ("join", sep, self.field_of(seq[3]), prec, ())
                if seq[0] == "seq" and seq[2][0] == "call" and seq[2][1] == \
                        "self.rec_with_force_parens_around" and \
                        seq[2][2][0][0] == "elem":
                    return ("join", sep, self.field_of(seq[3]),
                            _prec_value(seq[2][2][1], self.precs),
                            self.forced_kw(seq[2]))
                raise Unsupported(f"self.join over {seq}")
            if name == "str" and args == (NODE,):
                return ("data", "@str")
            if name in ("repr", "str") and len(args) == 1 and \
                    args[0][0] == "field":
                return ("constrepr", args[0][1], name)
            if name == "repr" and len(args) == 1 and args[0][0] == "call" and \
                    args[0][1] == "float" and len(args[0][2]) == 1 and \
                    args[0][2][0][0] == "field":
                return ("floatrepr", args[0][2][0][1])
            raise Unsupported(f"call {name}")
        if t == "strformat":
            return self.fmt_split(v[1], v[2], "{}")
        if t == "fstring":
            return ("cat", tuple(self.conv(x) for x in v[1]))
        if t == "binop" and v[1] == "Add":
            return ("cat", (self.conv(v[2]), self.conv(v[3])))
        if t == "strjoin":
            sep = v[1]
            return ("joinseq", sep, tuple(self.seqparts(v[2][0])))
        raise Unsupported(f"value {t}: {str(v)[:100]}")

    def seqparts(self, s):
        if s[0] == "binop" and s[1] == "Add":
            return self.seqparts(s[2]) + self.seqparts(s[3])
        if s[0] == "seq":
            el, src = s[2], s[3]
            if src[0] == "items":
                fld = self.field_of(src[1])
                kind = "items"
            else:
                fld = self.field_of(src)
                kind = "elems"
            return [("each", fld, kind, self.elem_template(el))]
        if s[0] == "extend" and len(s) == 4:
            # a sequence appended to, once or in a loop over a field
            el, src = s[2], s[3]
            if src is None:
                return self.seqparts(s[1]) + [("one", self.conv(el))]
            kind = "items" if src[0] == "items" else "elems"
            fld = self.field_of(src[1] if src[0] == "items" else src)
            return self.seqparts(s[1]) + [
                ("each", fld, kind, self.elem_template(el))]
        if s[0] == "lit" and s[1] in ("tuple", "list"):
            # a literal sequence of strings, possibly with starred sequences
            out = []
            for x in s[2]:
                if x[0] == "star":
                    out.extend(self.seqparts(x[1]))
                else:
                    out.append(("one", self.conv(x)))
            return out
        if s[0] == "call" and s[1] in ("tuple", "list") and len(s[2]) == 1:
            return self.seqparts(s[2][0])
        raise Unsupported(f"sequence part {s[0]}")

    def elem_template(self, el):
        if el[0] == "rec":
            return ("elemhole", _prec_value(el[3][0], self.precs))
        if el[0] == "strformat":
            parts = []
            pieces = el[1].split("{}")
            for i, pc in enumerate(pieces):
                if pc:
                    parts.append(("lit", pc))
                if i < len(el[2]):
                    parts.append(self.elem_template(el[2][i]))
            return ("cat", tuple(parts))
        if el[0] == "key":
            return ("key",)
        if el[0] == "fstring":
            return ("cat", tuple(self.elem_template(x) for x in el[1]))
        if el[0] == "const" and isinstance(el[1], str):
            return ("lit", el[1])
        if el[0] == "binop" and el[1] == "Add":
            return ("cat", (self.elem_template(el[2]), self.elem_template(el[3])))
        raise Unsupported(f"element template {el}")


def _cond(v, pol):
    if v[0] == "boolop" and v[1] == "And":
        parts = tuple(c for c in (_cond(x, True) for x in v[2]) if c)
        return ("all", parts, pol)
    if v[0] == "call" and v[1] == "isinstance" and v[2][0][0] == "field" \
            and v[2][1] == ("global", "tuple"):
        return ("field_is_tuple", v[2][0][1], pol)
    if v[0] == "call" and v[1] == "isinstance" and v[2][0][0] == "field" \
            and v[2][1] == ("global", "int"):
        return ("field_is_int", v[2][0][1], pol)
    if v[0] == "compare" and v[1] == ("Is",) and v[2][0] == "typeof" \
            and v[2][1][0] == "field" and v[3][0] == ("global", "int"):
        return ("field_is_int", v[2][1][1], pol)
    if v[0] == "compare" and v[1] == ("Eq",) and v[2][0] == "field" \
            and v[3][0][0] == "const" and isinstance(v[3][0][1], (int, float)):
        return ("field_eq", v[2][1], v[3][0][1], pol)
    if v[0] == "compare" and v[1] == ("Eq",) and v[2] == ("len", NODE) \
            and v[3][0][0] == "const":
        return ("len_eq", v[3][0][1], pol)
    if v[0] == "compare" and v[1] in (("Is",), ("IsNot",)) and \
            v[3][0] == ("const", None) and v[2][0] == "elem":
        return None    # None elements of a slice: handled by the join
    if v[0] == "call" and v[1] == "isinstance" and v[2][0][0] == "field" \
            and v[2][1][0] == "global" and v[2][1][1] == "Variable":
        return ("field_is_var", v[2][0][1], pol)
    if v[0] == "compare" and len(v[1]) == 1 and v[2] == ("param", "enclosing_prec") \
            and v[1][0] in ("Gt", "GtE", "Lt", "LtE"):
        return ("enclosing_cmp", v[1][0], v[3][0], pol)
    if v[0] == "call" and v[1] == "is_constant" and v[2][0][0] == "field":
        return ("field_is_const", v[2][0][1], pol)
    if v[0] == "call" and v[1] == "is_zero" and len(v[2]) == 1:
        a = v[2][0]
        if a[0] == "field":
            return ("field_eq", a[1], 0, pol)
        if a[0] == "binop" and a[1] == "Sub" and a[2][0] == "field" \
                and a[3][0] == "const":
            return ("field_eq", a[2][1], a[3][1], pol)
    raise Unsupported(f"condition {str(v)[:80]}")


def extract_printer_table(model, mapper_key=f"{STR}:StringifyMapper",
                          node_names=None, custom=None,
                          const_rule=True) -> PrinterTable:
    mapper = model.cls(mapper_key)
    sm = model.repo.module(STR)
    precs = _consts(model, sm, "PREC_")
    if len(precs) < 10:
        raise AnalysisError("stringifier PREC_* constants not found")
    table = PrinterTable(mapper, precs, {}, {}, {})
    _check_paren_if(model, mapper, table)
    # fidelity of the helper methods
    _check_helpers(model, mapper, table)
    nt = model.nodes
    for n in nt.all():
        if node_names is not None and n.name not in node_names:
            continue
        if n.mapper_method is None:
            continue
        res, chain, mem = resolve_handler(model, mapper, n)
        if mem is None or mem.kind != "func" or res.via in ("unsupported",):
            continue
        table.handler_of[n.name] = f"{mem.owner.name}.{mem.node.name}"
        if custom and mem.node.name in custom.get(mem.owner.name, ()):
            continue
        try:
            table.templates[n.name] = _extract_handler(model, mapper, n, mem,
                                                       precs)
        except Unsupported as e:
            table.notes.append(f"{n.name}: {mem.owner.name}.{mem.node.name}: {e}")
    # foreign objects: tuple
    mem = model.lookup(mapper, "map_tuple")
    if mem is not None and mem.kind == "func":
        try:
            table.templates["Tuple"] = _extract_plain(model, mapper, mem, precs)
            table.handler_of["Tuple"] = f"{mem.owner.name}.map_tuple"
        except Unsupported as e:
            table.notes.append(f"Tuple: {e}")
    if const_rule:
        table.const_rule = _extract_const_rule(model, mapper, precs)
    return table


def _paths(model, mapper, name):
    mem = model.lookup(mapper, name)
    if mem is None or mem.kind != "func":
        raise AnalysisError(f"{mapper.name}.{name} not found")
    return mem, [ps for ps in summarize(mem.node, node_param=False)]


def _wrapped(v, inner):
    """v == '(' + inner + ')' in any of the spellings"""
    if v[0] == "fstring":
        return v[1] == (("const", "("), inner, ("const", ")"))
    if v[0] == "binop" and v[1] == "Add":
        return v == ("binop", "Add", ("binop", "Add", ("const", "("), inner),
                     ("const", ")"))
    if v[0] == "strformat" and v[1] == "({})":
        return v[2] == (inner,)
    if v[0] == "call" and v[1] == "self.parenthesize" and len(v) > 2:
        # the printer's own helper; that it wraps on every path is a rule
        # instance of its own (T/printer/parenthesize-always-wraps)
        return tuple(v[2]) == (inner,)
    return False


def _check_paren_if(model, mapper, table):
    mem, pss = _paths(model, mapper, "parenthesize_if_needed")
    params = [a.arg for a in mem.node.args.args]
    if len(params) != 4:
        raise AnalysisError("parenthesize_if_needed signature changed")
    s, enc, my = (("param", x) for x in params[1:])
    op = None
    seen = set()
    where = f"{mapper.module.relpath}:{mem.node.lineno}"

    def norm_cmp(c):
        """'enclosing OP my' for a comparison of the two precedences, else None"""
        if not (isinstance(c, tuple) and c[0] == "compare" and len(c[1]) == 1):
            return None
        cop, left, right = c[1][0], c[2], c[3][0]
        if (left, right) == (enc, my):
            return {"Gt": ">", "GtE": ">=", "Lt": "<", "LtE": "<="}.get(cop)
        if (left, right) == (my, enc):
            return {"Lt": ">", "LtE": ">=", "Gt": "<", "GtE": "<="}.get(cop)
        return None

    for ps in pss:
        if ps.term != "return":
            raise AnalysisError("parenthesize_if_needed: unexpected path")
        norm = None
        compound = False
        for _, pol, c in ps.conds:
            while isinstance(c, tuple) and c[0] == "unop" and c[1] == "Not":
                c, pol = c[2], not pol
            n = norm_cmp(c)
            if n is not None:
                norm = n if pol else {">": "<=", ">=": "<", "<": ">=",
                                      "<=": ">"}[n]
            elif isinstance(c, tuple) and c[0] == "boolop" and any(
                    norm_cmp(x) for x in c[2]):
                # (prec test) and/or (something else)
                inner = [norm_cmp(x) for x in c[2] if norm_cmp(x)][0]
                if c[1] == "And" and pol:
                    norm = inner
                elif c[1] == "Or" and not pol:
                    norm = {">": "<=", ">=": "<", "<": ">=", "<=": ">"}[inner]
                else:
                    compound = True
            else:
                compound = True
        if _wrapped(ps.retval, s) and norm in (">", ">="):
            op = norm
            seen.add("wrap")
        elif ps.retval == s and norm in ("<=", "<") and not compound:
            seen.add("bare")
        elif ps.retval == s and (compound or norm is None):
            raise ModelViolation(
                "T/printer/parenthesize-if-needed", where,
                f"{mapper.name}.parenthesize_if_needed returns the text bare on "
                "a path that is not determined by 'enclosing precedence <= own "
                "precedence' alone: a lower-precedence child can be printed "
                "without parentheses depending on something else (e.g. the "
                "rendered text)")
        elif norm is None:
            raise AnalysisError("parenthesize_if_needed does not compare "
                                "enclosing_prec with my_prec")
        else:
            raise AnalysisError("parenthesize_if_needed returns something else")
    if seen != {"wrap", "bare"} or op not in (">", ">="):
        raise AnalysisError("parenthesize_if_needed: wrap/bare paths not found")
    table.paren_op = op
    mem, pss = _paths(model, mapper, "parenthesize")
    sp = ("param", mem.node.args.args[1].arg)
    if any(ps.term == "return" and ps.retval == sp for ps in pss):
        raise ModelViolation(
            "T/printer/parenthesize-always-wraps",
            f"{mapper.module.relpath}:{mem.node.lineno}",
            f"{mapper.name}.parenthesize returns its argument as it is on some "
            "path (depending on the text): the handlers call it where "
            "parentheses are *needed*, and a text that merely starts with '(' "
            "and ends with ')' -- '(a + b)*(c + d)', '(-1)*(y + z)' -- is not "
            "enclosed by them, so x/((-1)*(y + z)) prints as x/(-1)*(y + z)")
    if not all(ps.term == "return" and _wrapped(ps.retval, sp) for ps in pss):
        raise AnalysisError("parenthesize() does not wrap in parentheses")


def _check_helpers(model, mapper, table):
    """join_rec passes its precedence to every element through
    rec_with_force_parens_around; rec_with_force_parens_around pops the
    forced set, recurses with the same arguments and wraps on isinstance."""
    mem, pss = _paths(model, mapper, "join_rec")
    pr = [a.arg for a in mem.node.args.args]
    joiner, iterable, prec = (("param", x) for x in pr[1:4])
    fmt_of = lambda it: ("call", "joiner.join",  # noqa: E731
                         (("seq", "gen", ("const", "%s"), it, ()),), (),
                         ("recv", joiner, "join"))
    ok = len(pss) == 1 and pss[0].term == "return"
    if ok:
        rv = pss[0].retval
        ok = (rv[0] == "call" and rv[1] == "self.format"
              and rv[2][0] == fmt_of(iterable) and len(rv[2]) == 2
              and rv[2][1][0] == "star" and rv[2][1][1][0] == "seq"
              and rv[2][1][1][3] == iterable and not rv[2][1][1][4])
        if ok:
            el = rv[2][1][1][2]
            ok = (el[0] == "call"
                  and el[1] == "self.rec_with_force_parens_around"
                  and el[2] == (("elem", iterable), prec))
            ev = [e for e in pss[0].events if e.kind == "selfcall"
                  and e.name == "rec_with_force_parens_around"]
            ok = ok and len(ev) == 1 and ev[0].fwd_args and ev[0].fwd_kwargs
    if not ok:
        raise AnalysisError("join_rec: does not format joiner.join('%s'...) with "
                            "rec_with_force_parens_around(i, prec, *args, "
                            "**kwargs) for every element")
    mem, pss = _paths(model, mapper, "rec_with_force_parens_around")
    ex = ("param", mem.node.args.args[1].arg)
    where = f"{mapper.module.relpath}:{mem.node.lineno}"
    seen = set()

    def is_forced_test(c):
        return (isinstance(c, tuple) and c[0] == "call" and c[1] == "isinstance"
                and c[2][0] == ex
                and c[2][1][0] == "call" and c[2][1][1] == "kwargs.pop"
                and c[2][1][2][0] == ("const", "force_parens_around")
                and c[2][1][2][1] == ("lit", "tuple", ()))

    def forced_known(ps):
        """True / False if the path's conditions determine the isinstance test,
        None if the path can be taken with the child in the forced set *and*
        with it outside"""
        for _, pol, c in ps.conds:
            while isinstance(c, tuple) and c[0] == "unop" and c[1] == "Not":
                c, pol = c[2], not pol
            if is_forced_test(c):
                return pol
            if isinstance(c, tuple) and c[0] == "boolop":
                parts = c[2]
                if c[1] == "And" and pol and any(is_forced_test(x) for x in parts):
                    return True
                if c[1] == "Or" and not pol and any(is_forced_test(x)
                                                    for x in parts):
                    return False
        return None

    for ps in pss:
        if ps.term != "return":
            raise AnalysisError("rec_with_force_parens_around: unexpected path")
        recs = [e for e in ps.events if e.kind == "rec"]
        pops = [e for e in ps.events if e.name == "kwargs.pop"]
        good_r = (len(recs) == 1 and recs[0].args == (ex,) and recs[0].fwd_args
                  and recs[0].fwd_kwargs and pops
                  and ps.events.index(pops[0]) < ps.events.index(recs[0]))
        inner = ("rec", ex, True, ())
        if not good_r:
            raise AnalysisError("rec_with_force_parens_around: does not pop "
                                "force_parens_around, recurse with the same "
                                "arguments and test isinstance")
        forced = forced_known(ps)
        if _wrapped(ps.retval, inner) and forced is True:
            seen.add("wrap")
        elif ps.retval == inner and forced is False:
            seen.add("bare")
        elif ps.retval == inner and forced in (None, True):
            raise ModelViolation(
                "T/printer/forced-parens-unconditional", where,
                f"{mapper.name}.rec_with_force_parens_around returns the child's "
                "text without parentheses on a path on which the child may "
                "belong to force_parens_around (the parentheses depend on "
                "something else than the child's class, e.g. on the rendered "
                "text): '(a + b)*(c + d)' starts and ends with a parenthesis "
                "without being enclosed, so x/((a+b)*(c+d)) loses its grouping")
        else:
            raise AnalysisError("rec_with_force_parens_around: wrong result on "
                                "a branch")
    if seen != {"wrap", "bare"}:
        raise AnalysisError("rec_with_force_parens_around: branches missing")
    mem, pss = _paths(model, mapper, "format")
    sp = ("param", mem.node.args.args[1].arg)
    if not all(ps.retval == ("binop", "Mod", sp, ("varargs",)) for ps in pss):
        raise AnalysisError("format() is not 's % args'")
    mem, pss = _paths(model, mapper, "join")
    pr = [a.arg for a in mem.node.args.args]
    joiner, iterable = ("param", pr[1]), ("param", pr[2])
    want = ("call", "self.format",
            (("call", "joiner.join", (("seq", "gen", ("const", "%s"), iterable,
                                       ()),), (), ("recv", joiner, "join")),
             ("star", iterable)), ())
    if not all(ps.retval == want for ps in pss):
        # not the shape known: the helper interpreted on lists of pieces --
        # empty pieces among them, which map_slice hands in for omitted bounds
        # -- must be str.join
        wit = _judge_join(model, mem)
        if wit:
            raise ModelViolation(
                "T/printer/join/is-str-join",
                f"{mem.owner.module.relpath}:{mem.node.lineno}",
                "join(joiner, pieces) is not joiner.join(pieces): "
                + "; ".join(wit[:2]) + " -- an omitted slice bound is handed "
                "in as the empty piece, so a[:i] is printed as a[i]")


def _judge_join(model, mem):
    from .absint import Interp, Obj, Opaque, Raised, StepBound, module_env
    glob = module_env(mem.owner.module.tree, {})
    wit = []
    for joiner in (":", " + "):
        for pieces in ([], ["a"], ["a", "b"], ["", "b"], ["a", ""], ["", ""],
                       ["a", "", "c"]):
            def fmt(it, nd, a, k):
                try:
                    return a[0] % tuple(a[1:])
                except TypeError:
                    raise Raised(nd, "TypeError")
            it = Interp(calls={"self.format": fmt},
                        attrs=lambda it_, n_, b, at: Opaque(ast.unparse(n_)),
                        globals_=glob, max_steps=5000)
            try:
                got = it.call_function(mem.node, [Obj("printer", {}), joiner,
                                                  list(pieces)], dict(glob))
            except Raised as r:
                wit.append(f"join({joiner!r}, {pieces!r}) raises at line "
                           f"{getattr(r.node, 'lineno', '?')}")
                continue
            except StepBound:
                raise AnalysisError("join(): does not terminate")
            if got != joiner.join(pieces):
                wit.append(f"join({joiner!r}, {pieces!r}) gives {got!r}")
    return wit


def _forced_of(model, mapper, ps, own=None):
    forced = ()
    for e in ps.events:
        if e.kind == "itemwrite" and e.arg == ("kwargs",) and e.args and \
                e.args[0] == ("const", "force_parens_around"):
            forced = _class_names(model, mapper, e.value, own)
    return forced


def _extract_handler(model, mapper, n: NodeClass, mem, precs, _depth=0):
    variants = []
    all_ps = list(handler_summaries(model, n, mem.node))
    # polarities each test takes on the returning paths: a test that every
    # returning path passes the same way only guards a refusal (raise) -- it
    # narrows what is printed at all, not how
    pols = {}
    for ps in all_ps:
        if ps.term == "return":
            for _, pol, v in ps.conds:
                pols.setdefault(str(v), set()).add(pol)
    for ps in all_ps:
        if ps.term != "return":
            continue
        conds = []
        for _, pol, v in ps.conds:
            try:
                c = _cond(v, pol)
            except Unsupported:
                if len(pols.get(str(v), ())) == 1 and any(
                        q.term == "raise" for q in all_ps):
                    continue
                raise
            if c is not None:
                conds.append(c)
        forced = _forced_of(model, mapper, ps, n.name)
        conv = _Conv(model, mapper, precs, forced)
        for nm, val in ps.env.items():
            if isinstance(val, tuple) and val and val[0] == "lit" and val[2] and all(
                    x[0] in ("global", "attr") for x in val[2]):
                conv.env_tuples[nm] = _class_names(model, mapper, val)
        rv = ps.retval
        if isinstance(rv, tuple) and rv[0] == "call" and \
                rv[1] == "super." + mem.node.name and rv[2][:1] == (NODE,):
            nxt = None
            past = False
            for k in model.mro(mapper):
                if k is mem.owner:
                    past = True
                    continue
                if past and hasattr(k, "members") and \
                        mem.node.name in k.members and \
                        k.members[mem.node.name].kind == "func":
                    nxt = k.members[mem.node.name]
                    break
            if nxt is None:
                raise Unsupported(f"super().{mem.node.name}: no inherited handler")
            for sub in _extract_handler(model, mapper, n, nxt, precs):
                variants.append(Variant(tuple(conds) + tuple(sub.conds),
                                        sub.template))
            continue
        if isinstance(rv, tuple) and rv[0] == "call" and \
                rv[1].endswith("." + mem.node.name) and len(rv[2]) >= 2 and \
                rv[2][1] == NODE and not rv[1].startswith(("self.", "super.")):
            # the handler of a named base class: Base.map_x(self, expr, prec)
            bname = rv[1].rsplit(".", 1)[0].split(".")[-1]
            nxt = None
            for k in model.mro(mapper):
                if hasattr(k, "members") and k.name == bname and \
                        k is not mem.owner:
                    m2 = model.lookup(k, mem.node.name)
                    if m2 is not None and m2.kind == "func":
                        nxt = m2
                    break
            if nxt is None:
                raise Unsupported(f"{rv[1]}: no such inherited handler")
            for sub in _extract_handler(model, mapper, n, nxt, precs):
                variants.append(Variant(tuple(conds) + tuple(sub.conds),
                                        sub.template))
            continue
        subcalls = [x for x in _walk_vals(rv) if x[0] == "call"
                    and x[1].startswith("self.map_") and x[2][:1] == (NODE,)
                    and x[1] != "self." + mem.node.name]
        if subcalls:
            # another handler of the same mapper applied to the same node
            # (map_floor_div written in terms of map_quotient): its variants,
            # rendered at the precedence it is handed
            if len(subcalls) != 1 or _depth > 3:
                raise Unsupported("several sibling-handler calls")
            sc = subcalls[0]
            mem2 = model.lookup(mapper, sc[1][len("self."):])
            if mem2 is None or mem2.kind != "func":
                raise Unsupported(f"{sc[1]}: no such handler")
            p2 = _prec_value(sc[2][1], precs) if len(sc[2]) > 1 else 0
            for sub in _extract_handler(model, mapper, n, mem2, precs,
                                        _depth + 1):
                if any(c[0].startswith("prec") for c in sub.conds):
                    raise Unsupported("sibling handler branches on precedence")
                tmpl = conv.conv(_subst_val(
                    rv, sc, ("subtemplate", ("with_prec", sub.template, p2))))
                variants.append(Variant(tuple(conds) + tuple(sub.conds), tmpl))
            continue
        for extra, val in _split_conditionals(rv):
            variants.append(Variant(tuple(conds) + extra, conv.conv(val)))
    if not variants:
        raise Unsupported("no returning path")
    return variants


def _split_conditionals(v, limit=8):
    """a returned value with conditional expressions in it (outside element
    templates of sequences) is what an if/else statement around the return
    would have made: -> [(conditions, value)]"""
    from .summary import CondText
    tests = []

    def mentions_elem(x):
        return any(y[0] in ("elem", "key", "val") for y in _walk_vals(x))

    def collect(x):
        if isinstance(x, tuple) and not isinstance(x, CondText):
            if len(x) == 4 and x[0] == "ifexp" and isinstance(x[1], CondText) \
                    and x[1].val is not None and not mentions_elem(x[1].val):
                if str(x[1]) not in [str(t) for t in tests]:
                    tests.append(x[1])
            for y in x:
                collect(y)
    collect(v)
    if not tests:
        return [((), v)]
    if 2 ** len(tests) > limit:
        raise Unsupported("too many conditional expressions in one value")
    out = []
    for bits in itertools.product((True, False), repeat=len(tests)):
        choice = {str(t): b for t, b in zip(tests, bits)}

        def subst(x):
            if isinstance(x, tuple) and not isinstance(x, CondText):
                if len(x) == 4 and x[0] == "ifexp" and str(x[1]) in choice:
                    return subst(x[2] if choice[str(x[1])] else x[3])
                return tuple(subst(y) for y in x)
            return x
        extra = tuple(c for c in (_cond(t.val, b) for t, b in zip(tests, bits))
                      if c is not None)
        out.append((extra, subst(v)))
    return out


def _walk_vals(v, depth=0):
    if not isinstance(v, tuple) or depth > 30:
        return
    if v and isinstance(v[0], str):
        yield v
    for x in v:
        if isinstance(x, tuple):
            yield from _walk_vals(x, depth + 1)


def _subst_val(v, old, new):
    if v is old or v == old:
        return new
    if isinstance(v, tuple):
        return tuple(_subst_val(x, old, new) for x in v)
    return v


def _extract_plain(model, mapper, mem, precs):
    variants = []
    for ps in summarize(mem.node):
        if ps.term != "return":
            continue
        conds = tuple(c for c in (_cond(v, pol) for _, pol, v in ps.conds) if c)
        conv = _Conv(model, mapper, precs, ())
        variants.append(Variant(conds, conv.conv(ps.retval)))
    return variants


def _extract_const_rule(model, mapper, precs):
    """map_constant: str(expr), parenthesised when it contains '-' or '+',
    is not already wrapped, and enclosing_prec > <threshold>."""
    mem = model.lookup(mapper, "map_constant")
    if mem is None or mem.kind != "func":
        raise AnalysisError("map_constant not found")
    fn = mem.node
    # follow a delegation wrapper (CCodeMapper.map_constant)
    hops = 0
    while hops < 3:
        delegated = None
        for r in ast.walk(fn):
            if isinstance(r, ast.Return) and isinstance(r.value, ast.Call) \
                    and isinstance(r.value.func, ast.Attribute) \
                    and r.value.func.attr == "map_constant" \
                    and isinstance(r.value.func.value, ast.Name) \
                    and r.value.func.value.id != "self":
                base = model.resolve_in_module(mem.owner.module,
                                               r.value.func.value)
                if isinstance(base, ClassInfo):
                    delegated = model.lookup(base, "map_constant")
        if delegated is None:
            break
        mem, fn = delegated, delegated.node
        hops += 1
    param = fn.args.args[1].arg
    func = None
    thr = None
    signs = set()
    n_wrapped = n_bare = 0
    for ps in summarize(fn, node_param=param):
        if ps.term != "return":
            continue
        rv = ps.retval
        inner = rv
        wrapped = False
        if rv[0] == "call" and rv[1] == "self.parenthesize" and rv[2]:
            inner, wrapped = rv[2][0], True
        elif rv[0] == "fstring" and len(rv[1]) == 3 and rv[1][0] == ("const", "(") \
                and rv[1][2] == ("const", ")"):
            inner, wrapped = rv[1][1], True
        if inner[0] == "call" and inner[1] in ("str", "repr") and len(inner[2]) == 1:
            func = inner[1] if func in (None, inner[1]) else "mixed"
        elif inner[0] == "strformat" or (inner[0] == "call" and "format" in inner[1]):
            continue      # complex constants etc.: not modelled
        else:
            continue
        if not wrapped:
            n_bare += 1
            continue
        n_wrapped += 1
        from .summary import facts_of
        for _, pol0, v0 in ps.conds:
            if not isinstance(v0, tuple):
                continue
            for v, pol in facts_of(v0, pol0):
                if not isinstance(v, tuple):
                    continue
                if not pol:
                    # (enclosing <= P) is False  ==  enclosing > P
                    if v[0] == "compare" and v[2] == ("param", "enclosing_prec") \
                            and v[1] in (("LtE",), ("Lt",)):
                        thr = (_prec_value(v[3][0], precs),
                               ">" if v[1] == ("LtE",) else ">=")
                    continue
                for sub in _subterms(v):
                    if sub[0] == "compare" and sub[2] == ("param",
                                                          "enclosing_prec") \
                            and sub[1] in (("Gt",), ("GtE",)):
                        thr = (_prec_value(sub[3][0], precs),
                               ">" if sub[1] == ("Gt",) else ">=")
                    if sub[0] == "compare" and sub[1] == ("In",) \
                            and sub[2][0] == "const" and isinstance(sub[2][1], str):
                        signs.add(sub[2][1])
    if func is None or func == "mixed":
        raise AnalysisError("map_constant: neither str(expr) nor repr(expr)")
    rule = {"func": func, "where": mem.owner.module.loc(fn),
            "handler": f"{mem.owner.name}.map_constant"}
    if not n_wrapped:
        # no parenthesisation rule at all: constants are emitted bare
        rule.update({"threshold": None, "op": ">", "signs": ()})
    elif thr is None or not signs:
        raise AnalysisError("map_constant: parenthesisation condition not "
                            "recognised")
    else:
        rule.update({"threshold": thr[0], "op": thr[1],
                     "signs": tuple(sorted(signs))})
    return rule


def _subterms(v, depth=0):
    if not isinstance(v, tuple) or depth > 20:
        return
    if v and isinstance(v[0], str):
        yield v
    for x in v:
        if isinstance(x, tuple):
            yield from _subterms(x, depth + 1)


# ---------------------------------------------------------------------------
# model printer
# ---------------------------------------------------------------------------

def mul(a, b):
    """model of a*b through the operator overloads (Expression.__mul__,
    Product.__mul__): products splice, other operands pair up"""
    if a[0] == "Const" and b[0] == "Const":
        return ("Const", a[1] * b[1])
    ac = tuple(a[1]) if a[0] == "Product" else (a,)
    bc = tuple(b[1]) if b[0] == "Product" else (b,)
    if a[0] == "Product" and b[0] == "Product":
        return ("Product", ac + bc)
    if a[0] == "Product":
        return ("Product", ac + (b,))
    return ("Product", (a, b))


class ModelPrinter:
    def __init__(self, model, table: PrinterTable):
        self.model = model
        self.t = table
        self.nt = model.nodes
        self._fields = {}

    def fields(self, name):
        if name not in self._fields:
            self._fields[name] = self.nt.get(name).field_names
        return self._fields[name]

    def get(self, tree, fld):
        if fld == "@self":
            return tree
        names = list(self.fields(tree[0]))
        if fld not in names:
            # legacy nodes spell their init args Numerator / Denominator and
            # offer the lower-case names as properties
            low = [n.lower() for n in names]
            if fld.lower() in low:
                return tree[1 + low.index(fld.lower())]
        return tree[1 + names.index(fld)]

    def needs_paren(self, enclosing, my):
        return enclosing > my if self.t.paren_op == ">" else enclosing >= my

    def print(self, tree, prec=0):
        name = tree[0]
        if name == "Var":
            return tree[1]
        if name == "Const":
            return self.const(tree[1], prec)
        custom = self.t.custom.get(name)
        if custom is not None:
            return custom(self, tree, prec)
        vs = self.t.templates.get(name)
        if vs is None:
            raise Unsupported(f"no template for {name}")
        for v in vs:
            if all(self.cond(tree, c, prec) for c in v.conds):
                return self.render(v.template, tree, prec)
        raise Unsupported(f"no variant of {name} applies")

    def cond(self, tree, c, prec=0):
        if c[0] == "enclosing_cmp":
            rhs = _prec_value(c[2], self.t.precs)
            r = {"Gt": prec > rhs, "GtE": prec >= rhs, "Lt": prec < rhs,
                 "LtE": prec <= rhs}[c[1]]
            return r == c[3]
        if c[0] == "field_is_tuple":
            val = self.get(tree, c[1])
            return (val[0] == "Tuple") == c[2]
        if c[0] == "all":
            return all(self.cond(tree, x, prec) for x in c[1]) == c[2]
        if c[0] == "field_is_int":
            val = self.get(tree, c[1])
            return (val[0] == "Const" and isinstance(val[1], int)) == c[2]
        if c[0] == "field_is_var":
            return (self.get(tree, c[1])[0] == "Var") == c[2]
        if c[0] == "field_is_const":
            return (self.get(tree, c[1])[0] == "Const") == c[2]
        if c[0] == "field_eq":
            val = self.get(tree, c[1])
            return (val[0] == "Const" and val[1] == c[2]) == c[3]
        if c[0] == "len_eq":
            return (len(tree[1]) == c[1]) == c[2]
        raise Unsupported(f"cond {c}")

    def const(self, value, prec):
        r = self.t.const_rule
        s = repr(value) if r.get("func") == "repr" else str(value)
        if r["threshold"] is None:
            return s
        wrapped = s.startswith("(") and s.endswith(")")
        has_sign = any(x in s for x in r["signs"])
        over = prec > r["threshold"] if r["op"] == ">" else prec >= r["threshold"]
        if not wrapped and has_sign and over:
            return f"({s})"
        return s

    def child(self, sub, prec, forced):
        s = self.print(sub, prec)
        if forced and sub[0] in forced:
            s = f"({s})"
        return s

    def render(self, t, tree, prec):
        k = t[0]
        if k == "lit":
            return t[1]
        if k == "data":
            if t[1] == "@str":
                return str(tree)
            return str(self.get(tree, t[1]))
        if k == "hole":
            p_ = prec if t[2] == "ENCLOSING" else t[2]
            return self.child(self.get(tree, t[1]), p_, t[3])
        if k == "constrepr":
            val = self.get(tree, t[1])
            if val[0] != "Const":
                raise Unsupported("repr()/str() of a non-constant child")
            return repr(val[1]) if t[2] == "repr" else str(val[1])
        if k == "floatrepr":
            val = self.get(tree, t[1])
            if val[0] != "Const":
                raise Unsupported("repr(float(...)) of a non-constant child")
            return repr(float(val[1]))
        if k == "hole_mul":
            p_ = prec if t[3] == "ENCLOSING" else t[3]
            return self.print(mul(self.get(tree, t[1]), self.get(tree, t[2])), p_)
        if k == "childname":
            sub = self.get(tree, t[1])
            return sub[1]
        if k == "join":
            items = self.get(tree, t[2])
            if items and items[0] == "Tuple":
                items = items[1]
            return t[1].join(
                "" if it is None else self.child(it, t[3], t[4]) for it in items)
        if k == "joinseq":
            out = []
            for part in t[2]:
                if part[0] == "one":
                    out.append(self.render(part[1], tree, prec))
                    continue
                _, fld, kind, et = part
                src = self.get(tree, fld)
                if fld == "@self":
                    src = tree[1]
                for it in src:
                    out.append(self.render_elem(et, it, kind))
            return t[1].join(out)
        if k == "cat":
            return "".join(self.render(x, tree, prec) for x in t[1])
        if k == "with_prec":
            return self.render(t[1], tree, t[2] if t[2] != "ENCLOSING" else prec)
        if k == "paren_if":
            s = self.render(t[1], tree, prec)
            return f"({s})" if self.needs_paren(prec, t[2]) else s
        if k == "paren":
            return f"({self.render(t[1], tree, prec)})"
        raise Unsupported(f"template {k}")

    def render_elem(self, et, it, kind):
        if et[0] == "elemhole":
            sub = it[1] if kind == "items" else it
            return self.print(sub, et[1])
        if et[0] == "key":
            return str(it[0])
        if et[0] == "lit":
            return et[1]
        if et[0] == "cat":
            return "".join(self.render_elem(x, it, kind) for x in et[1])
        raise Unsupported(f"element template {et}")
