"""Interpretive judge for the mapper dispatch routines (C04): the routine is
interpreted (pv/absint.py) on synthetic node-class hierarchies and mappers
with every subset of handlers, and what it does is compared with the
property's own definition -- the handler named by the node's class, else the
handler of the nearest ancestor (in method resolution order) that the mapper
implements, else the unsupported-expression hook; foreign objects to
map_foreign; extra arguments passed on unchanged.  Independent of how the
routine is written."""
from __future__ import annotations

import ast
import itertools

from . import AnalysisError
from .absint import Interp, Opaque, Raised, StepBound


class _Expr:                      # the root every synthetic node class has
    pass


class AbsNode:
    def __init__(self, pycls):
        self.pycls = pycls

    def __repr__(self):
        return f"<node {self.pycls.__name__}>"


class AbsClsRef:
    """type(expr) / an entry of its __mro__; one object per class, so that
    `cls is primitives.Expression` reads as it does in Python"""
    _cache = {}

    def __new__(cls, pycls):
        r = cls._cache.get(pycls)
        if r is None:
            r = object.__new__(cls)
            cls._cache[pycls] = r
        return r

    def __init__(self, pycls):
        self.pycls = pycls

    def __eq__(self, o):
        return isinstance(o, AbsClsRef) and o.pycls is self.pycls

    def __hash__(self):
        return hash(self.pycls)


class Result:
    def __init__(self, kind, name, args, kwargs):
        self.kind, self.name, self.args, self.kwargs = kind, name, args, kwargs

    def __repr__(self):
        return f"{self.kind}:{self.name}{self.args!r}{self.kwargs!r}"

    def same(self, o):
        return isinstance(o, Result) and (self.kind, self.name) == (
            o.kind, o.name) and self.args == o.args and self.kwargs == o.kwargs


class AbsMapper:
    def __init__(self, handlers, answer_none=False):
        self.handlers = set(handlers)
        self.calls = []
        self._cache = {}
        # (handlers of walk mappers answer None: a legitimate result, which a
        # look-aside must be able to store and serve)
        self.answer_none = answer_none

    def marker(self, kind, name):
        def f(*args, **kwargs):
            r = Result(kind, name, args, kwargs)
            self.calls.append(r)
            return None if self.answer_none else r
        return f


def _hierarchies():
    """(description, python class of the node) for chains and a diamond, each
    level with or without a handler name of its own"""
    out = []
    for own in itertools.product([True, False], repeat=3):
        parent = _Expr
        for lvl in range(3):
            ns = {"mapper_method": f"map_l{lvl}"} if own[lvl] else {}
            parent = type(f"N{lvl}", (parent,), ns)
        out.append((f"chain {own}", parent))
    a = type("A", (_Expr,), {"mapper_method": "map_a"})
    b = type("B", (_Expr,), {"mapper_method": "map_b"})
    out.append(("diamond (A, B)", type("D", (a, b), {})))
    out.append(("diamond with own", type("D2", (b, a), {"mapper_method": "map_d"})))
    return out


def expected(pycls, handlers, is_expr=True):
    own = getattr(pycls, "mapper_method", None)
    if own is not None and own in handlers:
        return ("handler", own)
    if not is_expr:
        return ("hook", "map_foreign")
    for anc in pycls.__mro__[1:]:
        mm = getattr(anc, "mapper_method", None)
        if mm and mm in handlers:
            return ("handler", mm)
    return ("hook", "handle_unsupported_expression")


def judge(fn, cached=False, skip_own=False, module_tree=None, class_node=None,
          foreign=True, rec_is_plain=False):
    """-> (witnesses, n_cases).  skip_own: the routine is the fallback only
    (rec_fallback), which never looks at the node's own handler name."""
    if len(fn.args.args) < 2:
        raise AnalysisError(f"{fn.name}: signature")
    wit = []
    n = 0
    # module-level state is shared by every mapper and every call, as it is in
    # a process: what one dispatch leaves there, the next one sees
    from .absint import module_env
    shared_glob = {"_NOT_IN_CACHE": _SENTINEL,
                   "primitives": Opaque("module primitives"),
                   "Mapper": Opaque("class Mapper")}
    if module_tree is not None:
        shared_glob = module_env(module_tree, shared_glob)

    def mk_interp(mapper):
        def getattr_(it, node, args, kw):
            obj, name = args[0], args[1]
            dflt = args[2] if len(args) > 2 else Raised
            if isinstance(obj, AbsNode) or isinstance(obj, AbsClsRef):
                v = getattr(obj.pycls, name, None)
                if v is not None or len(args) > 2:
                    return v if v is not None else dflt
                raise Raised(node)
            if isinstance(obj, AbsMapper):
                if name in obj.handlers:
                    return obj.marker("handler", name)
                if len(args) > 2:
                    return dflt
                raise Raised(node)
            if len(args) > 2:
                return dflt
            raise Raised(node)

        def type_(it, node, args, kw):
            if isinstance(args[0], AbsNode):
                return AbsClsRef(args[0].pycls)
            return Opaque("class of a foreign object")

        def isinstance_(it, node, args, kw):
            v, c = args
            what = getattr(c, "what", "")
            if isinstance(c, AbsClsRef):
                return isinstance(v, AbsNode) and issubclass(v.pycls, c.pycls)
            if what.endswith("Expression"):
                return isinstance(v, AbsNode)
            if what.endswith("list"):
                return isinstance(v, list)
            if what.endswith("tuple"):
                return isinstance(v, tuple)
            _r = __import__("pv.absint", fromlist=["x"]).default_isinstance(v, c)
            if _r is not None:
                return _r
            raise AnalysisError(f"isinstance(..., {c!r})")

        def attrs(it, node, base, attr):
            if isinstance(base, AbsClsRef) and attr == "__mro__":
                return tuple(AbsClsRef(c) for c in base.pycls.__mro__
                             if c is not object)
            if isinstance(base, AbsMapper):
                if attr in ("handle_unsupported_expression", "map_foreign",
                            "rec_fallback"):
                    if attr == "rec_fallback":
                        return lambda *a, **k: _fallback(base, *a, **k)
                    return base.marker("hook", attr)
                if attr == "rec" and rec_is_plain:
                    # (code that stands for a rec site, not the routine itself)
                    return lambda *a, **k: _plain(base, *a, **k)
                if attr == "_cache":
                    return base._cache
                if attr == "get_cache_key":
                    return lambda expr, *a, **k: (
                        "key", id(expr) if isinstance(expr, AbsNode) else
                        repr(expr), a, tuple(sorted(k.items())))
                if attr in base.handlers:
                    return base.marker("handler", attr)
                raise Raised(node)
            if isinstance(base, (AbsNode, AbsClsRef)):
                v = getattr(base.pycls, attr, None)
                if v is None:
                    raise Raised(node)
                return v
            if isinstance(base, Opaque) and attr == "Expression":
                return AbsClsRef(_Expr)     # primitives.Expression, the root
            return Opaque(ast.unparse(node))

        def _fallback(mp, expr, *a, **k):
            e = expected(expr.pycls, mp.handlers - {getattr(
                expr.pycls, "mapper_method", None)}) if isinstance(
                expr, AbsNode) else ("hook", "map_foreign")
            return mp.marker(*e)(expr, *a, **k)

        glob = shared_glob
        helpers = {}
        if class_node is not None:
            # private helper methods of the routine's class and of its bases
            # (base classes first, so that an override wins): self._x(...)
            nodes = class_node if isinstance(class_node, (list, tuple)) \
                else [class_node]
            for cn in nodes:
                for st in cn.body:
                    if isinstance(st, ast.FunctionDef) and \
                            st.name.startswith("_") and \
                            not st.name.startswith("__"):
                        helpers[st.name] = st
        return Interp(calls={
            "getattr": getattr_, "type": type_, "isinstance": isinstance_,
            "is_numpy_array": lambda it, n_, a, k: False,
            "Mapper.__call__": lambda it, n_, a, k: _plain(a[0], *a[1:], **k),
        }, attrs=lambda it, node, base, attr: (
            (lambda *a, **k: it.call_function(
                helpers[attr], [base] + list(a), {"__kwargs__": dict(k)}))
            if isinstance(base, AbsMapper) and attr in helpers
            else attrs(it, node, base, attr)),
            globals_=glob, max_steps=20000)

    def _plain(mp, expr, *a, **k):
        e = expected(expr.pycls, mp.handlers) if isinstance(expr, AbsNode) \
            else ("hook", "map_foreign")
        return mp.marker(*e)(expr, *a, **k)

    def run(mapper, expr, extras, kw):
        it = mk_interp(mapper)
        env = {"__kwargs__": dict(kw)}
        return it.call_function(fn, [mapper, expr] + list(extras), env)

    for desc, pycls in _hierarchies():
        names = sorted({getattr(c, "mapper_method") for c in pycls.__mro__
                        if "mapper_method" in vars(c)})
        for k_ in range(len(names) + 1):
            for hs in itertools.combinations(names, k_):
                for extras, kw in (((), {}), (("A1",), {"k": "K1"})):
                    n += 1
                    mp = AbsMapper(hs)
                    node = AbsNode(pycls)
                    handlers = set(hs)
                    if skip_own:
                        own = getattr(pycls, "mapper_method", None)
                        want = expected(
                            type("_", (pycls,), {"mapper_method": None}),
                            handlers) if own else expected(pycls, handlers)
                        # (the fallback starts at the proper ancestors)
                        want = _fallback_expected(pycls, handlers)
                    else:
                        want = expected(pycls, handlers)
                    label = f"{desc}, handlers {list(hs)}, extras {extras}{kw}"
                    if not extras:
                        # histories: another mapper (any other handler subset)
                        # has dispatched a node of this class before
                        for k2 in range(len(names) + 1):
                            for hs2 in itertools.combinations(names, k2):
                                if hs2 == hs:
                                    continue
                                try:
                                    run(AbsMapper(hs2), AbsNode(pycls), (), {})
                                except (Raised, StepBound):
                                    pass
                                mp2 = AbsMapper(hs)
                                try:
                                    g2 = run(mp2, node, (), {})
                                except (Raised, StepBound):
                                    g2 = None
                                if not (isinstance(g2, Result) and (
                                        g2.kind, g2.name) == want):
                                    wit.append(
                                        f"{label}, after a mapper with handlers "
                                        f"{list(hs2)} dispatched the same node "
                                        f"class: {g2!r}, expected {want[1]}")
                    try:
                        got = run(mp, node, extras, kw)
                    except Raised as r:
                        wit.append(f"{label}: raises at line {r.node.lineno}")
                        continue
                    except StepBound:
                        wit.append(f"{label}: does not terminate")
                        continue
                    ok = isinstance(got, Result) and (got.kind, got.name) == want \
                        and got.args == (node,) + tuple(extras) and \
                        got.kwargs == dict(kw)
                    if not ok:
                        wit.append(f"{label}: {got!r}, expected {want[1]} on "
                                   "(expr, *extras, **kw)")
                        continue
                    if cached:
                        before = len(mp.calls)
                        again = run(mp, node, extras, kw)
                        if again is not got or len(mp.calls) != before:
                            wit.append(f"{label}: a second request is computed "
                                       "again instead of served from the table")
                        # ... also when what the handler answered is None
                        mpn = AbsMapper(hs, answer_none=True)
                        try:
                            r1 = run(mpn, node, extras, kw)
                            n1 = len(mpn.calls)
                            r2 = run(mpn, node, extras, kw)
                        except (Raised, StepBound):
                            r1 = r2 = "raised"
                            n1 = -1
                        if r1 is not None or r2 is not None or \
                                len(mpn.calls) != n1:
                            wit.append(f"{label}: a handler that answers None "
                                       "is run again on the second request "
                                       "(None is taken for 'not in the table')")
    # foreign objects
    for obj in (5, 2.5, "s", (1, 2), [1, 2]) if foreign else ():
        n += 1
        mp = AbsMapper(["map_l0"])
        try:
            got = run(mp, obj, ("A1",), {"k": "K1"})
        except Raised as r:
            wit.append(f"foreign object {obj!r}: raises at line {r.node.lineno}")
            continue
        ok = isinstance(got, Result) and (got.kind, got.name) == (
            "hook", "map_foreign") and got.args == (obj, "A1") and \
            got.kwargs == {"k": "K1"}
        if not ok:
            wit.append(f"foreign object {obj!r}: {got!r}, expected map_foreign")
    return wit, n


def _fallback_expected(pycls, handlers):
    for anc in pycls.__mro__[1:]:
        mm = getattr(anc, "mapper_method", None)
        if mm and mm in handlers:
            return ("handler", mm)
    return ("hook", "handle_unsupported_expression")


_SENTINEL = object()


# ---------------------------------------------------------------------------
# Mapper.map_foreign: where objects that are no expression nodes go

class _NdArray:
    """stands for a numpy array"""

    def __repr__(self):
        return "<ndarray>"


class _Unknown:
    def __repr__(self):
        return "<an object of an unsupported class>"


def judge_foreign(model, mapper_key="pymbolic.mapper:Mapper"):
    from .absint import Obj, module_env
    """map_foreign interpreted on a constant of every registered kind, a list,
    a tuple, a numpy array and an unsupported object, with the handlers as
    hooks.  -> (witnesses, routes) where routes maps the kind of object to the
    handler it reaches (None: refused); extras must be passed on unchanged."""
    cls = model.cls(mapper_key)
    mem = model.lookup(cls, "map_foreign")
    if mem is None or mem.kind != "func":
        raise AnalysisError("Mapper.map_foreign not found")
    glob = module_env(cls.module.tree, {})
    glob.setdefault("primitives", Opaque("module primitives"))
    glob["is_numpy_array"] = lambda v: isinstance(v, _NdArray)
    it0 = Interp(globals_=glob, max_steps=3000,
                 attrs=lambda it_, n_, b, at: Opaque(ast.unparse(n_)))
    for st in cls.module.tree.body:
        if isinstance(st, ast.Assign) and len(st.targets) == 1 and isinstance(
                st.targets[0], ast.Name) and st.targets[0].id not in glob:
            try:
                glob[st.targets[0].id] = it0.eval(st.value, glob)
            except (AnalysisError, Raised, StepBound):
                pass
    samples = {"int": 5, "float": 2.5, "complex": 1j, "list": [1, 2],
               "tuple": (1, 2), "ndarray": _NdArray(), "other": _Unknown(),
               "str": "s"}
    want = {"int": "map_constant", "float": "map_constant",
            "complex": "map_constant", "list": "map_list",
            "tuple": "map_tuple", "ndarray": "map_numpy_array",
            "other": None, "str": None}

    def isinst(it, node, a, k):
        v, c = a
        cs = c if isinstance(c, (tuple, list)) else (c,)
        names = []
        for x in cs:
            w = getattr(x, "what", None)
            if w is None:
                raise AnalysisError(f"isinstance(..., {x!r})")
            names.append(w.replace(".", " ").split(" ")[-1])
        if isinstance(v, _NdArray):
            return "ndarray" in names
        if isinstance(v, _Unknown):
            return False
        for nm in names:
            if nm == "VALID_CONSTANT_CLASSES":
                if isinstance(v, (int, float, complex)):
                    return True
            elif nm in ("int", "float", "complex", "list", "tuple", "str",
                        "bool"):
                if isinstance(v, {"int": int, "float": float,
                                  "complex": complex, "list": list,
                                  "tuple": tuple, "str": str,
                                  "bool": bool}[nm]):
                    return True
            elif nm in ("ndarray", "Expression", "number", "generic"):
                continue
            else:
                raise AnalysisError(f"isinstance(..., {nm})")
        return False
    wit, routes = [], {}
    for kind, obj in samples.items():
        calls = []
        me = Obj("__mapper__", {})
        for h in ("map_constant", "map_list", "map_tuple", "map_numpy_array"):
            me.fields[h] = (lambda *a, _h=h, **k: calls.append((_h, a, k))
                            or ("result", _h))
        it = Interp(calls={
            "isinstance": isinst,
            "is_numpy_array": lambda it_, nd, a, k: isinstance(a[0], _NdArray),
            "repr": lambda it_, nd, a, k: "<repr>",
            "type": lambda it_, nd, a, k: Opaque("class of " + kind)},
            attrs=lambda it_, n_, b, at: (
                Opaque("VALID_CONSTANT_CLASSES") if at ==
                "VALID_CONSTANT_CLASSES" else Opaque(ast.unparse(n_))),
            globals_=dict(glob, is_numpy_array=lambda v: isinstance(
                v, _NdArray)), max_steps=5000)
        try:
            got = it.call_function(mem.node, [me, obj, "A1"],
                                   dict(glob, __kwargs__={"k": "K1"}))
        except Raised:
            routes[kind] = None
            if want[kind] is not None:
                wit.append(f"{kind}: refused, expected {want[kind]}")
            continue
        except StepBound:
            wit.append(f"{kind}: does not terminate")
            continue
        if len(calls) != 1 or got != ("result", calls[0][0]):
            wit.append(f"{kind}: answers {got!r} after the handler calls "
                       f"{[c[0] for c in calls]}")
            continue
        h, a, k = calls[0]
        routes[kind] = h
        if h != want[kind]:
            wit.append(f"{kind}: goes to {h}, expected "
                       f"{want[kind] or 'a refusal'}")
        elif a != (obj, "A1") or k != {"k": "K1"} or a[0] is not obj:
            wit.append(f"{kind}: {h} is not handed (object, *extras, **kw)")
    return wit, routes
