"""Source-level inlining of private helper functions.

"Extract a private helper" is the most common clean-up edit, and a rule that
reads one function at a time loses sight of what moved into the helper.  Before
a function is analysed, calls to *new* private helpers -- module-level
functions and methods whose name starts with one underscore and that are not in
the frozen list of helpers the rules know by name -- are replaced by the
helper's body:

* a helper whose body reduces to one expression (a chain of ``if c: return a``
  followed by ``return b``, with single-assignment locals substituted) is
  substituted in any expression context;
* any other helper is inlined at statement level when the call is the whole
  value of a ``return``, of an assignment, or an expression statement, provided
  its returns allow it (no generator, no early ``return`` unless the call site
  is itself a ``return``).

Nothing is executed; the result is an ``ast.FunctionDef`` that the path
enumeration and the abstract evaluation treat like the original.
"""
from __future__ import annotations

import ast
import copy
import itertools

# private helpers of the package as of the pinned tree: the rules refer to
# these by name (they are part of the modelled structure), so they stay calls
KNOWN_HELPERS = frozenset("""
_unit _sub _strify_assignments_and_expr _sort_uniq _set_and_return _sendline
_safe_repr _replace _parse_version _num _neg _mult _map_multi_children_op
_join_to_slice _initialize _get_module_ast_for_object
_get_file_name_for_module_name _get_dependencies _get_def_from_ast_container
_get_cache_key_expr _get_ast_for_module_name _get_ast_for_method
_get_ast_for_file _get_ast_for_class _expect_prompt _den _degree
_default_preamble_hook _data _condition_printing_suffix _compile
_comparison_operator _check_debug _cached_eval_expr_with_setup _bitwise_xor
_bitwise_or _bitwise_and _base _augment_expression_dataclass _add
""".split())

_counter = itertools.count(1)
MAX_DEPTH = 3


def _is_private(name):
    return name.startswith("_") and not name.startswith("__")


def _body(fn):
    return [st for st in fn.body if not (
        isinstance(st, ast.Expr) and isinstance(st.value, ast.Constant))
        and not isinstance(st, (ast.Import, ast.ImportFrom, ast.Pass))]


def _has_yield(fn):
    return any(isinstance(n, (ast.Yield, ast.YieldFrom)) for n in ast.walk(fn))


class _Subst(ast.NodeTransformer):
    def __init__(self, mapping):
        self.mapping = mapping

    def visit_Name(self, node):
        if node.id in self.mapping and isinstance(node.ctx, ast.Load):
            return copy.deepcopy(self.mapping[node.id])
        return node


class _Rename(ast.NodeTransformer):
    def __init__(self, mapping):
        self.mapping = mapping

    def visit_Name(self, node):
        if node.id in self.mapping:
            return ast.copy_location(
                ast.Name(id=self.mapping[node.id], ctx=node.ctx), node)
        return node

    def visit_arg(self, node):
        return node


def _bind(fn, call, skip_first):
    """parameter name -> argument expression, or None if not bindable.
    ``*args`` / ``**kwargs`` of the helper are bound only to a ``*x`` / ``**y``
    passed straight through at the call site."""
    a = fn.args
    if a.posonlyargs:
        return None
    params = [p.arg for p in a.args]
    if skip_first:
        params = params[1:]
    cargs = list(call.args)
    ckw = list(call.keywords)
    out = {}
    star = [x for x in cargs if isinstance(x, ast.Starred)]
    if star:
        if not a.vararg or len(star) != 1 or cargs[-1] is not star[0]:
            return None
        out[a.vararg.arg] = star[0].value
        cargs = cargs[:-1]
    elif a.vararg:
        if len(cargs) > len(params):
            return None
        out[a.vararg.arg] = ast.Tuple(elts=[], ctx=ast.Load())
    dstar = [k for k in ckw if k.arg is None]
    if dstar:
        if not a.kwarg or len(dstar) != 1:
            return None
        out[a.kwarg.arg] = dstar[0].value
        ckw = [k for k in ckw if k.arg is not None]
    elif a.kwarg:
        out[a.kwarg.arg] = ast.Dict(keys=[], values=[])
    if len(cargs) > len(params):
        return None
    for p, x in zip(params, cargs):
        out[p] = x
    kwonly = [p.arg for p in a.kwonlyargs]
    for k in ckw:
        if k.arg in out or (k.arg not in params and k.arg not in kwonly):
            return None
        out[k.arg] = k.value
    # defaults
    defaults = dict(zip(reversed([p.arg for p in a.args]), reversed(a.defaults)))
    for p in params:
        if p not in out:
            if p in defaults:
                out[p] = defaults[p]
            else:
                return None
    for p, d in zip(a.kwonlyargs, a.kw_defaults):
        if p.arg not in out:
            if d is None:
                return None
            out[p.arg] = d
    return out


def expression_form(fn):
    """the helper as one expression over its parameters, or None.
    Accepts: single-assignment locals (substituted), a chain of
    ``if c: return a`` and a final ``return b``."""
    body = _body(fn)
    lets = {}

    def sub(e):
        return _Subst(lets).visit(copy.deepcopy(e))

    def chain(stmts):
        if not stmts:
            return None
        st = stmts[0]
        if isinstance(st, ast.Return):
            if st.value is None:
                return None
            return sub(st.value)
        if isinstance(st, ast.Raise) and st.exc is not None and len(stmts) == 1:
            # a refusing tail: kept as a marker call the rules can recognise
            return ast.Call(func=ast.Name(id="__raises__", ctx=ast.Load()),
                            args=[sub(st.exc)], keywords=[])
        if isinstance(st, ast.Assign) and len(st.targets) == 1 and isinstance(
                st.targets[0], ast.Name):
            name = st.targets[0].id
            if name in lets:
                return None
            lets[name] = sub(st.value)
            return chain(stmts[1:])
        if isinstance(st, ast.If):
            then = chain(list(st.body))
            if then is None:
                return None
            rest = list(st.orelse) if st.orelse else stmts[1:]
            if st.orelse and stmts[1:]:
                return None
            other = chain(rest)
            if other is None:
                return None
            return ast.IfExp(test=sub(st.test), body=then, orelse=other)
        return None

    if any(isinstance(n, (ast.For, ast.While, ast.Try, ast.With,
                          ast.FunctionDef, ast.Lambda))
           for st in body for n in ast.walk(st)):
        return None
    if any(isinstance(n, ast.Raise) for st in body[:-1] for n in ast.walk(st)):
        return None
    # a let-bound name must not be re-assigned and params must not be stored
    return chain(body)


def _contains_return(st):
    for n in ast.walk(st):
        if isinstance(n, ast.Return):
            return True
    return False


def returns_to_assignments(stmts, make_assign):
    """rewrite a statement list whose only exits are ``return`` statements in
    straight-line code and if/else (no return inside a loop, try or with) so
    that every ``return v`` becomes ``<target> = v``; the statements after an
    ``if`` that returns are moved into the branches that do not.  Returns the
    new list, or None if the shape is not supported."""
    def conv(stmts):
        out = []
        for i, st in enumerate(stmts):
            if isinstance(st, ast.Return):
                out.append(make_assign(st.value, st))
                return out, True
            if isinstance(st, ast.If) and _contains_return(st):
                rest = stmts[i + 1:]
                b = conv(list(st.body))
                if b is None:
                    return None
                body, bterm = b
                if not bterm:
                    r = conv(copy.deepcopy(rest))
                    if r is None:
                        return None
                    body = body + r[0]
                    if not r[1]:
                        body.append(make_assign(None, st))
                o = conv(list(st.orelse) + copy.deepcopy(rest)) if not (
                    st.orelse and False) else None
                if o is None:
                    return None
                orelse, oterm = o
                if not oterm:
                    orelse.append(make_assign(None, st))
                new = ast.If(test=st.test, body=body or [ast.Pass()],
                             orelse=orelse)
                out.append(ast.copy_location(new, st))
                return out, True
            if isinstance(st, ast.Try) and _contains_return(st) and \
                    not any(_contains_return(x) for x in st.finalbody):
                # try: A  except E: return x  <rest>   becomes
                # try: A  except E: T = x  else: <rest>
                rest = stmts[i + 1:]
                body = list(st.body)
                if any(_contains_return(x) for x in body):
                    if not isinstance(body[-1], ast.Return) or any(
                            _contains_return(x) for x in body[:-1]):
                        return None
                    body = body[:-1] + [make_assign(body[-1].value, body[-1])]
                    orelse = list(st.orelse)    # (not reached)
                else:
                    o = conv(list(st.orelse) + copy.deepcopy(rest))
                    if o is None:
                        return None
                    orelse, oterm = o
                    if not oterm:
                        orelse.append(make_assign(None, st))
                handlers = []
                for h in st.handlers:
                    hc = conv(list(h.body) + copy.deepcopy(rest))
                    if hc is None:
                        return None
                    hb, hterm = hc
                    if not hterm:
                        hb.append(make_assign(None, st))
                    handlers.append(ast.copy_location(ast.ExceptHandler(
                        type=h.type, name=h.name, body=hb), h))
                new = ast.Try(body=body, handlers=handlers, orelse=orelse,
                              finalbody=list(st.finalbody))
                out.append(ast.copy_location(new, st))
                return out, True
            if _contains_return(st):
                return None
            out.append(st)
        return out, False
    r = conv(list(stmts))
    if r is None:
        return None
    out, term = r
    if not term:
        out.append(make_assign(None, stmts[-1] if stmts else None))
    return out


_HOISTABLE = (ast.Call, ast.Attribute, ast.BinOp, ast.Tuple, ast.List,
              ast.keyword, ast.Starred, ast.Subscript, ast.UnaryOp,
              ast.Compare, ast.JoinedStr, ast.FormattedValue, ast.Dict)


class Inliner:
    def __init__(self, module_funcs, class_methods=None, exclude=KNOWN_HELPERS):
        """module_funcs: {name: FunctionDef}; class_methods: {name: FunctionDef}
        resolved through the MRO of the class the analysed function lives in"""
        self.module_funcs = module_funcs
        self.class_methods = class_methods or {}
        self.exclude = exclude
        self._cache = {}
        self.inlined = []        # names, for the evidence

    # -- resolution ----------------------------------------------------------
    def resolve(self, call):
        f = call.func
        if isinstance(f, ast.Name) and f.id in getattr(self, "local_funcs", {}) \
                and id(call) in getattr(self, "local_allowed", ()):
            return self.local_funcs[f.id], False
        if isinstance(f, ast.Name) and _is_private(f.id) and \
                f.id not in self.exclude and f.id in self.module_funcs:
            return self.module_funcs[f.id], False
        if isinstance(f, ast.Attribute) and isinstance(f.value, ast.Name) and \
                f.value.id in ("self", "cls") and _is_private(f.attr) and \
                f.attr not in self.exclude and f.attr in self.class_methods:
            h = self.class_methods[f.attr]
            static = any(ast.unparse(d) == "staticmethod"
                         for d in h.decorator_list)
            return h, not static
        return None

    # -- public ---------------------------------------------------------------
    def apply(self, fn):
        key = id(fn)
        if key in self._cache:
            return self._cache[key]
        # local predicate / accessor functions (a nested def that is one
        # expression over its parameters and names it does not rebind) are
        # inlined at their call sites inside fn
        self.local_funcs = {}
        stored = {}
        for n in ast.walk(fn):
            if isinstance(n, ast.Name) and isinstance(n.ctx, ast.Store):
                stored[n.id] = stored.get(n.id, 0) + 1
        for st in fn.body:
            if isinstance(st, ast.FunctionDef) and not _has_yield(st) and \
                    len(_body(st)) == 1 and isinstance(_body(st)[0], ast.Return) \
                    and expression_form(st) is not None and \
                    sum(1 for x in ast.walk(fn) if isinstance(x, ast.FunctionDef)
                        and x.name == st.name) == 1 and not st.args.vararg \
                    and not st.args.kwarg:
                free = {x.id for x in ast.walk(st) if isinstance(x, ast.Name)
                        and isinstance(x.ctx, ast.Load)} - {
                            a.arg for a in st.args.args}
                if all(stored.get(v, 0) <= 1 for v in free):
                    self.local_funcs[st.name] = st
        try:
            new = copy.deepcopy(fn)
            # (only where a local predicate filters a comprehension: the
            # rules read such filters; other uses stay calls)
            self.local_allowed = {
                id(c) for comp in ast.walk(new)
                if isinstance(comp, ast.comprehension)
                for f_ in comp.ifs for c in ast.walk(f_)
                if isinstance(c, ast.Call)}
            if not any(isinstance(n, ast.Call) and self.resolve(n) is not None
                       for n in ast.walk(new)):
                self._cache[key] = fn
                return fn
            new.body = self._block(new.body, 0, fn.name)
            ast.fix_missing_locations(new)
            self._cache[key] = new
            return new
        finally:
            self.local_funcs = {}
            self.local_allowed = set()

    # -- statements ----------------------------------------------------------
    def _block(self, stmts, depth, owner):
        out = []
        for st in stmts:
            out.extend(self._stmt(st, depth, owner))
        return out

    def _stmt(self, st, depth, owner):
        # recurse into compound statements first
        for fld in ("body", "orelse", "finalbody"):
            if hasattr(st, fld) and isinstance(getattr(st, fld), list) and not \
                    isinstance(st, (ast.FunctionDef, ast.ClassDef, ast.Lambda)):
                setattr(st, fld, self._block(getattr(st, fld), depth, owner))
        if isinstance(st, ast.Try):
            for h in st.handlers:
                h.body = self._block(h.body, depth, owner)
        if isinstance(st, ast.FunctionDef):
            st.body = self._block(st.body, depth, owner)
            return [st]
        if depth >= MAX_DEPTH:
            return [st]
        # `if helper(...):` with a statement helper: the call gets a statement
        # of its own, which is then inlined
        if isinstance(st, (ast.If, ast.While)) and isinstance(st.test, ast.Call) \
                and isinstance(st, ast.If):
            res = self.resolve(st.test)
            if res is not None and res[0].name != owner and \
                    expression_form(res[0]) is None and not _has_yield(res[0]):
                tmp = f"_h{next(_counter)}_test"
                assign = ast.copy_location(
                    ast.Assign(targets=[ast.Name(id=tmp, ctx=ast.Store())],
                               value=st.test, lineno=st.lineno), st)
                st.test = ast.copy_location(ast.Name(id=tmp, ctx=ast.Load()),
                                            st.test)
                ast.fix_missing_locations(assign)
                return self._block([assign], depth + 1, owner) + [st]
        # statement-level inlining: the call is the whole value
        top = None
        if isinstance(st, ast.Return) and isinstance(st.value, ast.Call):
            top = ("return", st.value)
        elif isinstance(st, ast.Assign) and isinstance(st.value, ast.Call) and \
                len(st.targets) == 1:
            top = ("assign", st.value)
        elif isinstance(st, ast.Expr) and isinstance(st.value, ast.Call):
            top = ("expr", st.value)
        elif isinstance(st, ast.Expr) and isinstance(st.value, ast.YieldFrom) \
                and isinstance(st.value.value, ast.Call):
            top = None
        if top is not None:
            res = self.resolve(top[1])
            if res is not None and res[0].name != owner:
                h, is_method = res
                branching = any(isinstance(n, ast.If) for b in _body(h)
                                for n in ast.walk(b))
                if expression_form(h) is None or branching:
                    # (a helper that branches is inlined as statements where
                    # it can be, so that its branches become paths)
                    got = self._inline_statement(st, top[0], top[1], h, is_method,
                                                 depth)
                    if got is not None:
                        return got
        # a statement-helper nested in the value of a simple statement is
        # hoisted into an assignment of its own, which is then inlined
        if isinstance(st, (ast.Assign, ast.Return, ast.Expr, ast.AugAssign)) \
                and st.value is not None:
            hoisted = self._hoist(st, owner)
            if hoisted is not None:
                return self._block(hoisted, depth + 1, owner)
        # expression-level inlining anywhere in the statement's own expressions
        self._inline_expressions(st, depth, owner)
        return [st]

    def _hoist(self, st, owner):
        """[tmp = helper(...), st'] for the first nested call to a helper that
        has no expression form and is evaluated unconditionally; else None"""
        found = []

        def walk(node, top):
            if found:
                return
            if isinstance(node, ast.Call) and not top:
                res = self.resolve(node)
                if res is not None and res[0].name != owner and \
                        expression_form(res[0]) is None and \
                        not _has_yield(res[0]):
                    found.append(node)
                    return
            for ch in ast.iter_child_nodes(node):
                if isinstance(ch, _HOISTABLE) or isinstance(
                        ch, (ast.Name, ast.Constant, ast.expr_context,
                             ast.operator, ast.unaryop, ast.cmpop)):
                    if isinstance(ch, _HOISTABLE):
                        walk(ch, False)
        if not isinstance(st.value, _HOISTABLE):
            return None          # comprehension, lambda, conditional, ...
        walk(st.value, True)
        if not found:
            return None
        call = found[0]
        tmp = f"_h{next(_counter)}_ret"
        assign = ast.copy_location(
            ast.Assign(targets=[ast.Name(id=tmp, ctx=ast.Store())],
                       value=call, lineno=call.lineno), call)

        class R(ast.NodeTransformer):
            def visit_Call(self, node):
                if node is call:
                    return ast.copy_location(ast.Name(id=tmp, ctx=ast.Load()),
                                             node)
                return self.generic_visit(node)
        st.value = R().visit(st.value)
        ast.fix_missing_locations(assign)
        return [assign, st]

    def _inline_expressions(self, st, depth, owner):
        inl = self

        class T(ast.NodeTransformer):
            def visit_FunctionDef(self, node):
                return node

            def visit_Call(self, node):
                self.generic_visit(node)
                res = inl.resolve(node)
                if res is None or res[0].name == owner:
                    return node
                h, is_method = res
                ef = expression_form(h)
                if ef is None:
                    return node
                binding = _bind(h, node, is_method)
                if binding is None:
                    return node
                if is_method:
                    selfname = h.args.args[0].arg
                    binding[selfname] = node.func.value
                new = _Subst(binding).visit(ef)
                for n in ast.walk(new):
                    ast.copy_location(n, node)
                inl.inlined.append(h.name)
                # helpers called by the helper's own expression
                self.nest = getattr(self, "nest", 0) + 1
                try:
                    if self.nest <= MAX_DEPTH:
                        new = self.generic_visit(new) if not isinstance(
                            new, ast.Call) else self.visit_Call(new)
                finally:
                    self.nest -= 1
                return new

        # only the statement's own expressions, not nested statement lists
        for fld, val in ast.iter_fields(st):
            if fld in ("body", "orelse", "finalbody", "handlers"):
                continue
            if isinstance(val, ast.AST):
                setattr(st, fld, T().visit(val))
            elif isinstance(val, list):
                setattr(st, fld, [T().visit(v) if isinstance(v, ast.AST) else v
                                  for v in val])

    def _inline_statement(self, st, kind, call, h, is_method, depth):
        if _has_yield(h):
            return None
        binding = _bind(h, call, is_method)
        if binding is None:
            return None
        body = copy.deepcopy(_body(h))
        returns = [n for b in body for n in ast.walk(b)
                   if isinstance(n, ast.Return)]
        nested = [n for b in body for n in ast.walk(b)
                  if isinstance(n, (ast.FunctionDef, ast.Lambda))]
        if any(isinstance(r, ast.Return) for f in nested for r in ast.walk(f)):
            return None
        last_is_return = bool(body) and isinstance(body[-1], ast.Return)
        early = [r for r in returns if not (last_is_return and r is body[-1])]
        convert = kind in ("assign", "expr") and bool(early)
        if kind == "assign" and not convert and (
                not last_is_return or body[-1].value is None):
            return None
        k = next(_counter)
        # rename parameters and locals
        locals_ = set()
        for b in body:
            for n in ast.walk(b):
                if isinstance(n, ast.Name) and isinstance(n.ctx, ast.Store):
                    locals_.add(n.id)
        params = list(binding)
        selfname = h.args.args[0].arg if is_method else None
        mapping = {n: f"_h{k}_{n}" for n in locals_ | set(params)}
        if selfname is not None:
            mapping.pop(selfname, None)
        pre = []
        for p in params:
            tgt = ast.Name(id=mapping[p], ctx=ast.Store())
            pre.append(ast.copy_location(
                ast.Assign(targets=[tgt], value=copy.deepcopy(binding[p]),
                           lineno=call.lineno), call))
        if selfname is not None and not (
                isinstance(call.func.value, ast.Name)
                and call.func.value.id == selfname):
            mapping[selfname] = call.func.value.id
        body = [_Rename(mapping).visit(b) for b in body]
        for b in body:
            for n in ast.walk(b):
                if not hasattr(n, "lineno"):
                    ast.copy_location(n, call)
        if convert:
            def mk(value, at):
                v = value if value is not None else ast.Constant(value=None)
                if kind == "assign":
                    node = ast.Assign(targets=copy.deepcopy(st.targets), value=v,
                                      lineno=st.lineno)
                else:
                    node = ast.Expr(value=v)
                return ast.copy_location(node, st)
            conv = returns_to_assignments(body, mk)
            if conv is None:
                return None
            body = conv
        elif kind == "assign":
            ret = body.pop()
            body.append(ast.copy_location(
                ast.Assign(targets=st.targets, value=ret.value,
                           lineno=st.lineno), st))
        elif kind == "expr":
            if last_is_return:
                ret = body.pop()
                if ret.value is not None:
                    body.append(ast.copy_location(ast.Expr(value=ret.value), st))
        # kind == "return": the helper's returns are the function's returns;
        # falling off the helper's end returns None
        elif kind == "return" and not last_is_return:
            body.append(ast.copy_location(ast.Return(value=None), st))
        self.inlined.append(h.name)
        new = pre + body
        for n in new:
            ast.fix_missing_locations(n)
        return self._block(new, depth + 1, h.name)
