"""Interpretive judge for DependencyMapper's flag handlers (C09): each handler
is interpreted (pv/absint.py) on an abstract node for every value of its flag;
the result is compared with the flag table -- {expr} when the flag selects the
node kind, the union of the dependencies of the arguments (and of a computed
call head) under "descend_args", the inherited covering handler with all
extras when the flag is off."""
from __future__ import annotations

import ast

from . import AnalysisError
from .absint import Interp, Opaque, Raised, StepBound


class Node:
    def __init__(self, name_, **fields):
        self.name = name_
        self.fields = fields

    def __repr__(self):
        return f"<{self.name}>"


class Dep:
    def __init__(self, flags):
        self.flags = flags
        self.rec_calls = []


class Inherited:
    def __init__(self, name, args, kwargs):
        self.name, self.args, self.kwargs = name, args, kwargs

    def __repr__(self):
        return f"inherited {self.name}{self.args}{self.kwargs}"


def judge(handler_name, fn, flag, kind, class_node):
    """-> (witnesses, n_cases)"""
    helpers = {st.name: st for st in class_node.body
               if isinstance(st, ast.FunctionDef) and st.name.startswith("_")
               and not st.name.startswith("__")}
    wit = []
    n = 0
    values = [True, False] + (["descend_args"] if kind in (
        "Call", "CallWithKwargs") else [])
    for val in values:
        for head_is_var in ((True, False) if kind.startswith("Call") else (True,)):
            for extras, kw in (((), {}), (("A1",), {"k": "K1"})):
                n += 1
                p1, p2, k1 = Node("p1"), Node("p2"), Node("k1")
                head = Node("head", is_variable=head_is_var)
                if kind == "Call":
                    expr = Node("call", function=head, parameters=(p1, p2))
                    children = [p1, p2]
                elif kind == "CallWithKwargs":
                    expr = Node("callkw", function=head, parameters=(p1, p2),
                                kw_parameters={"k": k1})
                    children = [p1, p2, k1]
                elif kind == "Lookup":
                    expr = Node("lookup", aggregate=p1, name="attr")
                    children = [p1]
                elif kind == "Subscript":
                    expr = Node("subscript", aggregate=p1, index=p2)
                    children = [p1, p2]
                else:
                    expr = Node("cse", child=p1, prefix=None, scope="s")
                    children = [p1]
                flags = {"include_calls": True, "include_lookups": True,
                         "include_subscripts": True, "include_cses": True}
                flags[flag] = val
                mp = Dep(flags)

                def rec(*a, **k):
                    mp.rec_calls.append((a[0], a[1:], k))
                    return {("dep", a[0].name)}

                def attrs(it, node, base, attr):
                    if isinstance(base, Dep):
                        if attr in base.flags:
                            return base.flags[attr]
                        if attr == "rec":
                            return rec
                        if attr == "combine":
                            return lambda vs: set().union(*list(vs))
                        if attr in helpers:
                            return lambda *a, **k: it.call_function(
                                helpers[attr], [base] + list(a),
                                {"__kwargs__": dict(k)})
                        raise AnalysisError(f"mapper attribute {attr}")
                    if isinstance(base, Node):
                        if attr in base.fields:
                            return base.fields[attr]
                        raise Raised(node)
                    if isinstance(base, _Base):
                        return lambda *a, **k: Inherited(attr, a[1:], k)
                    if isinstance(base, _Super):
                        return lambda *a, **k: Inherited(attr, a, k)
                    return Opaque(ast.unparse(node))

                def isinstance_(it, node, args, kw_):
                    v, c = args
                    if "Variable" in getattr(c, "what", ""):
                        return isinstance(v, Node) and v.fields.get(
                            "is_variable", False)
                    _r = __import__("pv.absint", fromlist=["x"]).default_isinstance(v, c)
                    if _r is not None:
                        return _r
                    raise AnalysisError(f"isinstance(..., {c!r})")
                it = Interp(calls={
                    "super": lambda it_, n_, a, k: _Super(),
                    "isinstance": isinstance_,
                }, attrs=attrs, globals_={
                    "Variable": Opaque("class Variable"), "Collector": _Base(),
                    "CombineMapper": _Base(), "Mapper": _Base()},
                    max_steps=20000)
                label = (f"{handler_name} with {flag}={val!r}"
                         + ("" if head_is_var else ", computed call head")
                         + (f", extras {extras}{kw}" if extras else ""))
                try:
                    got = it.call_function(fn, [mp, expr] + list(extras),
                                           {"__kwargs__": dict(kw)})
                except Raised as r:
                    wit.append(f"{label}: raises at line {r.node.lineno}")
                    continue
                except StepBound:
                    wit.append(f"{label}: does not terminate")
                    continue
                if val is True:
                    ok = got == {expr}
                    want = "{expr}"
                elif val == "descend_args":
                    deps = {("dep", c.name) for c in children}
                    if not head_is_var:
                        deps.add(("dep", "head"))
                    ok = got == deps and all(
                        a == tuple(extras) and k == dict(kw)
                        for _, a, k in mp.rec_calls)
                    want = f"the dependencies of {sorted(d[1] for d in deps)}, " \
                           "extras passed on"
                else:
                    ok = isinstance(got, Inherited) and got.args == (
                        expr,) + tuple(extras) and got.kwargs == dict(kw) and \
                        (got.name == handler_name or (
                            handler_name.endswith("_uncached")
                            and got.name == "map_common_subexpression"))
                    want = "the inherited handler on (expr, *extras, **kw)"
                if not ok:
                    wit.append(f"{label}: {got!r}, expected {want}")
    return wit, n


class _Super:
    pass


class _Base(_Super):
    """an explicit base class: Base.handler(self, expr, ...)"""
