"""Obligation bookkeeping, known findings, evidence and replay files."""
from __future__ import annotations

import json
import os
import time
from dataclasses import dataclass, field

from . import AnalysisError

VERIF = os.path.dirname(os.path.dirname(os.path.abspath(__file__)))
EVIDENCE_DIR = os.environ.get("PV_EVIDENCE_DIR", os.path.join(VERIF, "evidence"))
KNOWN_FILE = os.path.join(VERIF, "known_findings.json")


@dataclass
class Obligation:
    key: str            # stable rule-instance key: rule/Class/handler/detail
    ok: bool
    where: str          # file:line
    what: str           # one-line diagnosis (for failures) or fact (for passes)
    facts: dict = field(default_factory=dict)
    nontrivial: bool = True


class Ctx:
    """Collects the obligations of one property check."""

    def __init__(self, prop: str, tier: str, model):
        self.prop = prop
        self.tier = tier
        self.model = model
        self.obs: list[Obligation] = []
        self.rule_counts: dict[str, int] = {}
        self.floors: list[tuple[str, int, int]] = []
        self.notes: list[str] = []
        self.assumptions: list[str] = []
        self.declined: list[str] = []
        self.decided: list[str] = []
        self.extra: dict = {}
        self.t0 = time.time()
        self._keys: set[str] = set()

    # ------------------------------------------------------------------
    def ob(self, key: str, ok: bool, where: str, what: str, facts=None,
           nontrivial=True):
        if key in self._keys:
            # same rule instance reached on another path / through another
            # alias: the instance holds only if it holds every time
            for o in self.obs:
                if o.key == key:
                    if o.ok and not ok:
                        o.ok, o.where, o.what = False, where, what
                        o.facts = facts or {}
                    o.nontrivial = o.nontrivial or nontrivial
                    return o
        self._keys.add(key)
        rule = key.split("/", 1)[0]
        self.rule_counts[rule] = self.rule_counts.get(rule, 0) + 1
        o = Obligation(key, bool(ok), where, what, facts or {}, nontrivial)
        self.obs.append(o)
        return o

    def withdraw_failures_since(self, mark: int, why: str, prefix: str = ""):
        """The structural rules recorded since *mark* did not recognise the
        shape of what they looked at, and a stronger judge (an interpretive
        rule over the same construct) has decided the matter in the meantime:
        their negative verdicts are withdrawn (kept in the evidence as
        discharged with the reason)."""
        for o in self.obs[mark:]:
            if not o.ok and o.key.startswith(prefix):
                o.ok = True
                o.what = f"[shape not recognised; {why}] " + o.what
                o.nontrivial = False

    def floor(self, name: str, count: int, minimum: int):
        """Anti-vacuity: an instance count below what was confirmed by hand
        is an analysis error, not a pass."""
        self.floors.append((name, count, minimum))
        if count < minimum:
            raise AnalysisError(
                f"anti-vacuity floor '{name}': matched {count} instances, "
                f"expected at least {minimum} (anchor renamed or idiom changed?)")

    def decide(self, text):
        self.decided.append(text)

    def decline(self, text):
        self.declined.append(text)

    def assume(self, text):
        self.assumptions.append(text)

    @property
    def failures(self):
        return [o for o in self.obs if not o.ok]


# ---------------------------------------------------------------------------

def load_known() -> list[dict]:
    if not os.path.exists(KNOWN_FILE):
        return []
    with open(KNOWN_FILE) as f:
        data = json.load(f)
    return data.get("findings", [])


def finish(ctx: Ctx, replay_key: str | None = None, write_evidence=True) -> int:
    """Print the report, write evidence and replay files, return exit code."""
    known = [k for k in load_known() if k.get("property") == ctx.prop]
    known_keys = {k["key"]: k for k in known if k.get("status") == "known"}
    fails = ctx.failures
    if replay_key is not None:
        fails = [o for o in fails if o.key == replay_key]
        hit = [o for o in ctx.obs if o.key == replay_key]
        if not hit:
            print(f"REPLAY property={ctx.prop} key={replay_key}: instance no "
                  "longer exists on this tree")
        else:
            o = hit[0]
            print(f"REPLAY property={ctx.prop} key={o.key} "
                  f"{'HOLDS' if o.ok else 'FAILS'}: {o.where} {o.what}")
    new = [o for o in fails if o.key not in known_keys]
    still_known = [o for o in fails if o.key in known_keys]
    stale = [k for k in known_keys if k not in {o.key for o in ctx.failures}]

    replay_dir = os.path.join(EVIDENCE_DIR, "replay")
    lines = []
    for o in still_known:
        k = known_keys[o.key]
        lines.append(f"KNOWN-FINDING: property={ctx.prop} {o.key} -- "
                     f"{k.get('what', o.what)} [{o.where}]")
    if replay_key is None:
        for k in stale:
            lines.append(f"STALE-KNOWN-FINDING: property={ctx.prop} {k} no longer "
                         "matches (informational)")
    if new and write_evidence:
        os.makedirs(replay_dir, exist_ok=True)
    for i, o in enumerate(new):
        path = os.path.join(replay_dir, f"{ctx.prop}-{i}.json")
        if write_evidence:
            with open(path, "w") as f:
                json.dump({"property": ctx.prop, "key": o.key, "where": o.where,
                           "what": o.what, "facts": o.facts}, f, indent=1,
                          default=str)
        lines.append(f"VIOLATION property={ctx.prop} replay={path}")
        lines.append(f"    {o.where}  {o.key}")
        lines.append(f"    -- {o.what}")
    for ln in lines:
        print(ln)

    wall = time.time() - ctx.t0
    n_ob = len(ctx.obs)
    n_ok = sum(1 for o in ctx.obs if o.ok)
    print(f"[{ctx.prop}/{ctx.tier}] obligations={n_ob} discharged={n_ok} "
          f"known={len(still_known)} new={len(new)} "
          f"rules={json.dumps(ctx.rule_counts, sort_keys=True)} "
          f"wall={wall:.2f}s")

    if write_evidence and replay_key is None:
        write_evidence_file(ctx, new, still_known, wall)
    return 1 if new else 0


def write_evidence_file(ctx: Ctx, new, still_known, wall):
    os.makedirs(EVIDENCE_DIR, exist_ok=True)
    samples = []
    seen_rules = set()
    for o in ctx.obs:
        rule = o.key.split("/", 1)[0]
        if rule not in seen_rules and o.nontrivial:
            seen_rules.add(rule)
            samples.append({"key": o.key, "ok": o.ok, "where": o.where,
                            "what": o.what, "facts": o.facts})
    distinct_nontrivial = len({o.key for o in ctx.obs if o.nontrivial})
    ev = {
        "property_id": ctx.prop,
        "tier": ctx.tier,
        "seed": int(os.environ.get("VERIF_SEED", "0") or 0),
        "level": "other",
        "coverage": {
            "explanation": (
                "Static analysis of /repo source (ast only, nothing executed). "
                "Decided clauses: " + "; ".join(ctx.decided) +
                ". Declined clauses: " + ("; ".join(ctx.declined) or "none") + "."),
            "obligations": len(ctx.obs),
            "discharged": sum(1 for o in ctx.obs if o.ok),
            "evaluations": max(len(ctx.obs), 1),
            "distinct_nontrivial": distinct_nontrivial,
            "rule": ("one obligation per rule instance (rule/class/handler/"
                     "detail); non-trivial = the instance inspected at least "
                     "one call site, table entry or path"),
            "per_rule_instances": dict(sorted(ctx.rule_counts.items())),
            "floors": [{"name": n, "matched": c, "minimum": m}
                       for n, c, m in ctx.floors],
            "samples": samples[:25],
            "exhaustive": True,
            "files_consulted": ctx.model.repo.digests(),
            "tree_digest": ctx.model.repo.all_digest(),
            "known_findings": [o.key for o in still_known],
            "new_violations": [o.key for o in new],
            "trusted_base": [
                "Python ast module (parser of the interpreter running the check)",
                "oracle tables in pv/oracles.py",
                "structural-induction argument of DESIGN.md section 1",
            ],
            "checker_cmd": f"./check {ctx.prop} --tier {ctx.tier}",
            **ctx.extra,
        },
        "assumptions": ctx.assumptions,
        "wall_s": round(wall, 3),
        "violations": len(new),
    }
    path = os.path.join(EVIDENCE_DIR, f"{ctx.prop}.json")
    tmp = path + ".tmp"
    with open(tmp, "w") as f:
        json.dump(ev, f, indent=1, default=str)
    os.replace(tmp, path)
