"""pv -- static verification engine for inducer/pymbolic.

Everything in this package decides facts from the *source text* of the
repository (parsed with :mod:`ast`).  The repository package is never
imported; the guard below makes sure of that.
"""
import sys


class AnalysisError(Exception):
    """The analyser met something it does not understand (vanished anchor,
    unknown idiom, instance count below the floor).  Reported as
    ANALYSIS-ERROR / exit 2, never as a violation and never as a pass."""


class ModelViolation(AnalysisError):
    """Raised by a table extractor when the construct it is reading is not
    merely unfamiliar but *definitely* breaks the fact the table stands for
    (e.g. forced parentheses that are skipped on some path).  The check that
    called the extractor cannot go on (there is no table), so the driver
    records the obligation as failed and finishes: exit 1, not 2."""

    def __init__(self, key, where, what):
        super().__init__(f"{key}: {what}")
        self.key, self.where, self.what = key, where, what


def assert_not_imported():
    for name in list(sys.modules):
        if name == "pymbolic" or name.startswith("pymbolic."):
            raise AnalysisError(
                "pymbolic was imported into the checker process; "
                "checks must decide from source only")
