"""Path enumeration over the statement kinds the package uses.

A *path* is a list of items
    ("stmt", node)            simple statement executed
    ("cond", test, polarity)  branch taken on an if/while/assert/ifexp-free test
    ("for", node)             one symbolic iteration of a for loop begins
    ("endfor", node)          ... ends
    ("skipfor", node)         the loop body is not executed at all
    ("except", handler, try)  control enters an except clause
    ("with", node)
ending in exactly one terminator
    ("return", node) | ("raise", node) | ("end", None)

Loops are unrolled to "zero or one symbolic iteration" (mode "01") or to exactly
one symbolic iteration (mode "1"), which is what the per-handler rules need:
the single iteration stands for every element.
"""
from __future__ import annotations

import ast

from . import AnalysisError

MAX_PATHS = 4096

TERMINATORS = ("return", "raise", "end")


class _Flow:
    """partial path + how it leaves the block"""
    __slots__ = ("items", "exit")

    def __init__(self, items, exit=None):
        self.items = items
        self.exit = exit     # None (falls through) | "return"|"raise"|"break"|"continue"


def paths(fn: ast.FunctionDef, loop_mode="1", body=None):
    flows = _block(body if body is not None else fn.body, loop_mode)
    out = []
    for f in flows:
        items = list(f.items)
        if f.exit is None or f.exit in ("break", "continue"):
            items.append(("end", None))
        out.append(items)
    if len(out) > MAX_PATHS:
        raise AnalysisError(f"{fn.name}: more than {MAX_PATHS} paths")
    return out


def _seq(flows_a, make_b):
    out = []
    for fa in flows_a:
        if fa.exit is not None:
            out.append(fa)
        else:
            for fb in make_b():
                out.append(_Flow(fa.items + fb.items, fb.exit))
    if len(out) > MAX_PATHS:
        raise AnalysisError(f"more than {MAX_PATHS} paths")
    return out


def _block(stmts, loop_mode):
    flows = [_Flow([])]
    for s in stmts:
        flows = _seq(flows, lambda s=s: _stmt(s, loop_mode))
    return flows


def _stmt(s, loop_mode):
    if isinstance(s, ast.Return):
        return [_Flow([("return", s)], "return")]
    if isinstance(s, ast.Raise):
        return [_Flow([("raise", s)], "raise")]
    if isinstance(s, ast.Break):
        return [_Flow([], "break")]
    if isinstance(s, ast.Continue):
        return [_Flow([], "continue")]
    if isinstance(s, ast.If):
        a = [_Flow([("cond", s.test, True)] + f.items, f.exit)
             for f in _block(s.body, loop_mode)]
        b = [_Flow([("cond", s.test, False)] + f.items, f.exit)
             for f in _block(s.orelse, loop_mode)]
        return a + b
    if isinstance(s, ast.Assert):
        return [_Flow([("cond", s.test, True)]),
                _Flow([("cond", s.test, False), ("raise", s)], "raise")]
    if isinstance(s, (ast.For, ast.While)):
        out = []
        head = ("for", s) if isinstance(s, ast.For) else ("cond", s.test, True)
        for f in _block(s.body, loop_mode):
            if f.exit in (None, "continue"):
                for g in _block(s.orelse, loop_mode):
                    out.append(_Flow([head] + f.items + [("endfor", s)] + g.items,
                                     g.exit))
            elif f.exit == "break":
                out.append(_Flow([head] + f.items + [("endfor", s)], None))
            else:
                out.append(_Flow([head] + f.items, f.exit))
        if loop_mode == "01" or isinstance(s, ast.While):
            skip = ("skipfor", s) if isinstance(s, ast.For) \
                else ("cond", s.test, False)
            for g in _block(s.orelse, loop_mode):
                out.append(_Flow([skip] + g.items, g.exit))
        return out
    if isinstance(s, ast.Try):
        out = []
        body_flows = _block(s.body, loop_mode)
        for f in body_flows:
            if f.exit is None:
                for g in _block(s.orelse, loop_mode):
                    out.append(_Flow(f.items + g.items, g.exit))
            else:
                out.append(f)
        for h in s.handlers:
            for g in _block(h.body, loop_mode):
                out.append(_Flow([("except", h, s)] + g.items, g.exit))
        if s.finalbody:
            fin = _block(s.finalbody, loop_mode)
            out2 = []
            for f in out:
                for g in fin:
                    if g.exit is not None:
                        out2.append(_Flow(f.items + g.items, g.exit))
                    else:
                        out2.append(_Flow(f.items + g.items, f.exit))
            out = out2
        return out
    if isinstance(s, ast.With):
        return [_Flow([("with", s)] + f.items, f.exit)
                for f in _block(s.body, loop_mode)]
    if isinstance(s, (ast.FunctionDef, ast.ClassDef, ast.Import, ast.ImportFrom,
                      ast.Pass, ast.Global, ast.Nonlocal)):
        return [_Flow([("stmt", s)])]
    if isinstance(s, (ast.Assign, ast.AugAssign, ast.AnnAssign, ast.Expr,
                      ast.Delete)):
        return [_Flow([("stmt", s)])]
    if isinstance(s, ast.Match):
        return _stmt(desugar_match(s), loop_mode)
    raise AnalysisError(f"statement kind {type(s).__name__} not supported")


def desugar_match(m: ast.Match):
    """match <subject>: case ... -> the if/elif chain it abbreviates, for the
    pattern kinds the package's style uses: class patterns (isinstance tests,
    keyword sub-patterns become attribute tests / bindings), value patterns
    (==), `None`/`True`/`False` (is), or-patterns, captures and the wildcard.
    Anything else is not understood (AnalysisError)."""
    subj = m.subject
    pre = []
    if not isinstance(subj, (ast.Name, ast.Attribute)):
        tmp = ast.Name(id="_match_subject", ctx=ast.Store())
        pre.append(ast.Assign(targets=[tmp], value=subj, lineno=m.lineno,
                              col_offset=0))
        subj = ast.Name(id="_match_subject", ctx=ast.Load())

    def conv(pat, val):
        """-> (test expr or None for 'always', [binding statements])"""
        if isinstance(pat, ast.MatchAs):
            if pat.pattern is None:
                binds = [] if pat.name is None else [ast.Assign(
                    targets=[ast.Name(id=pat.name, ctx=ast.Store())], value=val,
                    lineno=m.lineno, col_offset=0)]
                return None, binds
            t, b = conv(pat.pattern, val)
            return t, b + [ast.Assign(
                targets=[ast.Name(id=pat.name, ctx=ast.Store())], value=val,
                lineno=m.lineno, col_offset=0)]
        if isinstance(pat, ast.MatchValue):
            return ast.Compare(left=val, ops=[ast.Eq()],
                               comparators=[pat.value]), []
        if isinstance(pat, ast.MatchSingleton):
            return ast.Compare(left=val, ops=[ast.Is()],
                               comparators=[ast.Constant(pat.value)]), []
        if isinstance(pat, ast.MatchOr):
            tests = []
            for sub in pat.patterns:
                t, b = conv(sub, val)
                if b:
                    raise AnalysisError("match: bindings inside an or-pattern")
                if t is None:
                    return None, []
                tests.append(t)
            return ast.BoolOp(op=ast.Or(), values=tests), []
        if isinstance(pat, ast.MatchClass) and not pat.patterns:
            tests = [ast.Call(func=ast.Name(id="isinstance", ctx=ast.Load()),
                              args=[val, pat.cls], keywords=[])]
            binds = []
            for attr, sub in zip(pat.kwd_attrs, pat.kwd_patterns):
                t, b = conv(sub, ast.Attribute(value=val, attr=attr,
                                               ctx=ast.Load()))
                if t is not None:
                    tests.append(t)
                binds += b
            test = tests[0] if len(tests) == 1 else ast.BoolOp(
                op=ast.And(), values=tests)
            return test, binds
        raise AnalysisError(f"match: pattern {ast.unparse(pat)} not understood")

    chain = None
    tail = None
    for case in m.cases:
        test, binds = conv(case.pattern, subj)
        if case.guard is not None:
            if binds:
                raise AnalysisError("match: a guard over captured names")
            test = case.guard if test is None else ast.BoolOp(
                op=ast.And(), values=[test, case.guard])
        body = binds + list(case.body)
        if test is None:
            if tail is None:
                chain = chain or body
                if chain is body:
                    break
            else:
                tail.orelse = body
            break
        node = ast.If(test=test, body=body, orelse=[])
        if chain is None:
            chain = node
        else:
            tail.orelse = [node]
        tail = node
    if chain is None:
        chain = ast.Pass()
    out = ast.If(test=ast.Constant(True),
                 body=pre + (chain if isinstance(chain, list) else [chain]),
                 orelse=[])
    ast.copy_location(out, m)
    ast.fix_missing_locations(out)
    return out


def terminator(path):
    return path[-1]


def stmts_on(path):
    return [it[1] for it in path if it[0] == "stmt"]
