"""Exact multivariate rational functions over named atoms (normal form used to
compare the right-hand sides of differentiation rules with reference
formulas).  A polynomial is {monomial: Fraction}, a monomial a sorted tuple of
(atom, exponent)."""
from __future__ import annotations

from fractions import Fraction


class Poly:
    __slots__ = ("t",)

    def __init__(self, terms=None):
        self.t = {k: v for k, v in (terms or {}).items() if v != 0}

    @staticmethod
    def const(c):
        return Poly({(): Fraction(c)})

    @staticmethod
    def atom(name):
        return Poly({((name, 1),): Fraction(1)})

    def __add__(self, o):
        r = dict(self.t)
        for k, v in o.t.items():
            r[k] = r.get(k, 0) + v
        return Poly(r)

    def __neg__(self):
        return Poly({k: -v for k, v in self.t.items()})

    def __sub__(self, o):
        return self + (-o)

    def __mul__(self, o):
        r = {}
        for k1, v1 in self.t.items():
            for k2, v2 in o.t.items():
                d = dict(k1)
                for a, e in k2:
                    d[a] = d.get(a, 0) + e
                k = tuple(sorted((a, e) for a, e in d.items() if e))
                r[k] = r.get(k, 0) + v1 * v2
        return Poly(r)

    def __eq__(self, o):
        return self.t == o.t

    def __hash__(self):
        return hash(frozenset(self.t.items()))

    def is_zero(self):
        return not self.t

    def subst_zero(self, atom):
        return Poly({k: v for k, v in self.t.items()
                     if all(a != atom for a, _ in k)})

    def __repr__(self):
        if not self.t:
            return "0"
        out = []
        for k, v in sorted(self.t.items()):
            mon = "*".join(a if e == 1 else f"{a}^{e}" for a, e in k)
            out.append(f"{v}*{mon}" if mon and v != 1 else (mon or str(v)))
        return " + ".join(out)


class Rat:
    """num/den with polynomial num, den; equality by cross-multiplication"""
    __slots__ = ("n", "d")

    def __init__(self, n, d=None):
        self.n = n
        self.d = d if d is not None else Poly.const(1)

    @staticmethod
    def const(c):
        return Rat(Poly.const(c))

    @staticmethod
    def atom(name):
        return Rat(Poly.atom(name))

    def __add__(self, o):
        return Rat(self.n * o.d + o.n * self.d, self.d * o.d)

    def __neg__(self):
        return Rat(-self.n, self.d)

    def __sub__(self, o):
        return self + (-o)

    def __mul__(self, o):
        return Rat(self.n * o.n, self.d * o.d)

    def __truediv__(self, o):
        if o.n.is_zero():
            raise ZeroDivisionError
        return Rat(self.n * o.d, self.d * o.n)

    def __pow__(self, k):
        r = Rat.const(1)
        for _ in range(abs(k)):
            r = r * self
        return r if k >= 0 else Rat.const(1) / r

    def equals(self, o):
        return (self.n * o.d) == (o.n * self.d)

    def subst_zero(self, atom):
        return Rat(self.n.subst_zero(atom), self.d.subst_zero(atom))

    def equals_mod_identities(self, o):
        """equality modulo tan = sin/cos, sin^2 + cos^2 = 1 and their
        hyperbolic counterparts (tanh = sinh/cosh, cosh^2 - sinh^2 = 1): the
        cross-multiplied difference, cleared of tan / tanh and reduced by
        cos^2 -> 1 - sin^2, cosh^2 -> 1 + sinh^2, vanishes"""
        p = self.n * o.d - o.n * self.d
        for t_, s_, c_, sign in (("tan", "sin", "cos", -1),
                                 ("tanh", "sinh", "cosh", 1)):
            args = {a[len(t_) + 1:-1] for k in p.t for a, _ in k
                    if a.startswith(t_ + "(") and a.endswith(")")} | {
                a[len(c_) + 1:-1] for k in p.t for a, _ in k
                if a.startswith(c_ + "(") and a.endswith(")")}
            for x in sorted(args):
                ta, sa, ca = f"{t_}({x})", f"{s_}({x})", f"{c_}({x})"
                top = max((e for k in p.t for a, e in k if a == ta), default=0)
                r = Poly()
                for k, v in p.t.items():
                    d = dict(k)
                    e = d.pop(ta, 0)
                    d[sa] = d.get(sa, 0) + e
                    d[ca] = d.get(ca, 0) + (top - e)
                    ce = d.pop(ca, 0)
                    term = Poly({tuple(sorted((a, n) for a, n in d.items()
                                              if n)): v})
                    one_pm = Poly.const(1) + Poly({((sa, 2),): Fraction(sign)})
                    for _ in range(ce // 2):
                        term = term * one_pm
                    if ce % 2:
                        term = term * Poly.atom(ca)
                    r = r + term
                p = r
        return p.is_zero()

    def __repr__(self):
        return f"({self.n}) / ({self.d})"
