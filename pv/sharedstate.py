"""Process-lifetime state: rebindable registries and memo tables.

Two rule families that cut across properties (round 4 of the seeded changes:
six independent changes were of this kind and none was reported):

* **registry reads** -- a module-level name that a public function rebinds
  (``global G; G = ...`` / ``G += ...``: ``register_constant_class``) is a
  *registry*.  Every consumer must read it through its home module at call
  time.  A module-level ``from M import G`` in another module, a module-level
  value computed from G in M itself, or a default argument / class attribute
  computed from G is a snapshot taken at import time: registrations made later
  never reach it.
* **memo tables** -- a module-level or class-level mutable container that some
  function stores into, or a function wrapped in a memoizing decorator, lives
  as long as the process and is shared by every caller.  Its key must (a) not
  be the ``id()`` of an object the table does not keep alive, (b) cover every
  parameter (and, for a table shared between classes, the instance / its
  class) the stored value is computed from, (c) not be an expression compared
  by ``==`` when the stored value is the result of translating that expression
  (``1``, ``1.0`` and ``True`` nested in a node are equal).

Both are facts about *which names flow where*; nothing is compared with source
text.  Which tables exist is read from the tree under analysis on every run.
"""
from __future__ import annotations

import ast
import json
import os
from dataclasses import dataclass, field

from . import AnalysisError

_MUTABLE_CTORS = {
    "dict", "list", "set", "defaultdict", "collections.defaultdict",
    "OrderedDict", "collections.OrderedDict", "WeakKeyDictionary",
    "weakref.WeakKeyDictionary", "WeakValueDictionary",
    "weakref.WeakValueDictionary", "Counter", "collections.Counter",
    "deque", "collections.deque",
}
_MEMO_DECORATORS = {"lru_cache", "cache", "memoize", "memoize_on_first_arg"}
_STORE_METHODS = {"setdefault", "update", "add", "append", "extend",
                  "__setitem__", "insert"}


def anchor_modules(prop: str) -> set:
    """dotted module names of the files the property is anchored in (read from
    properties.jsonl, which is given and fixed)"""
    here = os.path.dirname(os.path.dirname(os.path.abspath(__file__)))
    out = set()
    with open(os.path.join(here, "properties.jsonl")) as f:
        for line in f:
            p = json.loads(line)
            if p["id"] == prop:
                for fn in p["anchors"]["files"]:
                    parts = fn[:-3].split("/")
                    if parts[-1] == "__init__":
                        parts = parts[:-1]
                    out.add(".".join(parts))
    if not out:
        raise AnalysisError(f"no anchor files for {prop}")
    return out


# ---------------------------------------------------------------------------
# registries

def _functions(tree):
    for n in ast.walk(tree):
        if isinstance(n, (ast.FunctionDef, ast.AsyncFunctionDef)):
            yield n


def rebindable_globals(model) -> dict:
    """{(module name, global name): [names of the public functions that rebind it]}"""
    out = {}
    for m in model.repo.modules.values():
        for fn in m.tree.body:
            if not isinstance(fn, ast.FunctionDef) or fn.name.startswith("_"):
                continue
            declared = set()
            for n in ast.walk(fn):
                if isinstance(n, ast.Global):
                    declared.update(n.names)
            if not declared:
                continue
            for n in ast.walk(fn):
                tgts = []
                if isinstance(n, ast.Assign):
                    tgts = n.targets
                elif isinstance(n, (ast.AugAssign, ast.AnnAssign)):
                    tgts = [n.target]
                for t in tgts:
                    if isinstance(t, ast.Name) and t.id in declared:
                        out.setdefault((m.name, t.id), [])
                        if fn.name not in out[(m.name, t.id)]:
                            out[(m.name, t.id)].append(fn.name)
    return out


def _reads(node, name):
    return [n for n in ast.walk(node)
            if isinstance(n, ast.Name) and n.id == name
            and isinstance(n.ctx, ast.Load)]


def check_registry_reads(ctx, model, home="pymbolic.primitives", floor=1):
    """rule O/registry/*: registries of *home* are read at call time"""
    regs = {k: v for k, v in rebindable_globals(model).items() if k[0] == home}
    ctx.floor("rebindable registries in " + home, len(regs), floor)
    hm = model.repo.module(home)
    for (_, g), rebinders in sorted(regs.items()):
        # (1) snapshots by import
        for m in model.repo.modules.values():
            if m.name == home:
                continue
            for node in m.tree.body:
                stack = [node]
                while stack:
                    n = stack.pop()
                    if isinstance(n, ast.ImportFrom):
                        base = m.imports.get(
                            (n.names[0].asname or n.names[0].name), ("", "", ""))
                        for a in n.names:
                            imp = m.imports.get(a.asname or a.name)
                            if a.name == g and imp == ("attr", home, g):
                                local = a.asname or a.name
                                users = [f.name for f in _functions(m.tree)
                                         if _reads(f, local)]
                                ctx.ob(f"O/registry/{g}/no-import-snapshot:{m.name}",
                                       False, m.loc(n),
                                       f"'from {home} import {g}' at module level "
                                       f"binds the tuple as it is at import time; "
                                       f"{'/'.join(rebinders)}() rebinds {home}.{g}, "
                                       f"so classes registered later never reach "
                                       f"{', '.join(users[:4]) or 'this module'}")
                        del base
                    elif isinstance(n, (ast.If, ast.Try)):
                        stack.extend(ast.iter_child_nodes(n))
                    elif isinstance(n, ast.ExceptHandler):
                        stack.extend(n.body)
        # (2) snapshots inside the home module: import-time values derived
        # from the registry under another name, defaults, class attributes
        derived = []

        def visit_toplevel(stmts, in_class=None):
            for s in stmts:
                if isinstance(s, (ast.FunctionDef, ast.AsyncFunctionDef)):
                    for d in list(s.args.defaults) + \
                            [d for d in s.args.kw_defaults if d is not None] + \
                            list(s.decorator_list):
                        if _reads(d, g):
                            derived.append((s, f"a default / decorator argument "
                                               f"of {s.name}()"))
                elif isinstance(s, ast.ClassDef):
                    visit_toplevel(s.body, s.name)
                elif isinstance(s, (ast.If, ast.Try, ast.With)):
                    for fld in ("body", "orelse", "finalbody"):
                        visit_toplevel(getattr(s, fld, []), in_class)
                    for h in getattr(s, "handlers", []):
                        visit_toplevel(h.body, in_class)
                elif isinstance(s, (ast.Assign, ast.AnnAssign, ast.AugAssign)):
                    tgts = s.targets if isinstance(s, ast.Assign) else [s.target]
                    val = s.value
                    if val is None or not _reads(val, g):
                        continue
                    names = [t.id for t in tgts if isinstance(t, ast.Name)]
                    if names == [g] and in_class is None:
                        continue        # the registry's own set-up
                    derived.append((s, (f"{in_class}." if in_class else "") +
                                    "/".join(names or ["<target>"])))
        visit_toplevel(hm.tree.body)
        # a derived value that every rebinder refreshes is not a snapshot
        stale = []
        for s, label in derived:
            names = []
            if isinstance(s, (ast.Assign, ast.AnnAssign, ast.AugAssign)):
                tgts = s.targets if isinstance(s, ast.Assign) else [s.target]
                names = [t.id for t in tgts if isinstance(t, ast.Name)]
            refreshed = bool(names)
            for fn in hm.tree.body:
                if isinstance(fn, ast.FunctionDef) and fn.name in rebinders:
                    stored = {t.id for n in ast.walk(fn)
                              if isinstance(n, (ast.Assign, ast.AugAssign))
                              for t in (n.targets if isinstance(n, ast.Assign)
                                        else [n.target])
                              if isinstance(t, ast.Name)}
                    glob = {x for n in ast.walk(fn) if isinstance(n, ast.Global)
                            for x in n.names}
                    if not all(nm in stored and nm in glob for nm in names):
                        refreshed = False
            if not refreshed:
                stale.append((s, label))
        for s, label in stale:
            ctx.ob(f"O/registry/{g}/no-derived-snapshot:{label}", False,
                   hm.loc(s),
                   f"{label} is computed from {g} once, when the module is "
                   f"imported; {'/'.join(rebinders)}() rebinds {g} but not this "
                   "value, so whatever consults it does not see classes "
                   "registered later (while the predicates that read "
                   f"{g} directly do)")
        n_readers = sum(1 for f in _functions(hm.tree) if _reads(f, g)
                        and f.name not in rebinders)
        ctx.ob(f"O/registry/{g}/read-at-call-time", True, hm.relpath,
               f"{g} is rebound by {'/'.join(rebinders)}(); {n_readers} functions "
               "of its module read it when they are called, no other module "
               "imports the name itself and no import-time value is derived "
               "from it" if not stale else f"{g}: see the snapshot reports",
               {"rebinders": rebinders, "readers_in_home": n_readers})


# ---------------------------------------------------------------------------
# memo tables

@dataclass
class Table:
    module: object
    name: str
    owner: str | None          # class name for class-level tables
    node: ast.AST
    writers: list = field(default_factory=list)   # (fn, store node, key, value)


def _is_mutable_value(v):
    if isinstance(v, (ast.Dict, ast.List, ast.Set)):
        return True
    if isinstance(v, (ast.DictComp, ast.ListComp, ast.SetComp)):
        return True
    return isinstance(v, ast.Call) and ast.unparse(v.func) in _MUTABLE_CTORS


def _table_ref(e, name, owner):
    """does expression e denote the table *name* (module-level Name, or an
    attribute of self / cls / type(self) / the owner class for class-level)?"""
    if owner is None:
        return isinstance(e, ast.Name) and e.id == name
    if isinstance(e, ast.Attribute) and e.attr == name:
        b = e.value
        if isinstance(b, ast.Name) and b.id in ("self", "cls", owner):
            return True
        if isinstance(b, ast.Call) and ast.unparse(b.func) == "type":
            return True
        if isinstance(b, ast.Attribute) and b.attr == "__class__":
            return True
    return False


def _stores_in(fn, name, owner):
    """[(store node, key expr or None, value expr or None)]"""
    out = []
    # local aliases of the table
    aliases = set()
    for n in ast.walk(fn):
        if isinstance(n, ast.Assign) and _table_ref(n.value, name, owner):
            for t in n.targets:
                if isinstance(t, ast.Name):
                    aliases.add(t.id)

    def is_tab(e):
        return _table_ref(e, name, owner) or \
            (isinstance(e, ast.Name) and e.id in aliases)
    for n in ast.walk(fn):
        if isinstance(n, (ast.Assign, ast.AugAssign, ast.AnnAssign)):
            tgts = n.targets if isinstance(n, ast.Assign) else [n.target]
            for t in tgts:
                if isinstance(t, ast.Subscript) and is_tab(t.value):
                    out.append((n, t.slice, n.value))
        elif isinstance(n, ast.Call) and isinstance(n.func, ast.Attribute) and \
                n.func.attr in _STORE_METHODS and is_tab(n.func.value):
            key = n.args[0] if n.args else None
            val = n.args[1] if len(n.args) > 1 else None
            if n.func.attr in ("add", "append", "extend", "update"):
                key, val = None, (n.args[0] if n.args else None)
            out.append((n, key, val))
        elif isinstance(n, ast.NamedExpr):
            pass
    return out


def memo_tables(model, modules=None) -> list:
    tabs = []
    for m in model.repo.modules.values():
        if modules is not None and m.name not in modules:
            continue
        cands = []
        for s in m.tree.body:
            if isinstance(s, (ast.Assign, ast.AnnAssign)):
                v = s.value
                tgts = s.targets if isinstance(s, ast.Assign) else [s.target]
                if v is not None and _is_mutable_value(v):
                    for t in tgts:
                        if isinstance(t, ast.Name):
                            cands.append(Table(m, t.id, None, s))
            elif isinstance(s, ast.ClassDef):
                for cs in s.body:
                    if isinstance(cs, (ast.Assign, ast.AnnAssign)):
                        v = cs.value
                        tgts = cs.targets if isinstance(cs, ast.Assign) \
                            else [cs.target]
                        if v is not None and _is_mutable_value(v):
                            for t in tgts:
                                if isinstance(t, ast.Name):
                                    cands.append(Table(m, t.id, s.name, cs))
        for t in cands:
            for fn in _functions(m.tree):
                if t.owner is None:
                    # a local of the same name shadows the table
                    if any(isinstance(a, ast.arg) and a.arg == t.name
                           for a in ast.walk(fn.args)):
                        continue
                for st, key, val in _stores_in(fn, t.name, t.owner):
                    t.writers.append((fn, st, key, val))
            if t.writers:
                tabs.append(t)
    return tabs


def memo_functions(model, modules=None) -> list:
    """[(module, fn, decorator name)] for functions under a process-lifetime
    memoizing decorator"""
    out = []
    for m in model.repo.modules.values():
        if modules is not None and m.name not in modules:
            continue
        for fn in _functions(m.tree):
            for d in fn.decorator_list:
                f = d.func if isinstance(d, ast.Call) else d
                nm = f.attr if isinstance(f, ast.Attribute) else \
                    (f.id if isinstance(f, ast.Name) else None)
                if nm in _MEMO_DECORATORS:
                    out.append((m, fn, nm))
    return out


def _names(e):
    return {n.id for n in ast.walk(e) if isinstance(n, ast.Name)} if e is not None \
        else set()


def _depends_on(fn, value_expr, upto=None, exprs=None):
    """names (parameters and locals) the value transitively depends on through
    assignments in fn (flow-insensitive backward slice); the expressions of the
    slice are appended to `exprs` when a list is given"""
    defs = {}
    for n in ast.walk(fn):
        if isinstance(n, ast.Assign):
            for t in n.targets:
                for nm in _target_names(t):
                    defs.setdefault(nm, []).append(n.value)
        elif isinstance(n, (ast.AugAssign, ast.AnnAssign)) and n.value is not None:
            for nm in _target_names(n.target):
                defs.setdefault(nm, []).append(n.value)
        elif isinstance(n, ast.For):
            for nm in _target_names(n.target):
                defs.setdefault(nm, []).append(n.iter)
        elif isinstance(n, ast.comprehension):
            for nm in _target_names(n.target):
                defs.setdefault(nm, []).append(n.iter)
        elif isinstance(n, ast.NamedExpr):
            defs.setdefault(n.target.id, []).append(n.value)
    seen = set()
    work = list(_names(value_expr))
    if exprs is not None and value_expr is not None:
        exprs.append(value_expr)
    while work:
        nm = work.pop()
        if nm in seen:
            continue
        seen.add(nm)
        for v in defs.get(nm, []):
            if exprs is not None:
                exprs.append(v)
            work.extend(_names(v) - seen)
    return seen


def _uses_of(exprs, p):
    """how a slice reads the parameter p: (read whole?, attributes read).  A
    read is 'whole' unless it is the object of an attribute access."""
    whole, attrs = False, set()
    for e in exprs:
        objs = set()
        for n in ast.walk(e):
            if isinstance(n, ast.Attribute) and isinstance(n.value, ast.Name) \
                    and n.value.id == p:
                attrs.add(n.attr)
                objs.add(id(n.value))
        for n in ast.walk(e):
            if isinstance(n, ast.Name) and n.id == p and id(n) not in objs:
                whole = True
    return whole, attrs


def _target_names(t):
    if isinstance(t, ast.Name):
        return [t.id]
    if isinstance(t, (ast.Tuple, ast.List)):
        return [x for e in t.elts for x in _target_names(e)]
    if isinstance(t, ast.Starred):
        return _target_names(t.value)
    return []


def _params(fn):
    a = fn.args
    return [x.arg for x in a.posonlyargs + a.args + a.kwonlyargs] + \
        ([a.vararg.arg] if a.vararg else []) + ([a.kwarg.arg] if a.kwarg else [])


def _mapper_applications(model, m, fn):
    """parameters of fn handed as the first argument to a mapper instance
    (``SomeMapper(...)(param, ...)``) -- they are expressions"""
    out = set()
    try:
        base = model.cls("pymbolic.mapper:Mapper")
    except AnalysisError:
        return out
    for n in ast.walk(fn):
        if isinstance(n, ast.Call) and isinstance(n.func, ast.Call) and n.args \
                and isinstance(n.args[0], ast.Name):
            r = model.resolve_in_module(m, n.func.func)
            ci = r if hasattr(r, "members") else None
            if ci is not None and (ci is base or model.is_subclass(ci, base)):
                out.add(n.args[0].id)
    return out


def check_memo_tables(ctx, model, modules, accepted=()):
    """rule O/memo/*: process-lifetime tables written by the modules in scope"""
    tabs = memo_tables(model, modules)
    fns = memo_functions(model, modules)
    n_inst = 0
    for t in tabs:
        label = (f"{t.owner}." if t.owner else "") + t.name
        tag = f"{t.module.name.split('.', 1)[-1]}:{label}"
        for fn, st, key, val in t.writers:
            n_inst += 1
            loc = t.module.loc(st)
            if key is None:
                continue
            # (a) identity keys
            ids = [n for n in ast.walk(key) if isinstance(n, ast.Call)
                   and isinstance(n.func, ast.Name) and n.func.id == "id"]
            key_dep = _depends_on(fn, key)
            for idc in [n for nm in key_dep for n in []]:
                ids.append(idc)
            # id() taken earlier and bound to a local that the key uses
            for n in ast.walk(fn):
                if isinstance(n, ast.Assign) and any(
                        isinstance(c, ast.Call) and isinstance(c.func, ast.Name)
                        and c.func.id == "id" for c in ast.walk(n.value)):
                    if set(x for tt in n.targets for x in _target_names(tt)) \
                            & key_dep:
                        ids.extend(c for c in ast.walk(n.value)
                                   if isinstance(c, ast.Call)
                                   and isinstance(c.func, ast.Name)
                                   and c.func.id == "id")
            if ids:
                objs = sorted({ast.unparse(c.args[0]) for c in ids if c.args})
                kept = val is not None and all(
                    o in {ast.unparse(x) for x in ast.walk(val)} for o in objs)
                ctx.ob(f"O/memo/{tag}/key-by-identity", kept, loc,
                       f"{label} outlives the objects it is keyed by: id("
                       f"{', '.join(objs)}) is reused by a later object once "
                       "this one is collected, and the later one is served the "
                       f"entry of the earlier one (in {fn.name}())"
                       if not kept else
                       f"{label}: the keyed object is kept alive by the entry")
            # (b) the key covers what the value is computed from
            if val is not None:
                params = [p for p in _params(fn)]
                vdep = _depends_on(fn, val)
                shared_between_classes = t.owner is not None or t.owner is None
                missing = []
                for p in params:
                    if p in ("self", "cls"):
                        # an instance / class the value depends on: the key must
                        # tell instances (classes) apart when the table is
                        # shared between them
                        if p in vdep and shared_between_classes and \
                                p not in key_dep:
                            missing.append(p)
                        continue
                    if p in vdep and p not in key_dep:
                        missing.append(p)
                if "self" in missing and not _self_matters(fn, val, vdep):
                    missing.remove("self")
                # a key that names only some attributes of a parameter covers
                # only those: what the value reads beyond them is left out
                vex, kex = [], []
                _depends_on(fn, val, exprs=vex)
                _depends_on(fn, key, exprs=kex)
                for p in params:
                    if p in ("self", "cls") or p not in vdep or \
                            p not in key_dep or p in missing:
                        continue
                    kwhole, kattrs = _uses_of(kex, p)
                    if kwhole or not kattrs:
                        continue
                    vwhole, vattrs = _uses_of(vex, p)
                    beyond = sorted(vattrs - kattrs)
                    if vwhole and not beyond:
                        beyond = ["<the whole object>"]
                    if beyond:
                        missing.append(
                            f"{p}.{'/'.join(beyond)} (the key reads only "
                            f"{p}.{'/'.join(sorted(kattrs))})")
                ctx.ob(f"O/memo/{tag}/key-covers-inputs:{fn.name}", not missing,
                       loc,
                       f"{label}[{ast.unparse(key)}] is computed from "
                       f"{', '.join(missing)} as well, which the key leaves out: "
                       "a later call with another "
                       f"{' / '.join(missing)} is served the entry made for the "
                       "first one" if missing else
                       f"{label}: the key mentions every input of the stored value",
                       {"key": ast.unparse(key), "inputs": sorted(
                           set(params) & vdep)})
    for m, fn, deco in fns:
        n_inst += 1
        tag = f"{m.name.split('.', 1)[-1]}:{fn.name}"
        exprs = _mapper_applications(model, m, fn) & set(_params(fn))
        ctx.ob(f"O/memo/{tag}/expression-not-keyed-by-equality", not exprs,
               m.loc(fn),
               f"{fn.name}() is memoized for the life of the process "
               f"(@{deco}) on {', '.join(sorted(exprs))}, an expression, and "
               "expressions that differ only in the type of a nested constant "
               "(x*3 and x*3.0, x**2 and x**2.0) compare equal: whichever is "
               "translated first decides what both get" if exprs else
               f"@{deco} {fn.name}({', '.join(_params(fn))}): no parameter is an "
               "expression handed to a mapper")
    return n_inst


def _self_matters(fn, val, vdep):
    """the stored value depends on *which* instance/class it is computed for:
    self is passed on, or a method/attribute of self other than the table is
    consulted while computing it"""
    for nm in vdep | {"__val__"}:
        pass
    srcs = [val]
    for n in ast.walk(fn):
        if isinstance(n, ast.Assign) and set(
                x for t in n.targets for x in _target_names(t)) & vdep:
            srcs.append(n.value)
    for s in srcs:
        for n in ast.walk(s):
            if isinstance(n, ast.Name) and n.id in ("self", "cls"):
                return True
    return False
