"""Command line: ./check <ID> [--tier quick|thorough] [--replay path]"""
from __future__ import annotations

import argparse
import importlib
import json
import os
import sys
import traceback

from . import AnalysisError, ModelViolation, assert_not_imported
from .model import Model
from .report import Ctx, finish

ALL = [f"C{i:02d}" for i in range(1, 21)]


def run_property(prop: str, tier: str, replay: str | None = None,
                 write_evidence=True, root: str | None = None) -> int:
    try:
        mod = importlib.import_module(f"pv.checks.{prop.lower()}")
    except ModuleNotFoundError:
        print(f"ANALYSIS-ERROR property={prop}: no check implemented")
        return 2
    try:
        from .repo import Repo
        model = Model(Repo(root))
        ctx = Ctx(prop, tier, model)
        try:
            try:
                _shared_state_rules(ctx, model, prop)
                mod.run(ctx)
            finally:
                from .absint import close_generators
                close_generators()
        except ModelViolation as mv:
            ctx.ob(mv.key, False, mv.where, mv.what)
            ctx.extra["aborted_after"] = (
                f"{mv.key}: the table this check works from could not be "
                "built because the construct it is read from violates the rule; "
                "the remaining obligations were not evaluated")
            return finish(ctx, None, write_evidence)
        except AnalysisError as e:
            from .report import load_known
            known = {k["key"] for k in load_known()
                     if k.get("property") == prop and k.get("status") == "known"}
            if not any(o.key not in known for o in ctx.failures):
                raise
            # definite violations were already established when the analyser met
            # something it could not read: they stand on their own
            print(f"ANALYSIS-INCOMPLETE property={prop}: {e} (the violations "
                  "established before that point are reported)")
            ctx.extra["aborted_after"] = f"analysis stopped: {e}"
            return finish(ctx, None, write_evidence)
        assert_not_imported()
        if tier == "thorough" and root is None and not replay:
            from .report import load_known
            known = {k["key"] for k in load_known()
                     if k.get("property") == prop and k.get("status") == "known"}
            if any(o.key not in known for o in ctx.failures):
                # the tree itself violates the property: report that; the
                # variant corpus is calibrated against a tree that passes
                ctx.extra["self_validation"] = "skipped: the tree under " \
                    "analysis has violations of its own"
            else:
                _self_validate(ctx, prop)
        replay_key = None
        if replay:
            with open(replay) as f:
                replay_key = json.load(f)["key"]
        return finish(ctx, replay_key, write_evidence)
    except AnalysisError as e:
        print(f"ANALYSIS-ERROR property={prop}: {e}")
        return 2
    except Exception:
        tb = traceback.format_exc()
        print(f"ANALYSIS-ERROR property={prop}: internal error\n{tb}")
        return 2


_REGISTRY_PROPS = ("C02", "C03", "C04")


def _shared_state_rules(ctx, model, prop):
    """rules every property carries for the modules it is anchored in:
    process-lifetime memo tables and rebindable registries (pv/sharedstate.py)"""
    from . import sharedstate as ss
    n = ss.check_memo_tables(ctx, model, ss.anchor_modules(prop))
    ctx.extra["process_lifetime_tables_judged"] = n
    if prop in _REGISTRY_PROPS:
        ss.check_registry_reads(ctx, model)


def _self_validate(ctx, prop):
    """thorough tier: run this property's share of the firing / silent variant
    corpus against scratch copies; an insensitive or over-sensitive checker is
    an ANALYSIS-ERROR (exit 2), never a violation of the property"""
    import sys as _sys
    here = os.path.dirname(os.path.dirname(os.path.abspath(__file__)))
    if here not in _sys.path:
        _sys.path.insert(0, here)
    from concurrent.futures import ProcessPoolExecutor
    from selftest.run import judge, run_one
    from selftest.variants import VARIANTS
    todo = [dict(v, props=[prop]) for v in VARIANTS if prop in v["props"]]
    bad = []
    skipped = 0
    fired = silent = 0
    with ProcessPoolExecutor(max_workers=min(16, os.cpu_count() or 4)) as ex:
        for vid, status, results, v in ex.map(run_one, todo):
            if status == "inapplicable":
                skipped += 1
                continue
            ok, msg = judge(v, results)
            if not ok:
                bad.append(f"{vid}: {msg.splitlines()[0] if msg else ''}")
            elif v["kind"] == "fire":
                fired += 1
            else:
                silent += 1
    # stored seeded changes of this property (independent authors)
    import glob
    import json as _json
    from selftest.seeds import run_one as run_seed
    sdirs = []
    want = {}
    for d in sorted(glob.glob(os.path.join(here, "seeded", "*"))):
        mp = os.path.join(d, "meta.json")
        if os.path.isfile(mp):
            m = _json.load(open(mp))
            if m.get("property") == prop:
                sdirs.append(d)
                want[m["id"]] = m.get("expected_exit", 1)
    seeds_ok = 0
    with ProcessPoolExecutor(max_workers=min(16, os.cpu_count() or 4)) as ex:
        for sid, rc, out in ex.map(run_seed, sdirs):
            if rc is None:
                skipped += 1
            elif rc != want[sid]:
                bad.append(f"seeded change {sid}: expected exit {want[sid]}, "
                           f"got {rc}")
            else:
                seeds_ok += 1
    # behaviour-preserving refactorings (independent authors): this property's
    # check must stay silent on every one of them
    from selftest.refactors import run_one as run_refac, corpus_dirs, load_open
    rdirs = corpus_dirs()
    open_ = load_open()
    n_open = 0
    refac_ok = 0
    with ProcessPoolExecutor(max_workers=min(16, os.cpu_count() or 4)) as ex:
        for name, res, msg in ex.map(run_refac, [(d, [prop]) for d in rdirs]):
            if res is None:
                skipped += 1
            elif res and (name, prop) in open_:
                n_open += 1
            elif res:
                bad.append(f"refactoring {name}: exit {res[0][1]} "
                           f"({'false alarm' if res[0][1] == 1 else 'analysis error'})")
            else:
                refac_ok += 1
    ctx.extra["self_validation"] = {
        "variants": len(todo), "firing_detected": fired, "silent_quiet": silent,
        "seeded_changes_reported": seeds_ok,
        "refactorings_silent": refac_ok,
        "refactorings_open_checker_weaknesses": n_open,
        "inapplicable": skipped, "failed": bad}
    if bad:
        raise AnalysisError("checker self-validation failed (the checker, not "
                            "the repository, is at fault): " + "; ".join(bad[:5]))


def selfcheck() -> int:
    """setup: byte-compile the engine, parse /repo, assert the anchors."""
    import compileall
    import io
    import contextlib
    buf = io.StringIO()
    with contextlib.redirect_stdout(buf):
        ok = compileall.compile_dir(os.path.dirname(__file__), quiet=1,
                                    legacy=False, optimize=0, force=False,
                                    workers=1)
    if not ok:
        print(buf.getvalue())
        print("ANALYSIS-ERROR selfcheck: engine does not compile")
        return 2
    try:
        model = Model()
        nt = model.nodes
        n_dec = sum(1 for n in nt.all() if n.decorated)
        if n_dec < 40:
            raise AnalysisError(f"only {n_dec} decorated node classes found")
        for key in ("pymbolic.mapper:Mapper", "pymbolic.mapper:IdentityMapper",
                    "pymbolic.mapper:WalkMapper", "pymbolic.mapper:CombineMapper",
                    "pymbolic.mapper.evaluator:EvaluationMapper",
                    "pymbolic.mapper.stringifier:StringifyMapper",
                    "pymbolic.parser:Parser"):
            model.cls(key)
        assert_not_imported()
    except AnalysisError as e:
        print(f"ANALYSIS-ERROR selfcheck: {e}")
        return 2
    print(f"selfcheck ok: {len(model.repo.modules)} modules, "
          f"{len(model.classes)} classes, {len(nt.all())} node classes")
    return 0


def main(argv=None):
    ap = argparse.ArgumentParser()
    ap.add_argument("prop")
    ap.add_argument("--tier", default=os.environ.get("VERIF_TIER", "quick"),
                    choices=["quick", "thorough"])
    ap.add_argument("--replay")
    ap.add_argument("--no-evidence", action="store_true")
    args = ap.parse_args(argv)
    if args.prop == "selfcheck":
        return selfcheck()
    if args.prop == "all":
        rc = 0
        for p in ALL:
            if os.path.exists(os.path.join(os.path.dirname(__file__), "checks",
                                           p.lower() + ".py")):
                rc = max(rc, run_property(p, args.tier, None,
                                          not args.no_evidence))
        return rc
    return run_property(args.prop.upper(), args.tier, args.replay,
                        not args.no_evidence)


if __name__ == "__main__":
    sys.exit(main())
