#!/bin/sh
# maintainer helper: confirm round-8 seeds of ONE property (layout /tmp/r8/Cxx/out/m*) and run that property's check
p=$1
export PV_SEED_ROOT=/tmp/r8v/s_$p
mkdir -p $PV_SEED_ROOT
for d in /tmp/r8/$p/out/m*; do
  [ -f "$d/patch.diff" ] && [ -f "$d/demo.py" ] || continue
  out=$(sh /verif/tools/try_seed.sh $d $p 2>&1)
  echo "$out" > "$d/.tried"
  clean=$(echo "$out" | sed -n '/demo on clean/{n;p}')
  suite=$(echo "$out" | sed -n '/suite with patch/{n;p}' | cut -c1-10)
  patched=$(echo "$out" | sed -n '/demo with patch/{n;p}')
  det=$(echo "$out" | grep -E "^C[0-9]+ rc=" | tr '\n' ' ')
  key=$(echo "$out" | grep -A1 "^VIOLATION" | grep "^    " | head -2 | sed 's/^ *//' | cut -c1-140 | tr '\n' ';')
  echo "$p/$(basename $d): clean[$clean] suite[$suite] patched[$patched] => ${det:-MISSED} :: $key"
done
