#!/bin/sh
# maintainer helper: behaviour-CHANGING but property-neutral patches (from
# sub-agents) -- the checks must stay silent.
# usage: tools/try_neutral.sh [ROOT]   (walks ROOT/C*_out/n*; ROOT defaults to /tmp/wt5)
ROOT=${1:-/tmp/wt5}
WT=$ROOT/verify
[ -d "$WT" ] || git -C /repo worktree add -q --detach "$WT" HEAD
for d in $ROOT/C*_out/n*; do
  [ -f "$d/patch.diff" ] && [ -f "$d/differs.py" ] && [ -f "$d/holds.py" ] && [ -f "$d/notes.md" ] || continue
  [ -f "$d/.tried" ] && continue
  p=$(basename $(dirname $d)); p=${p%%_out}
  git -C "$WT" checkout -q -- .
  d0=$(cd "$WT" && PYTHONPATH="$WT" timeout 120 /venv/bin/python -W ignore "$d/differs.py" >/dev/null 2>&1; echo $?)
  h0=$(cd "$WT" && PYTHONPATH="$WT" timeout 120 /venv/bin/python -W ignore "$d/holds.py" >/dev/null 2>&1; echo $?)
  if ! git -C "$WT" apply "$d/patch.diff" 2>/dev/null; then echo "$p/$(basename $d): PATCH DOES NOT APPLY"; echo x > $d/.tried; continue; fi
  suite=$(cd "$WT" && PYTHONPATH="$WT" /venv/bin/python -m pytest -q -p no:cacheprovider --timeout=900 test 2>&1 | tail -1 | cut -c1-30)
  d1=$(cd "$WT" && PYTHONPATH="$WT" timeout 120 /venv/bin/python -W ignore "$d/differs.py" >/dev/null 2>&1; echo $?)
  h1=$(cd "$WT" && PYTHONPATH="$WT" timeout 120 /venv/bin/python -W ignore "$d/holds.py" >/dev/null 2>&1; echo $?)
  git -C "$WT" checkout -q -- .
  rm -rf $ROOT/scratch && mkdir -p $ROOT/scratch && cp -r /repo/pymbolic $ROOT/scratch/pymbolic && (cd $ROOT/scratch && patch -p1 -s < "$d/patch.diff")
  : > $d/.tried
  res=""
  for q in C01 C02 C03 C04 C05 C06 C07 C08 C09 C10 C11 C12 C13 C14 C15 C16 C17 C18 C19 C20; do
    out=$(cd /verif && PV_REPO=$ROOT/scratch ./check $q --no-evidence 2>&1); rc=$?
    if [ $rc -ne 0 ]; then res="$res $q=$rc"; echo "## $q rc=$rc" >> $d/.tried; echo "$out" | grep -A2 "VIOLATION\|ANALYSIS-ERROR" | grep -v "^--" | head -9 | cut -c1-300 >> $d/.tried; fi
  done
  rm -rf $ROOT/scratch
  echo "$p/$(basename $d): differs clean=$d0 patched=$d1; holds clean=$h0 patched=$h1; suite[$suite] => ${res:-silent}"
done
