#!/usr/bin/env python3
"""maintainer helper: store the confirmed round-8 seeded changes"""
import glob, json, os, re, shutil, subprocess, sys
logs = {}
for f in glob.glob("/tmp/r8f_C*.log"):
    for line in open(f):
        m = re.match(r"(C\d+)/(m\d): clean\[rc=(\d)\] suite\[(.*?)\] patched\[rc=(\d)\] => (.*?) ::(.*)", line.rstrip("\n"))
        if m:
            logs[(m.group(1), m.group(2))] = m.groups()[2:]
first = {}
for f in ("/tmp/r8_first_contact.json",):
    if os.path.exists(f):
        first = json.load(open(f))
n = 0
for (p, x), (c0, suite, c1, det, keys) in sorted(logs.items()):
    src = f"/tmp/r8/{p}/out/{x}"
    if not (c0 == "0" and c1 == "1" and suite.startswith("41 passed")):
        print("NOT CONFIRMED", p, x, c0, suite, c1); continue
    notes = open(os.path.join(src, "notes.md")).read()
    title = re.sub(r"[^a-z0-9]+", "-", notes.strip().splitlines()[0].lower())[:48].strip("-")
    sid = f"{p}-r8{x}-{title}"
    rc = 1 if f"{p} rc=1" in det else 2 if f"{p} rc=2" in det else 0
    dst = f"/verif/seeded/{sid}"
    os.makedirs(dst, exist_ok=True)
    for fn in ("patch.diff", "demo.py", "notes.md"):
        shutil.copy(os.path.join(src, fn), os.path.join(dst, fn))
    fc = first.get(f"{p}/{x}", "")
    meta = {"id": sid, "property": p, "round": 8,
            "origin": "independent sub-agent given only the property record and a "
                      "scratch worktree of /repo",
            "needs_to_manifest": " ".join(notes.strip().splitlines()[1:8])[:900],
            "confirmed": "tools/try_seed.sh: patch applies to /repo HEAD; unedited "
                         "suite 41 passed with it; demo.py exits 0 on the clean tree "
                         "and 1 with the patch",
            "detected_by": f"{p}: " + keys.split(";")[0].split("  ")[-1].strip(),
            "first_contact": fc,
            "how_to_rerun": f"git -C /repo apply seeded/{sid}/patch.diff && ./check {p}; git -C /repo checkout -- ."}
    if rc == 2:
        meta["expected_exit"] = 2
        meta["detected_by"] = f"{p}: ANALYSIS-ERROR (the check refuses to pass, it cannot name the violation)"
    json.dump(meta, open(os.path.join(dst, "meta.json"), "w"), indent=1)
    n += 1
print("stored", n)
