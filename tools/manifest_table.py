_NOTE = ("Trusted: Python's ast parser; the oracle tables in pv/oracles.py; the "
         "structural-induction argument (local handler obligations imply the "
         "global behaviour) made in DESIGN.md; handler resolution by name "
         "through the C3 MRO as computed by the engine.")

CLAIMED["C04"] = (
    "ast-based dispatch-relation model + per-handler provenance/path analysis "
    "(field coverage, argument forwarding, walk protocol, attribute existence)",
    "Every (stock mapper, node class) pair is resolved through the modelled "
    "dispatch relation and its handler is checked path by path for coverage of "
    "every child field, rebuild shape, visit/post_visit protocol and forwarding "
    "of extra arguments; the dispatch routines themselves are checked exit by "
    "exit. Each obligation covers all expressions that exercise that handler, "
    "which sampling tests cannot. Static, so behaviour is decided only as far "
    "as it is determined by handler shape.",
    _NOTE, "DESIGN.md section 5, C04")

for _p in ["C01", "C02", "C03", "C05", "C06", "C07", "C08", "C09", "C10", "C11",
           "C12", "C13", "C14", "C15", "C16", "C17", "C19", "C20"]:
    NOT_APPLICABLE[_p] = ("check under construction in this revision (see "
                          "DESIGN.md for the planned static rule)")
NOT_APPLICABLE["C18"] = (
    "every clause is an arithmetic identity over blade bit-patterns and metric "
    "values; no structural necessary condition short of matching the exact "
    "formulas exists, so static analysis cannot decide it (DESIGN.md section 10)")
