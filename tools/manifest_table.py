_NOTE = ("Trusted: Python's ast parser; the oracle tables in pv/oracles.py; the "
         "structural-induction argument (local handler obligations imply the "
         "global behaviour) made in DESIGN.md; handler resolution by name "
         "through the C3 MRO as computed by the engine.")

CLAIMED["C04"] = (
    "ast-based dispatch-relation model + per-handler provenance/path analysis "
    "(field coverage, argument forwarding, walk protocol, attribute existence)",
    "Every (stock mapper, node class) pair is resolved through the modelled "
    "dispatch relation and its handler is checked path by path for coverage of "
    "every child field, rebuild shape, visit/post_visit protocol and forwarding "
    "of extra arguments; the dispatch routines themselves are checked exit by "
    "exit. Each obligation covers all expressions that exercise that handler, "
    "which sampling tests cannot. Static, so behaviour is decided only as far "
    "as it is determined by handler shape.",
    _NOTE, "DESIGN.md section 5, C04")

CLAIMED["C08"] = (
    "ast path/provenance analysis of the three interceptors, rule F (field "
    "coverage / rebuild / unchanged-guard) on every handler the substitution "
    "mapper resolves to, def-use of the lookup closure and of substitute()",
    "Structural half only: the replacement flows to the return without passing "
    "a recursion site, the no-replacement exit is the node or the inherited "
    "identity handler, all other node classes are rebuilt by covering identity "
    "handlers, the caller's mapping is copied before mutation. The value "
    "equation follows by induction with C02 and is not decided mechanically.",
    _NOTE, "DESIGN.md section 5, C08")

CLAIMED["C09"] = (
    "decision-table extraction of the dependency flags over enumerated paths, "
    "combine/walk coverage rules on resolved handlers, formula terms of the "
    "flop handlers, path order rule for the CSE seen-set",
    "Every branch of every flag handler and of the constructor is enumerated and "
    "compared with the flag table; every (mapper, node class) pair the three "
    "analyses resolve to is covered or raising. Exactness on concrete inputs is "
    "not executed; it follows from per-handler exactness by induction.",
    _NOTE, "DESIGN.md section 5, C09")

CLAIMED["C20"] = (
    "symbolic def-use summaries (ast abstract evaluation with container "
    "accumulation) of the fuse/disambiguate functions; MRO-chain agreement of "
    "get_read_variables and map_expressions",
    "Structural clauses only: which attributes flow through the dependency "
    "mapper into the read set, which attributes map_expressions maps, and the "
    "data flow of ids/names in fusion and disambiguation are decided from the "
    "source for all inputs; for the graph export, the fixed-point loop that "
    "closes the dependency relation (flag reset per sweep, only raised inside "
    "it, exit only after an unchanged sweep). The reduction step that follows "
    "is declined.",
    _NOTE, "DESIGN.md section 5, C20")

CLAIMED["C06"] = (
    "table extraction (printer templates, parser precedence-climbing branches, "
    "lex table) from the ast + two table-driven grammar models run against each "
    "other over exhaustively enumerated nestings",
    "The printer's precedence/forced-parenthesis table and the parser's "
    "precedence table are extracted from the source on every run (branch and "
    "helper shapes are recognised or the run is an ANALYSIS-ERROR) and compared "
    "through generic models on every (parent, position, child) nesting (quick) "
    "and every 3-level nesting over a reduced alphabet (thorough). Exhaustive "
    "over the table space, which is what a sampled round-trip test cannot be; "
    "the models abstract the code, so fidelity rests on the recognisers.",
    _NOTE, "DESIGN.md section 5, C06")

CLAIMED["C07"] = (
    "extracted parser table driven through a generic precedence-climbing model "
    "and compared with Python's own grouping (ast.parse on checker-built "
    "skeleton strings); lexer-table priority checks; ast path rules for "
    "whole-input and argument lists; importer operator tables against the "
    "interpreter's ast operator tables, with a coverage rule (every operator "
    "the model parser and Python share has an importer entry) and a piecewise "
    "reading of the comparison-chain loops in parser and importer",
    "All 2-operator skeletons of the shared syntax (quick) and 3-operator "
    "skeletons (thorough) are enumerated exhaustively; the importer's tables "
    "are compared entry by entry with the node each Python operator denotes, "
    "including whether the entry can be called with two operands; a comparison "
    "chain must mean the conjunction of its links in both.",
    _NOTE, "DESIGN.md section 5, C07")

CLAIMED["C14"] = (
    "printer-template extraction for CCodeMapper through its MRO + reference "
    "parser driven by the ISO C operator table, compared in a real-arithmetic "
    "normal form over all 2-/3-level nestings; role/def-use analysis of the "
    "three CSE containers and path-order rules in map_common_subexpression; C typing rule: no integer/integer division for a true-division node",
    "The emitted C text of every (parent, position, child) nesting is re-grouped "
    "by a C-precedence reference parser and must denote the same tree up to "
    "regroupings that cannot change a value; every writer of the CSE containers "
    "must store values of the container's role. The C text is never compiled "
    "or run.",
    _NOTE, "DESIGN.md section 5, C14")

CLAIMED["C13"] = (
    "attribute-existence rule on exporter handlers; exporter/importer operator "
    "tables against the interpreter's ast operator tables and the node "
    "denotation table; exporter/importer sibling agreement (every ast node kind "
    "written is read); ast def-use rules on compile(); CompileMapper's printer "
    "table regrouped by Python's own grammar (ast.parse of checker-built source)",
    "Each exporter handler, importer table entry and compile() step is a finite "
    "fact checked for all expressions at once; the generated source of every "
    "2-level nesting is regrouped by Python's parser and must denote the same "
    "tree. Generated code is never executed.",
    _NOTE, "DESIGN.md section 5, C13")

CLAIMED["C01"] = (
    "symbolic instantiation of the generated __eq__/__hash__ code template "
    "(f-string holes expanded for 0..3 symbolic fields, result parsed and "
    "analysed path by path); class census over the node table; who-may-write "
    "(ownership) rule over every setattr site and every mapper handler; "
    "frozenness of node classes outside the dataclass machinery by "
    "concretising their __setattr__ guard for every stored name",
    "The mechanism that makes equality structural, hashes consistent and nodes "
    "immutable is decided for every node class at once: the template's paths, "
    "the decorator's dataclass arguments, the census of classes that bypass it, "
    "and every place in the package that could rebind a node attribute.",
    _NOTE, "DESIGN.md section 5, C01")

CLAIMED["C17"] = (
    "same template instantiation for __getstate__/__setstate__; census of "
    "pickle bypasses; taint-style rule on every value reaching the persistent "
    "digest (must be a process-independent string) and on iteration order of "
    "mapping-valued fields; class-table agreement between the registered numpy "
    "constant classes and the digest's normalisation test; init_arg_names of the init-args nodes",
    "State = field tuple only and digest inputs/iteration order are facts about "
    "the code, decided for all expressions; cross-process behaviour follows "
    "because nothing process-dependent (hash(), id(), dict order of equal "
    "mappings, cached hash) can enter state or digest.",
    _NOTE, "DESIGN.md section 5, C17")

CLAIMED["C05"] = (
    "path rules (look-aside discipline: one key for lookup and store, store on "
    "every computing path) on CachedMapper.__call__ and the CSE mix-in; key "
    "coverage by def-use; MRO/sibling agreement of cached variants; "
    "hidden-state (purity) scan of every reachable handler; boolean analysis of "
    "the optimizer's flag conditions and guards over all 16 option combinations",
    "Memoization transparency is reduced to finite facts about the cache code "
    "and about every handler a memoizing mapper can reach; the optimizer's "
    "obligations are decided over all option combinations. The class the "
    "optimizer generates is never built or run.",
    _NOTE, "DESIGN.md section 5, C05")

CLAIMED["C11"] = (
    "path-condition rules on the flatten work-list loops and on fold() "
    "(which conditions dominate each append / re-queue / return), MRO and "
    "table agreement of the folding mappers, rule F on FlattenMapper, def-use "
    "rules on TermCollector's bookkeeping (which component of the (base, "
    "exponent) table reaches the coefficient / the term key, accumulation by "
    "addition); DistributeMapper: re-distribution rule on the multiplying-out "
    "helper, truth table of map_power over the class of the mapped base",
    "Partial: the structural clauses of flattening and constant folding are "
    "decided for all inputs from the path conditions; for term collection only "
    "that no component is dropped while splitting and re-assembling; value "
    "for distribution the necessary conditions that no product is built "
    "around an already multiplied-out result and that no product, sum or "
    "integer power survives as the base of a positive integer power; value "
    "preservation is declined (no structural reading).",
    _NOTE, "DESIGN.md section 5, C11")

CLAIMED["C12"] = (
    "ownership rule over every CommonSubexpression construction site with the "
    "path conditions that dominate it; table/sibling rules for the normalised "
    "key; look-aside path rule on the CSE caching mix-in; MRO rule for every "
    "mapper that uses the mix-in; canonical-table rule for pre-existing wrappers",
    "Partial: 'no wrapper directly around a wrapper', key sharing, and "
    "once-per-evaluation are decided structurally for all inputs; that tagging "
    "finds every repeat and preserves value is declined.",
    _NOTE, "DESIGN.md section 5, C12")

CLAIMED["C15"] = (
    "attribute-existence rule over the dispatch relation of "
    "CoefficientCollector; refusal (raise) structure of its product/quotient/"
    "power handlers; covering-or-raising for all node classes; dominance of the "
    "solver's refusals over its division; exact-by-construction rule on every "
    "floor division of the integer elimination (lcm over its own argument, or "
    "a whole row over the gcd of that row)",
    "Partial: only refusal and guard structure is decided (non-affine input "
    "raises, composite leaves do not crash, the solver refuses before it "
    "divides, the integer elimination never rounds). Correctness of the "
    "coefficients and of the elimination order is numeric and declined.",
    _NOTE, "DESIGN.md section 5, C15")

CLAIMED["C19"] = (
    "abstract interpretation of integer_power, extended_euclidean, the Horner "
    "evaluation of Polynomial nodes and Polynomial's operators over polynomial "
    "normal forms (pv/absint.py: concrete control, symbolic ring/monoid "
    "elements, no solver): loop-invariant verification conditions discharged by "
    "normal-form equality (integer_power for every n, Bezout's identity for "
    "every input), bounded shape enumeration for the rest; path rule (raise "
    "dominates loop); rules F/K/W with single-use-iterator tracking on the "
    "polynomial traversals; path conditions of quotient(); class census; "
    "argument-forwarding rule on the FFT wrappers; linear-form reading of "
    "derived operators; loop-exit rule on polynomial long division; aliasing "
    "rule (no augmented assignment on caller-owned arguments)",
    "Partial: x**n for every n >= 0 and refusal of n < 0; g = a*q + b*r for "
    "every input; Horner value on 11 exponent shapes; Polynomial -p, p**k, p*s, "
    "s*p, p+q, p-q, p*q, divmod homomorphic and normalised on 190 operand "
    "shapes (one base, field coefficients); coefficients survive a rewriting "
    "mapper; exact-quotient node; g is a greatest common divisor (unimodular "
    "rounds, loop ends with r == 0); lcm*gcd == +-q*r; fft / ifft / sym_fft "
    "equal the DFT definition modulo w**n == 1 for every length up to 12 (32 "
    "thorough), both signs. Not decided: polynomials over different bases or "
    "non-field coefficients; floating-point error.",
    _NOTE, "DESIGN.md section 5, C19")

CLAIMED["C16"] = (
    "pairwise-field rule on every UnifierBase handler (class test dominates "
    "reads of the target, same field on both sides, records threaded), "
    "ownership rule on UnificationRecord construction sites, path rule on the "
    "candidate filters and the merge functions, index-accounting rules on the "
    "associative-commutative search (roles of the nested helpers identified by "
    "def-use, then checked path by path), inverse-table check of the matchpy "
    "to/from mappers over the op dataclasses and of the binding conversion of "
    "replacement callbacks; matchpy bridge: operations rebuildable from unpacked operands, bindings of match()/match_anywhere() converted like the replacement callback's",
    "Partial: soundness-relevant structure is decided for all inputs (what is "
    "matched against what, who may create records, how bindings merge, that "
    "every target child of an AC match is used exactly once, that the bridge is "
    "lossless field by field and binding by binding). Completeness is declined.",
    _NOTE, "DESIGN.md section 5, C16")

CLAIMED["C02"] = (
    "per-handler denotation terms (abstract value of each evaluator handler's "
    "return expression) compared with a node->Python-construct oracle; path "
    "rule for conditional laziness and the unknown-variable error; except-"
    "clause scan; child coverage; covering-or-raising over the dispatch "
    "relation; look-aside path rules and key coverage of the memoizing variant",
    "Each of the ~30 evaluator handlers is one finite fact (operator identity, "
    "operand order, which children are evaluated on which path) that holds for "
    "every expression using that node type; the global statement follows by "
    "structural induction. Arithmetic of the number types is not decided.",
    _NOTE, "DESIGN.md section 5, C02")

CLAIMED["C03"] = (
    "path enumeration of every operator dunder with guards normalised to atoms "
    "(operand is 0 / is 1 / has unsupported type / is of the same n-ary class) "
    "and results normalised to self/other/constant/node(operand order); "
    "shortcut pairs checked against a table of valid identities; census for "
    "ordering overrides; sibling agreement of the operand gates (which "
    "predicate each operator method applies, whether it refuses booleans)",
    "All (operator, guard, result) triples of the overloads are enumerated, so "
    "every construction-time shortcut and every operand order is decided, "
    "including the reflected and splicing variants that sampling rarely "
    "reaches. Value equality follows with C02 by induction and is not decided "
    "mechanically.",
    _NOTE, "DESIGN.md section 5, C03")

CLAIMED["C10"] = (
    "dispatch-relation refusal set; path rules for the non-smoothness gates; "
    "right-hand side of every table row and rule branch abstracted into an exact "
    "rational-function normal form (ast only) and compared with reference "
    "derivative formulas under the branch's assumptions; look-aside and "
    "ownership rules of the CSE caching mix-in the differentiator memoizes "
    "wrappers through",
    "Each differentiation rule is one algebraic identity decided exactly for "
    "all operands (algebraic rearrangements of a correct rule are accepted); "
    "which node types are differentiated at all and under which setting "
    "non-smooth functions are admitted is decided from the dispatch relation "
    "and path conditions. Domains and user-supplied function maps are declined.",
    _NOTE, "DESIGN.md section 5, C10")

CLAIMED["C18"] = (
    "abstract interpretation of pymbolic.geometric_algebra (pv/absint.py, "
    "pv/ga.py): the library's product, involution, inverse and constructor "
    "code is interpreted on multivectors with symbolic coefficients over "
    "spaces with a symbolic diagonal metric; blade bit patterns and control "
    "flow are concrete, every result coefficient is a polynomial normal form, "
    "and each identity of the property is decided by equality of normal forms "
    "(no solver, nothing of /repo executed); structural rules on __eq__, "
    "__bool__, __hash__ and on the is_zero guard of every coefficient store",
    "Bounded in the dimension (1..3, 1..4 in the thorough tier), exact in the "
    "coefficients and the metric entries: bilinearity, associativity, e_i*e_i "
    "= g_i, anticommutation, outer/inner/scalar/left/right contraction of "
    "homogeneous multivectors = grade parts of the geometric product, reverse "
    "and grade involution as anti-/automorphisms, squared norm, dual, inverse "
    "of basis blades, generic vectors and pseudoscalars, powers, index-tuple "
    "normalisation (239 identities); equality, truth and hash read the "
    "coefficient table only and no zero coefficient is stored. Not decided: "
    "higher dimensions, numeric tolerance helpers, numpy conversions.",
    _NOTE, "DESIGN.md section 5, C18")
