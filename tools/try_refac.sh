#!/bin/sh
# maintainer helper: behaviour-preserving refactorings (from sub-agents) -- the
# checks must stay silent.  usage: tools/try_refac.sh   (walks /tmp/wt4/C*_out/r*)
ROOT=${1:-/tmp/wt4}
WT=$ROOT/verify
[ -d "$WT" ] || git -C /repo worktree add -q --detach "$WT" HEAD
for d in $ROOT/C*_out/r*; do
  [ -f "$d/patch.diff" ] && [ -f "$d/check.py" ] && [ -f "$d/notes.md" ] || continue
  [ -f "$d/.tried" ] && continue
  p=$(basename $(dirname $d)); p=${p%%_out}
  git -C "$WT" checkout -q -- . 
  c0=$(cd "$WT" && PYTHONPATH="$WT" timeout 120 /venv/bin/python -W ignore "$d/check.py" >/dev/null 2>&1; echo $?)
  if ! git -C "$WT" apply "$d/patch.diff" 2>/dev/null; then echo "$p/$(basename $d): PATCH DOES NOT APPLY"; echo x > $d/.tried; continue; fi
  suite=$(cd "$WT" && PYTHONPATH="$WT" /venv/bin/python -m pytest -q -p no:cacheprovider --timeout=900 test 2>&1 | tail -1 | cut -c1-30)
  c1=$(cd "$WT" && PYTHONPATH="$WT" timeout 120 /venv/bin/python -W ignore "$d/check.py" >/dev/null 2>&1; echo $?)
  git -C "$WT" checkout -q -- .
  rm -rf $ROOT/scratch && mkdir -p $ROOT/scratch && cp -r /repo/pymbolic $ROOT/scratch/pymbolic && (cd $ROOT/scratch && patch -p1 -s < "$d/patch.diff")
  : > $d/.tried
  res=""
  for q in C01 C02 C03 C04 C05 C06 C07 C08 C09 C10 C11 C12 C13 C14 C15 C16 C17 C18 C19 C20; do
    out=$(cd /verif && PV_REPO=$ROOT/scratch ./check $q --no-evidence 2>&1); rc=$?
    if [ $rc -ne 0 ]; then res="$res $q=$rc"; echo "## $q rc=$rc" >> $d/.tried; echo "$out" | grep -A2 "VIOLATION\|ANALYSIS-ERROR" | grep -v "^--" | head -9 | cut -c1-300 >> $d/.tried; fi
  done
  rm -rf $ROOT/scratch
  echo "$p/$(basename $d): clean=$c0 patched=$c1 suite[$suite] => ${res:-silent}"
done
