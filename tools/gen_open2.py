#!/usr/bin/env python3
"""maintainer helper: regenerate selftest/open_alarms.json from the output of
`selftest/refactors.py -v` (file given as argv[1]): OPEN and ALARM/ERR2 lines"""
import json, re, sys
out = []
for line in open(sys.argv[1]):
    m = re.match(r"^(OPEN|ALARM|ERR2)\s+(\S+): (C\d+) exit (\d)", line)
    if m:
        out.append({"patch": m.group(2), "property": m.group(3),
                    "exit": int(m.group(4))})
out.sort(key=lambda e: (e["patch"], e["property"]))
json.dump({"comment": "refactorings / neutral patches on which a check still "
           "trips although the property holds: open weaknesses of the checker "
           "(DESIGN.md 11.10, 11.11); an entry that no longer trips is reported "
           "as CLOSED by selftest/refactors.py; regenerate with "
           "tools/gen_open2.py <output of selftest/refactors.py -v>",
           "open": out}, open("/verif/selftest/open_alarms.json", "w"), indent=1)
print(len(out), "open entries,", len({e['patch'] for e in out}), "patches,",
      sum(1 for e in out if e["exit"] == 1), "exit 1,",
      sum(1 for e in out if e["exit"] == 2), "exit 2")
