#!/bin/sh
# maintainer helper: run try_seed.sh over every finished round-2 output not yet tried
for d in /tmp/wt2/C*_out/m1 /tmp/wt2/C*_out/m2; do
  [ -f "$d/patch.diff" ] && [ -f "$d/demo.py" ] && [ -f "$d/notes.md" ] || continue
  [ -f "$d/.tried" ] && continue
  p=$(basename $(dirname $d)); p=${p%%_out}
  out=$(sh /verif/tools/try_seed.sh $d 2>&1)
  echo "$out" > "$d/.tried"
  clean=$(echo "$out" | sed -n '/demo on clean/{n;p}')
  suite=$(echo "$out" | sed -n '/suite with patch/{n;p}' | cut -c1-40)
  patched=$(echo "$out" | sed -n '/demo with patch/{n;p}')
  det=$(echo "$out" | grep -E "^C[0-9]+ rc=" | tr '\n' ' ')
  key=$(echo "$out" | grep -A1 "^C[0-9]* rc=1" | grep "^    " | head -3 | sed 's/^ *//' | cut -c1-120 | tr '\n' ';')
  echo "$p/$(basename $d): clean[$clean] suite[$suite] patched[$patched] => ${det:-MISSED} :: $key"
done
