#!/bin/sh
# maintainer helper: run try_seed.sh over every finished seeded-change output not yet tried (PV_SEED_ROOT, default /tmp/wt7)
ROOT=${PV_SEED_ROOT:-/tmp/wt7}
for d in $ROOT/C*_out/m1 $ROOT/C*_out/m2 $ROOT/C*_out/m3; do
  [ -f "$d/patch.diff" ] && [ -f "$d/demo.py" ] && [ -f "$d/notes.md" ] || continue
  [ -f "$d/.tried" ] && continue
  p=$(basename $(dirname $d)); p=${p%%_out}
  out=$(sh /verif/tools/try_seed.sh $d 2>&1)
  echo "$out" > "$d/.tried"
  clean=$(echo "$out" | sed -n '/demo on clean/{n;p}')
  suite=$(echo "$out" | sed -n '/suite with patch/{n;p}' | cut -c1-40)
  patched=$(echo "$out" | sed -n '/demo with patch/{n;p}')
  det=$(echo "$out" | grep -E "^C[0-9]+ rc=" | tr '\n' ' ')
  key=$(echo "$out" | grep -A1 "^C[0-9]* rc=1" | grep "^    " | head -3 | sed 's/^ *//' | cut -c1-120 | tr '\n' ';')
  echo "$p/$(basename $d): clean[$clean] suite[$suite] patched[$patched] => ${det:-MISSED} :: $key"
done
