#!/usr/bin/env python3
"""Maintainer helper (never run by a check): append entries to
known_findings.json.  usage: kf_add.py PROP STATUS KEY INPUT WHAT [COMMIT]"""
import json, sys
p = "/verif/known_findings.json"
d = json.load(open(p))
prop, status, key, inp, what = sys.argv[1:6]
e = {"property": prop, "status": status, "key": key, "input": inp, "what": what}
if len(sys.argv) > 6:
    e["commit"] = sys.argv[6]
    e = {"property": prop, "status": status, "commit": sys.argv[6], "key": key,
         "input": inp, "what": what}
d["findings"] = [f for f in d["findings"]
                 if not (f["property"] == prop and f["key"] == key)] + [e]
json.dump(d, open(p, "w"), indent=1)
open(p, "a").write("\n")
